"""C09 — default retry and timeout of each method equal its gRPC service-config entry (DESIGN §7.9).

T2  real `_ProtoBuilder._to_float`, `exception_class_for_grpc_status` (all 17 codes, 17x17 isinstance) and
    `Method.retry`/`Method.timeout` (the result of `_get_retry_and_timeout` inside `API.build`) vs the Lean model.
T3  emitted `_wrapped_methods` table of the sync gRPC, asyncio gRPC (and REST) transports by introspection, and the
    emitted sync / asyncio clients against a loopback gRPC server with scripted status codes: attempt count,
    per-attempt deadline seen by the server, sleeps requested (api-core's sleep trapped, virtual clock, jitter either
    pinned to 1.0 = exact, or left random = upper bounds), surfaced exception — vs the Lean model.
Oracle: the statement restated on the implementation's observables with `fractions.Fraction`, independent of the model.

Second deepening round:
* `_to_float`: the model now reads Python's whole sign / mantissa / exponent grammar (exact rationals; the harness rounds to
  binary64, overflow = inf); generator: canonical JSON durations (0/3/6/9 fraction digits, padded, negative), fractions with
  leading zeros, nanoseconds up to 10^30 (>= 2^53: two roundings — excluded point, run), exponent forms, mutated literals,
  and the literals the model leaves out (blanks, `_`, inf/nan, non-ASCII digits: recorded as assumption).
* services declared in files of proto SUB-PACKAGES of the API (also nested, also all-but-one): the config must name the proto
  full name; the model computes the selector from the declaring file's package (`selectorService`); the root-package spelling
  of such a service is generated as a decoy name (names nothing).
* client-streaming and bidi RPCs are CALLED (sync gRPC: retried like any other RPC; asyncio: api-core retries only what
  `wait_for_connection()` raises, so the status surfaces without retry — assumption, api-core's code).
* unary and paged RPCs are also called through the emitted SYNC REST client against an HTTP loopback (plug-in op
  `c09_rest_session`: virtual clock, pinned jitter, `timeout=` of each HTTP request recorded), over the status codes whose
  api-core class survives the HTTP status (computed from the installed api-core).
"""
from __future__ import annotations
import copy, json, os, tempfile
from decimal import Decimal
from fractions import Fraction
import apigen, genrun, libhost, rpc

ERR_CODES = ["CANCELLED", "UNKNOWN", "INVALID_ARGUMENT", "DEADLINE_EXCEEDED", "NOT_FOUND", "ALREADY_EXISTS",
             "PERMISSION_DENIED", "RESOURCE_EXHAUSTED", "FAILED_PRECONDITION", "ABORTED", "OUT_OF_RANGE",
             "UNIMPLEMENTED", "INTERNAL", "UNAVAILABLE", "DATA_LOSS", "UNAUTHENTICATED"]
ALL_CODES = ["OK"] + ERR_CODES
PKGS = ["acme.lib.v1", "acme.store.v2", "acme.deep.store.v1beta1"]
SERVICES = ["Library", "Archive", "Shelver"]
METHODS = ["GetBook", "ListBooks", "CreateBook", "DeleteBook", "UpdateBook", "StreamBooks", "MoveBook", "Ping", "GetIAMThing"]
MIXIN_RPCS = {      # api name -> (rpc, http verb, uri, python request class, proto request type, request valuation)
    "google.longrunning.Operations": ("GetOperation", "get", "/v1/{name=operations/*}",
                                      "google.longrunning.operations_pb2:GetOperationRequest", "google.longrunning.GetOperationRequest", {"name": "operations/x"}),
    "google.cloud.location.Locations": ("GetLocation", "get", "/v1/{name=projects/*/locations/*}",
                                        "google.cloud.location.locations_pb2:GetLocationRequest", "google.cloud.location.GetLocationRequest", {"name": "projects/p/locations/l"}),
}
EDGE_BACKOFFS = ["0s", "0.0s", "0.000001s", "0.000000001s", "3600s", "86400s", "1000000n", "30s", "0.999999999s",
                 "0.05s", "1.05s", "0.025s", "0.005000s", "0.000s", "1.000000s", "50000000n", "3n", "01s", "00.50s"]
EDGE_TIMEOUTS = ["3600s", "86400s", "315360000s", "1.000000001s", "0.999s", "1.0s", "100.5s", "0.1s",
                 "1.05s", "2.025s", "10.000000s", "4.050s", "2050000000n", "007s"]
# (not "315576000000s", the largest legal protobuf Duration: grpc-python itself fails a call whose timeout is that large with
#  DEADLINE_EXCEEDED before anything is sent — a limit of the gRPC runtime, observed in the thorough tier; `_to_float` reads it fine: T2)
EDGE_MULTS = [1.0, 2.0, 10, 100, 1.000001, 0.25, 0.999, 1e3, 7]
BACKOFFS = ["0.1s", "0.25s", "0.5s", "1s", "1.5s", "2s", "0.125s", "0.3s", "0.75s", "0.05s", "3.5s", "0.010s",
            "1.000s", "0.100s", "4s", "0.2s"]
MAXES = ["1s", "2s", "5s", "10s", "60s", "0.5s", "32s", "2.5s", "0.4s", "7.25s"]
TIMEOUTS = ["5s", "7.5s", "30s", "60s", "0.5s", "2.25s", "600s", "12.345s", "1s", "3s", "10s", "20.5s", "0.75s"]
MULTS = [1.3, 2, 1.5, 1.25, 1, 3, 1.1, 2.5, 4, 1.75]
GRPC_WIRE_TIMEOUT_CAP = 9.0e7     # the `grpc-timeout` header has 8 digits: gRPC itself caps what the server sees at 27000 hours
TOL = 0.25            # seconds: loopback latency allowance when comparing a deadline seen by the server
MARGIN = Fraction(1, 10)   # generated experiments stay this far away from every threshold of the loop

# ------------------------------------------------------------------ generator


def gen_policy(r, thorough=False):
    p = {}
    if r.maybe(0.7):
        p["maxAttempts"] = r.randint(2, 6)
    if not r.maybe(0.06):
        p["initialBackoff"] = r.pick(BACKOFFS) if not r.maybe(0.05) else r.pick(["250000000n", "100000000n"])
        if r.maybe(0.12):
            p["initialBackoff"] = r.pick(EDGE_BACKOFFS)
    if not r.maybe(0.06):
        p["maxBackoff"] = r.pick(MAXES) if not r.maybe(0.12) else r.pick(EDGE_BACKOFFS)      # also: maximum below initial, "0s"
    if not r.maybe(0.06):
        p["backoffMultiplier"] = r.pick(MULTS) if not r.maybe(0.06) else 0.5
        if r.maybe(0.12):
            p["backoffMultiplier"] = r.pick(EDGE_MULTS)
    k = r.pick([1, 1, 2, 2, 3, 4, 6]) if not thorough else r.pick([1, 2, 3, 4, 6, 9, 16])
    codes = []
    for _ in range(k):
        c = r.pick(ERR_CODES)
        if c not in codes or r.maybe(0.1):      # an occasional duplicate: the frozenset must absorb it
            codes.append(c)
    if not r.maybe(0.04):
        p["retryableStatusCodes"] = codes
    return p


def gen_spec(r, idx, thorough=False):
    pkg = r.pick(PKGS)
    nsvc = r.pick([1, 2, 2, 3])
    svcs = []
    for sname in SERVICES[:nsvc]:
        ms = []
        for m in r.sample(METHODS, r.randint(3, 5)):
            kind = "sstream" if m == "StreamBooks" or r.maybe(0.12) else ("paged" if m == "ListBooks" and r.maybe(0.6) else "unary")
            if kind == "unary" and r.maybe(0.28):
                kind = r.pick(["lro", "lro", "cstream", "cstream", "bidi"])   # cstream / bidi: table entry, and CALLED (sync: retried like any other; asyncio: see check_calls)
            ms.append({"name": m, "kind": kind})
        sv = {"name": sname, "methods": ms}
        if r.maybe(0.22):
            sv["sub"] = r.pick(["admin", "admin", "beta.deep", "v1"])     # declared in a file of a sub-package of the API
        svcs.append(sv)
    if all(s.get("sub") for s in svcs) and r.maybe(0.5):
        del svcs[0]["sub"]
    pspec = {"package": pkg}
    pairs = [(svc_full(pspec, s), m["name"]) for s in svcs for m in s["methods"]]
    root_spelt = [(f"{pkg}.{s['name']}", m["name"]) for s in svcs if s.get("sub") for m in s["methods"]]
    mixins = [a for a in MIXIN_RPCS if r.maybe(0.18)]
    mixin_pairs = [(a, MIXIN_RPCS[a][0]) for a in mixins]
    entries = []
    for _ in range(r.randint(1, 4)):
        names = []
        for _ in range(r.pick([1, 1, 2, 3, 4])):
            roll = r.random()
            sv, me = r.pick(pairs)
            if mixin_pairs and r.maybe(0.15):
                sv, me = r.pick(mixin_pairs)                                    # a mixin RPC named in the service config
                names.append({"service": sv, "method": me})
            elif root_spelt and r.maybe(0.2):
                sv, me = r.pick(root_spelt)      # a sub-package service spelt under the API's root package: names no method
                names.append({"service": sv, "method": me})
            elif roll < 0.60:
                names.append({"service": sv, "method": me})
            elif roll < 0.62:
                names.append({})                                                # the catch-all default name: names no method
            elif roll < 0.72:
                names.append({"service": sv})                                   # service-wide: names no method
            elif roll < 0.80:
                names.append({"service": sv, "method": "Nope" + me})             # no such method
            elif roll < 0.88:
                names.append({"service": f"{pkg}.{r.pick(SERVICES)}", "method": me})   # same method name, maybe another service
            elif roll < 0.93:
                names.append({"method": me})                                    # no service key
            else:
                names.append({"service": sv.replace(pkg, pkg + "x"), "method": me})    # another package
        e = {"name": names}
        if r.maybe(0.72):
            e["timeout"] = r.pick(TIMEOUTS) if not r.maybe(0.1) else r.pick(EDGE_TIMEOUTS)
        if r.maybe(0.72):
            e["retryPolicy"] = gen_policy(r, thorough)
        entries.append(e)
    transport = r.pick(["grpc", "grpc", "grpc+rest"])
    spec = {"package": pkg, "services": svcs, "config": {"methodConfig": entries}, "transport": transport,
            "split_files": nsvc > 1 and r.maybe(0.4), "mixins": mixins, "rest_async": "rest" in transport and r.maybe(0.5)}
    if r.maybe(0.2):
        # an EARLIER retry-config option: only the last file counts (Options.build)
        spec["decoy"] = {"methodConfig": [{"name": [{"service": sv, "method": me} for sv, me in pairs], "timeout": "99s",
                                           "retryPolicy": {"initialBackoff": "9s", "maxBackoff": "9s", "backoffMultiplier": 9, "retryableStatusCodes": ["DATA_LOSS"]}}]}
    return spec


def svc_pkg(spec, s):
    """proto package of the file that declares the service: the API's package, or a sub-package of it"""
    return spec["package"] + ("." + s["sub"] if s.get("sub") else "")


def svc_full(spec, s):
    """the service's proto full name — what a gRPC service config calls it"""
    return f"{svc_pkg(spec, s)}.{s['name']}"


def svc_model(spec, s):
    """the same for the model: the INPUTS of `selectorService` (declaring file's package, service name)"""
    return {"package": svc_pkg(spec, s).split("."), "name": s["name"]}


def build_files(spec):
    pkg = spec["package"]
    base = pkg.replace(".", "/")
    f = apigen.File(base + "/lib.proto", pkg)
    book = f.msg("Book"); book.field("name"); book.field("pages", "int32")
    meta = f.msg("Meta"); meta.field("pct", "int32")
    rq = f.msg("BookRequest"); rq.field("name")
    lrq = f.msg("ListRequest"); lrq.field("parent"); lrq.field("page_size", "int32"); lrq.field("page_token")
    lrs = f.msg("ListResponse"); lrs.field("books", "message", repeated=True, type_name=book); lrs.field("next_page_token")
    files = [f]
    for k, s in enumerate(spec["services"]):
        tgt = f
        if s.get("sub"):                                # a service of a proto SUB-PACKAGE of the API (its own file and directory)
            tgt = apigen.File(f"{base}/{s['sub'].replace('.', '/')}/svc{k + 1}.proto", f"{pkg}.{s['sub']}").dep(base + "/lib.proto")
            files.append(tgt)
        elif spec.get("split_files") and k > 0:          # later services live in their own proto file of the same package
            tgt = apigen.File(f"{base}/lib{k + 1}.proto", pkg).dep(base + "/lib.proto")
            files.append(tgt)
        svc = tgt.service(s["name"])
        for m in s["methods"]:
            kind = m["kind"]
            # REST: unary and paged RPCs get an http rule (POST, whole request as body), so that they can be CALLED over REST
            http = dict(http=("post", rest_uri(s, m)), body="*") if "rest" in spec.get("transport", "") and kind in ("unary", "paged") else {}
            if kind == "paged":
                svc.method(m["name"], f".{pkg}.ListRequest", f".{pkg}.ListResponse", **http)
            elif kind == "lro":
                svc.method(m["name"], f".{pkg}.BookRequest", ".google.longrunning.Operation", lro=(f"{pkg}.Book", f"{pkg}.Meta") if s.get("sub") else ("Book", "Meta"))   # (other package: fully qualified, as google.longrunning requires)
            else:
                svc.method(m["name"], f".{pkg}.BookRequest", f".{pkg}.Book", ss=kind in ("sstream", "bidi"), cs=kind in ("cstream", "bidi"), **http)
    return files


def rest_uri(s, m):
    return f"/v1/{s['name'].lower()}/{m['name']}"


_FAITHFUL = []


def rest_faithful_codes():
    """status codes whose api-core class comes back UNCHANGED from an HTTP reply carrying the class's own HTTP status
    (api-core picks the class of an HTTP error by status alone; 400, 403, 409, 429, 500, 504 … are shared by several gRPC codes).
    Read off the installed api-core, not hard-coded."""
    if not _FAITHFUL:
        from google.api_core import exceptions
        for c in ERR_CODES:
            cls = api_core_class(c)
            if cls.code is not None and type(exceptions.from_http_status(int(cls.code), "x")) is cls:
                _FAITHFUL.append(c)
    return _FAITHFUL


def service_yaml(spec):
    """the service yaml an API with mixins / the experimental async REST transport needs (None when neither)"""
    if not spec.get("mixins") and not spec.get("rest_async"):
        return None
    pkg = spec["package"]
    y = {"type": "google.api.Service", "config_version": 3, "name": "lib.example.com",
         "apis": [{"name": svc_full(spec, s)} for s in spec["services"]] + [{"name": a} for a in spec.get("mixins", [])]}
    rules = [{"selector": f"{a}.{MIXIN_RPCS[a][0]}", MIXIN_RPCS[a][1]: MIXIN_RPCS[a][2]} for a in spec.get("mixins", [])]
    if rules:
        y["http"] = {"rules": rules}
    if spec.get("rest_async"):
        y["publishing"] = {"library_settings": [{"version": pkg, "python_settings": {"experimental_features": {"rest_async_io_enabled": True}}}]}
    return y

# ------------------------------------------------------------------ the statement, restated (oracle side)


def dur_fraction(s):
    """a service-config duration as an exact fraction (decimal seconds; the `n` spelling = integer nanoseconds)"""
    if s.endswith("n"):
        return Fraction(int(s[:-1]), 10 ** 9)
    return Fraction(Decimal(s[:-1]))


def num_fraction(x):
    return Fraction(Decimal(repr(x))) if isinstance(x, float) else Fraction(x)


def statement_entry(cfg, svc_full, meth):
    for e in cfg.get("methodConfig", []):
        if any(n == {"service": svc_full, "method": meth} for n in e["name"]):
            return e
    return None


def statement_defaults(cfg, svc_full, meth):
    """what the statement promises for a call made without explicit retry/timeout"""
    e = statement_entry(cfg, svc_full, meth)
    if e is None:
        return {"named": False, "timeout": None, "retry": None}
    t = dur_fraction(e["timeout"]) if e.get("timeout") else None
    out = {"named": True, "timeout": t, "retry": None}
    if "retryPolicy" in e:
        p = e["retryPolicy"]
        i = dur_fraction(p["initialBackoff"]) if "initialBackoff" in p else Fraction(0)
        m = dur_fraction(p["maxBackoff"]) if "maxBackoff" in p else Fraction(0)
        mu = num_fraction(p.get("backoffMultiplier", 0))
        # forced hypothesis (DESIGN §7.9): a value of 0 / absent is not emitted and api-core's default applies
        out["retry"] = {"initial": i or Fraction(1), "maximum": m or Fraction(60), "multiplier": mu or Fraction(2),
                        "codes": sorted(set(p.get("retryableStatusCodes", []))), "deadline": t,
                        "defaulted": [k for k, v in (("initial", i), ("maximum", m), ("multiplier", mu)) if not v]}
    return out


def closed_bound(rp, i):
    return min(rp["initial"] * rp["multiplier"] ** i, rp["maximum"])


def slack(i):
    """real time does pass between attempts (a few ms each on the loopback, more on a busy machine): thresholds and
    comparisons of the i-th attempt allow for it"""
    return MARGIN + Fraction(i, 40)


def frac(j):
    return None if j is None else Fraction(j[0], j[1])


def api_core_class(code):
    import grpc
    from google.api_core import exceptions
    return exceptions.exception_class_for_grpc_status(getattr(grpc.StatusCode, code))

# ------------------------------------------------------------------ T2 on the pure helpers


import re
DURATION_RE = re.compile(r"^(?:-?[0-9]+(?:\.[0-9]*)?s|-?\.[0-9]+s|-?[0-9]+n)$")     # decimal seconds (JSON Duration, optionally negative) / integer nanoseconds
DUR_SAMPLES = ["1.5s", "30s", "0.250s", "250000000n", "0.000000001s", "7.s", ".5s", "30m", "s", "", "-1s", "1n", "999999999n",
               "0s", "0.0s", "12.345s", "600s", "1x", "abc", "1.2.3s", "n", "1.5n", "3.14159s", "0.1s", "0.3s", "100s",
               # second deepening round: every instance of the Lean theorems `toFloat_samples` / `toFloat_exponent_samples` …
               "1.05s", "2.025s", "1.000000001s", "3n", "1e3s", "1.5E-3s", "-2.5e+1s", "+.5s", "-5n", "+7n", "1es", "e5s", ".e1s",
               "+-1s", "-s", "1e5e5s", "1e3n", "1_0s", " 1s", "infs",
               # … fractions with leading zeros, every canonical JSON width (0/3/6/9 digits), padded seconds, huge / tiny values
               "0.05s", "0.005s", "0.000005s", "1.050s", "1.005000s", "1.000005000s", "007s", "0007.0700s", "315576000000s",
               "315576000000.999999999s", "-315576000000.999999999s", "0.999999999s", "0.000000000s", "-0s", "-0.0s", "00n", "0n",
               "9007199254740993n", "18014398509481985n", "123456789012345678901234567890n", "1e22s", "1e23s", "1E-7s", "1e-400s",
               "1e400s", "-1e400s", "4.35s", "0.1e1s", "1.e2s", ".5e-1s",
               # … and literals the model leaves out on purpose (blanks, underscores, inf/nan, non-ASCII digits)
               "1_000s", "1 s", "\t2s", "2\ns", "nans", "nan", "-infs", "Infinitys", "1__0s", "_1s", "1_s", "\u0661\u0662s", "\uff11s",
               "\u0663n", "1_0n", " 5n", "5 n", "0x10s", "0x10n", "1e1_0s", "--1s", "++1s", "1.5.s", "..s", ".s", "+s", "es", "1ee1s"]


_TO_FLOAT_VIA_BUILD = [False]


def real_to_float(s):
    """the generator's reading of a duration literal.  Directly through `_ProtoBuilder._to_float` while that helper
    exists with this shape; otherwise (a refactoring moved or re-shaped it) through the public path: a one-method
    API whose service config carries the literal as `timeout`, read back from the real `Method.timeout`."""
    if not _TO_FLOAT_VIA_BUILD[0]:
        try:
            from gapic.schema import api as gapi
            return gapi._ProtoBuilder._to_float(None, s)
        except ValueError:
            return "ValueError"
        except OverflowError:
            return "OverflowError"
        except (AttributeError, TypeError):
            _TO_FLOAT_VIA_BUILD[0] = True
    if not s:
        return "ValueError"           # `if mc.get("timeout")`: an empty literal never reaches the conversion
    spec = {"package": "acme.lib.v1", "services": [{"name": "Library", "methods": [{"name": "GetBook", "kind": "unary"}]}]}
    fd, path = tempfile.mkstemp(prefix="gapicverif_c09_", suffix=".json", dir=genrun.SCRATCH)
    with os.fdopen(fd, "w") as fh:
        json.dump({"methodConfig": [{"name": [{"service": "acme.lib.v1.Library", "method": "GetBook"}], "timeout": s}]}, fh)
    try:
        api, _ = genrun.build_api(apigen.request(build_files(spec), f"transport=grpc,autogen-snippets=false,retry-config={path}"))
        return api.services["acme.lib.v1.Library"].methods["GetBook"].timeout
    except ValueError:
        return "ValueError"
    except OverflowError:
        return "OverflowError"
    finally:
        os.unlink(path)


def round_binary64(q):
    """the exact rational, correctly rounded to binary64 (what `float("…")` does); overflow gives ±inf"""
    try:
        return float(q)
    except OverflowError:
        return float("inf") if q > 0 else float("-inf")


def canonical_duration(r):
    """a duration the way protobuf's JSON printer writes it: seconds, then 0 / 3 / 6 / 9 fraction digits"""
    secs = r.pick([0, 0, 1, r.randrange(0, 100), r.randrange(0, 10 ** 6), 315576000000])
    width = r.pick([0, 3, 6, 9])
    frac_digits = "".join(r.choice("0000123456789") for _ in range(width))
    return ("-" if r.maybe(0.08) else "") + str(secs) + ("." + frac_digits if width else "") + "s", width


def check_helpers(ctx, r):
    samples = list(DUR_SAMPLES)
    for _ in range(ctx.n(60, 600)):
        ip = str(r.randrange(0, r.pick([10, 100, 100000])))
        fp = "".join(r.choice("0123456789") for _ in range(r.randint(0, 9)))
        s = ip + ("." + fp if fp or r.maybe(0.1) else "")
        if r.maybe(0.08):
            s = "." + (fp or "5")
        samples.append(s + r.pick(["s", "s", "s", "s", "m", "S"]) if not r.maybe(0.15) else str(r.randrange(0, 10 ** r.randint(1, 12))) + "n")
    for _ in range(ctx.n(80, 1500)):
        roll = r.random()
        if roll < 0.35:
            s, width = canonical_duration(r)
            ctx.count("t2_to_float_shape", f"canonical JSON, {width} fraction digits")
        elif roll < 0.5:       # fraction with leading zeros (what a digit-wise re-assembly loses), 1..12 digits
            z = r.randint(1, 8)
            s = str(r.randrange(0, 50)) + "." + "0" * z + "".join(r.choice("123456789") for _ in range(r.randint(1, 4))) + "s"
            ctx.count("t2_to_float_shape", "fraction with leading zeros")
        elif roll < 0.62:      # nanoseconds: small, around 2^53 (int -> float conversion stops being exact), huge; signed
            n = r.pick([r.randrange(0, 10 ** 9), r.randrange(10 ** 9, 10 ** 15), 2 ** 53 + r.randrange(0, 1000), r.randrange(2 ** 53, 2 ** 64),
                        r.randrange(10 ** 25, 10 ** 30)])
            s = r.pick(["", "", "", "-", "+"]) + "0" * r.pick([0, 0, 0, 2]) + str(n) + "n"
            ctx.count("t2_to_float_shape", "nanoseconds")
        elif roll < 0.8:       # sign / exponent forms of Python's float grammar
            mant = r.pick([str(r.randrange(0, 1000)), f"{r.randrange(0, 100)}.{r.randrange(0, 1000):03d}", f".{r.randrange(0, 100):02d}", f"{r.randrange(0, 9)}."])
            ex = r.pick(["", "", "e", "E"])
            s = r.pick(["", "", "-", "+"]) + mant + (ex + r.pick(["", "", "-", "+"]) + str(r.pick([0, 1, 2, 3, 9, 15, 22, 23, 30, 308, 309, 330])) if ex else "") + "s"
            ctx.count("t2_to_float_shape", "sign / exponent")
        else:                  # one mutation of a good literal: an inserted / replaced character
            base = r.pick(["1.5s", "30s", "0.25s", "250000000n", "12.345s", "1e3s"])
            k = r.randrange(0, len(base))
            ch = r.choice("_ +-.eEnsNS0x\t\u0661,;")
            s = base[:k] + ch + base[k + (1 if r.maybe(0.5) else 0):]
            ctx.count("t2_to_float_shape", "mutated literal")
        samples.append(s)
    res = ctx.driver.ask([{"op": "c09.to_float", "s": s} for s in samples])
    for s, mo in zip(samples, res):
        impl = real_to_float(s)
        ctx.case({"to_float": s}, distinct_key=["dur", s])
        ctx.traces += 1
        ctx.count("t2_to_float", "value" if mo["value"] is not None else "outside-model")
        if mo["value"] is None:
            if impl not in ("ValueError", "OverflowError"):
                ctx.count("t2_to_float_outside", "accepted by Python, left out of the model")
                ctx.assume("_to_float accepts literals outside the grammar of the model — blanks around the number, `_` between digits, inf/nan, "
                           "non-ASCII digits (e.g. '1_000s' -> 1000.0, '\\u0661\\u0662s' -> 12.0); service configs use decimal seconds")
            else:
                ctx.count("t2_to_float_outside", "rejected by both")
            continue
        q = frac(mo["value"])
        want = round_binary64(q)            # correctly rounded, like float("…")
        if s.endswith("n") and abs(q) * 10 ** 9 >= 2 ** 53:
            # `int(…) / 1e9`: the integer is rounded to binary64 BEFORE the division (two roundings; beyond float range: OverflowError)
            try:
                want = float(int(q * 10 ** 9)) / 1e9
            except OverflowError:
                want = "OverflowError"
            ctx.count("excluded_point", "nanosecond count of 2^53 or more (104 days): int -> float conversion rounds before the division")
            if want != round_binary64(q):
                ctx.assume("`n` durations of 2^53 ns (104 days) or more are converted with two roundings: int -> float, then / 1e9 "
                           "(e.g. '18014398509481985n'); the result can differ from the correctly rounded value in the last bit")
        if impl != want:
            ctx.disagree("T2:c09.to_float", f"{s!r}: model {q if abs(q) < 10 ** 40 else '…'} ({want!r}) vs impl {impl!r}", {"duration": s})
        if DURATION_RE.match(s) and not (s.endswith("n") and abs(q) * 10 ** 9 >= 2 ** 53):     # oracle: a well-formed duration literal denotes its decimal value
            if impl != round_binary64(dur_fraction(s)):
                ctx.fail("to-float-value", f"_to_float({s!r}) = {impl!r}, the literal denotes {dur_fraction(s)} s", {"duration": s})
    # exception table: all 17 codes, 17 x 17 isinstance
    tab = ctx.driver.ask([{"op": "c09.exc_table"}])[0]
    for code, name in tab["table"]:
        ctx.traces += 1
        ctx.case(None, distinct_key=["code", code])
        if api_core_class(code).__name__ != name:
            ctx.disagree("T2:c09.exc_table", f"{code}: model {name} vs api-core {api_core_class(code).__name__}", {"code": code})
    for a, b, inst in tab["isinstance"]:
        if issubclass(api_core_class(a), api_core_class(b)) != inst:
            ctx.disagree("T2:c09.isinstance", f"issubclass(class({a}), class({b})): model {inst}", {"codes": [a, b]})
    ctx.exhaustive = {"status_codes": len(tab["table"]), "isinstance_pairs": len(tab["isinstance"])}

# ------------------------------------------------------------------ experiments


def gen_calls(r, spec, ctx_n):
    """fault sequences per method, by the statement's reading of the config (quantifier: retryable^k, non-retryable, OK)"""
    cfg = spec["config"]
    plans = []
    for s in spec["services"]:
        sfull = svc_full(spec, s)
        for a in spec.get("mixins", []):          # mixin RPCs are called through every service's client
            rpcname = MIXIN_RPCS[a][0]
            named = statement_defaults(cfg, a, rpcname)["named"]
            for replies, ck in ((["OK"], {}), ([r.pick(ERR_CODES), "OK"], {}), ([r.pick(ERR_CODES), "OK"], {"timeout": 4.5})):
                plans.append({"service": s["name"], "svc_full": a, "method": rpcname, "kind": "mixin", "replies": replies,
                              "call_kwargs": ck, "mixin_named": named})
        for m in s["methods"]:
            st = statement_defaults(cfg, sfull, m["name"])
            seqs = []
            rp = st["retry"]
            codes = rp["codes"] if rp else []
            others = [c for c in ERR_CODES if c not in codes]
            if rp and codes:
                for _ in range(ctx_n):
                    k = r.pick([0, 1, 1, 2, 3, 4])
                    seqs.append(([r.pick(codes) for _ in range(k)] + ["OK"], {}))
                k = r.pick([0, 1, 2, 3])
                if others:
                    seqs.append(([r.pick(codes) for _ in range(k)] + [r.pick(others)], {}))
                seqs.append(([r.pick(codes) for _ in range(r.pick([14, 24]))] + ["OK"], {}))     # runs into the deadline if there is one
                seqs.append(([r.pick(codes), r.pick(codes), "OK"], {"timeout": r.pick([2.5, 40.0, 9.75])}))
                seqs.append(([r.pick(codes), "OK"], {"retry": "none"}))
                seqs.append(([r.pick(codes), "OK"], {"retry": "none", "timeout": "none"}))
                seqs.append(([r.pick(codes), r.pick(codes), "OK"], {"timeout": "none"}))      # no per-attempt deadline, the retry deadline stays
                if r.maybe(0.3):
                    seqs.append(([r.pick(codes), "OK"], {"timeout": r.pick([3, 12])}))         # an int, not a float
            else:
                seqs.append((["OK"], {}))
                seqs.append(([r.pick(ERR_CODES), "OK"], {}))
                seqs.append((["OK"], {"timeout": r.pick([2.5, 40.0])}))
            # an explicit retry object overrides predicate, back-off and overall deadline
            ex = r.pick(ERR_CODES)
            xr = {"exceptions": [api_core_class(ex).__name__], "initial": r.pick([0.5, 0.25]), "maximum": r.pick([0.5, 1.0]),
                  "multiplier": r.pick([1.0, 2.0]), "deadline": r.pick([1.25, 3.125, None])}
            seqs.append(([ex] * r.pick([1, 2, 6]) + [r.pick(["OK", r.pick([c for c in ERR_CODES if c != ex])])], {"retry": xr}))
            for replies, ck in seqs:
                plans.append({"service": s["name"], "svc_full": sfull, "svc_model": svc_model(spec, s), "method": m["name"],
                              "kind": m["kind"], "replies": replies, "call_kwargs": ck})
    return plans


def model_op(spec, plan, jitter=1):
    ck = plan["call_kwargs"]
    op = {"op": "c09.call", "configs": ([spec["decoy"]] if spec.get("decoy") else []) + [spec["config"]],
          "mixin": plan["kind"] == "mixin", "service": plan.get("svc_model", plan["svc_full"]), "method": plan["method"],
          "replies": plan["replies"] + ["OK"],       # the loopback server answers OK once its script is used up
          "jitter": [], "jitter_tail": jitter, "retry": "default", "timeout": "default"}
    if ck.get("retry") == "none":
        op["retry"] = None
    elif isinstance(ck.get("retry"), dict):
        x = ck["retry"]
        op["retry"] = {"initial": x["initial"], "maximum": x["maximum"], "multiplier": x["multiplier"],
                       "exceptions": x["exceptions"], "deadline": x["deadline"]}
    if ck.get("timeout") == "none":
        op["timeout"] = None
    elif "timeout" in ck:
        op["timeout"] = ck["timeout"]
    return op


def near_threshold(mo, retry_deadline, j=1):
    """would float rounding / loopback latency decide whether the overall deadline strikes? (generator-side tie
    avoidance in exact arithmetic: such experiments are not run)"""
    if retry_deadline is None:
        return False
    starts = [frac(a["start"]) for a in mo["attempts"]]
    bounds = [frac(b) for b in mo["bounds"]]
    return any(abs(st + Fraction(j) * bounds[i] - retry_deadline) < slack(i) for i, st in enumerate(starts) if i < len(bounds))


def run_api(ctx, r, spec, label, plans=None):
    files = build_files(spec)
    fd, cfgpath = tempfile.mkstemp(prefix="gapicverif_c09_", suffix=".json", dir=genrun.SCRATCH)
    with os.fdopen(fd, "w") as fh:
        json.dump(spec["config"], fh)
    root = None
    extra_paths = []
    try:
        params = f"transport={spec['transport']},autogen-snippets=false"
        if spec.get("decoy"):
            fd2, dpath = tempfile.mkstemp(prefix="gapicverif_c09_", suffix=".json", dir=genrun.SCRATCH)
            with os.fdopen(fd2, "w") as fh:
                json.dump(spec["decoy"], fh)
            extra_paths.append(dpath)
            params += f",retry-config={dpath}"
        params += f",retry-config={cfgpath}"
        yml = service_yaml(spec)
        if yml is not None:
            import yaml
            fd3, ypath = tempfile.mkstemp(prefix="gapicverif_c09_", suffix=".yaml", dir=genrun.SCRATCH)
            with os.fdopen(fd3, "w") as fh:
                yaml.safe_dump(yml, fh)
            extra_paths.append(ypath)
            params += f",service-yaml={ypath}"
        req = apigen.request(files, params)
        configs = ([spec["decoy"]] if spec.get("decoy") else []) + [spec["config"]]      # what Options.build is given, in order
        try:
            api, _ = genrun.build_api(req)
        except BaseException as e:  # noqa
            ctx.fail("generation-crash:" + genrun.crash_signature(e), f"API.build raised {type(e).__name__}: {str(e)[:200]}", {"spec": spec})
            return
        pkg = spec["package"]
        # ---------------- T2: Method.retry / Method.timeout vs model, and the statement on them
        ops, keys = [], []
        for s in spec["services"]:
            for m in s["methods"]:
                ops.append({"op": "c09.defaults", "configs": configs, "service": svc_model(spec, s), "method": m["name"]})
                keys.append((s["name"], m["name"]))
        model = dict(zip(keys, ctx.driver.ask(ops)))
        for (sn, mn), mo in model.items():
            sobj = next(x for x in spec["services"] if x["name"] == sn)
            meth = api.services[svc_full(spec, sobj)].methods[mn]
            payload = {"spec": spec, "service": sn, "method": mn}
            st = statement_defaults(spec["config"], svc_full(spec, sobj), mn)
            ctx.count("service_layout", "sub-package" if sobj.get("sub") else "api package")
            ctx.case({"service": sn, "method": mn, "named": st["named"], "retry": bool(st["retry"]), "timeout": str(st["timeout"])},
                     distinct_key=["defaults", json.dumps(spec["config"], sort_keys=True), pkg, sn, mn])
            ctx.count("method_class", ("named" if st["named"] else "unnamed") + ("+retry" if st["retry"] else "") + ("+timeout" if st["timeout"] is not None else ""))
            if "unsupported" in mo or "error" in mo:
                ctx.unsupported += 1
                continue
            ctx.traces += 1
            impl_t = meth.timeout
            if (impl_t is None) != (mo["timeout"] is None) or (impl_t is not None and impl_t != float(frac(mo["timeout"]))):
                ctx.disagree("T2:c09.timeout", f"{sn}.{mn}: model {frac(mo['timeout'])} vs impl {impl_t!r}", payload)
            ri = meth.retry
            if (ri is None) != (mo["retry"] is None):
                ctx.disagree("T2:c09.retry", f"{sn}.{mn}: model {mo['retry']} vs impl {ri}", payload)
            elif ri is not None:
                mr = mo["retry"]
                got = (ri.initial_backoff, ri.max_backoff, float(ri.backoff_multiplier), float(ri.max_attempts), sorted(x.__name__ for x in ri.retryable_exceptions))
                want = (float(frac(mr["initial_backoff"])), float(frac(mr["max_backoff"])), float(frac(mr["backoff_multiplier"])),
                        float(frac(mr["max_attempts"])), sorted(mr["exceptions"]))
                if got != want:
                    ctx.disagree("T2:c09.retry", f"{sn}.{mn}: model {want} vs impl {got}", payload)
            # statement on the schema object
            if (impl_t is None) != (st["timeout"] is None) or (impl_t is not None and impl_t != float(st["timeout"])):
                ctx.fail("schema-timeout", f"{sn}.{mn}: Method.timeout={impl_t!r}, the entry says {st['timeout']}", payload)
            if (ri is None) != (st["retry"] is None):
                ctx.fail("schema-retry-presence", f"{sn}.{mn}: Method.retry={ri}, the statement expects {'a' if st['retry'] else 'no'} default retry", payload)
        # ---------------- T3: generate
        res, err = genrun.try_generate(req)
        if err:
            ctx.fail("generation-crash:" + err[0], f"generator raised {err[0]}: {err[1]}", {"spec": spec})
            return
        root = genrun.materialise(res)
        import gapic.utils as gu
        sessions, meta = [], []
        mixin_rpcs = sorted(api.mixin_api_methods.keys())          # the real schema object's list
        tops = [{"op": "c09.table", "configs": configs, "service": svc_model(spec, s), "methods": [m["name"] for m in s["methods"]],
                 "mixins": mixin_rpcs} for s in spec["services"]]
        tables = {s["name"]: t for s, t in zip(spec["services"], ctx.driver.ask(tops))}
        for s in spec["services"]:
            svc = api.services[svc_full(spec, s)]
            loc = rpc.py_locations(api, svc)
            loc["rest_asyncio"] = f"{loc['service_module']}.transports.rest_asyncio:Async{svc.name}RestTransport"
            kinds = ["grpc", "grpc_asyncio"] + (["rest"] if "rest" in spec["transport"] else []) + \
                    (["rest_asyncio"] if "rest" in spec["transport"] and spec.get("rest_async") else [])
            keys = {m["name"]: gu.to_snake_case(svc.methods[m["name"]].transport_safe_name) for m in s["methods"]}   # real Method objects
            keys.update({x: gu.to_snake_case(x) for x in mixin_rpcs})
            for kind in kinds:
                sessions.append({"op": "c09_table", "transport": loc[kind], "kind": kind})
                meta.append(("table", s, kind, (keys, mixin_rpcs, tables[s["name"]])))
        codec = rpc.Codec(files)
        plans = plans if plans is not None else gen_calls(r, spec, ctx.n(2, 3))
        modes = (1.0, None) if ctx.quick else (1.0, None, 0.5)       # jitter pinned to 1 / random / pinned to 1/2
        mres_by = {1.0: ctx.driver.ask([model_op(spec, p) for p in plans])}
        mres_by[None] = mres_by[1.0]            # random jitter: the pinned-to-1 run gives the upper bounds
        if 0.5 in modes:
            mres_by[0.5] = ctx.driver.ask([model_op(spec, p, 0.5) for p in plans])
        for s in spec["services"]:
            svc = api.services[svc_full(spec, s)]
            loc = rpc.py_locations(api, svc)
            for asy in (False, True):
                for jitter in modes:
                    calls, kept = [], []
                    for p, mo in [(p, mo) for p, mo in zip(plans, mres_by[jitter]) if p["service"] == s["name"]]:
                        if "attempts" not in mo:
                            continue
                        if p["kind"] == "mixin" and p["method"] not in mixin_rpcs:
                            continue
                        ck = copy.deepcopy(p["call_kwargs"])
                        xr = ck.get("retry") if isinstance(ck.get("retry"), dict) else None
                        if xr is not None:
                            xr["async"] = asy
                        if ck.get("timeout") == "none":
                            ck["timeout"] = None
                        dl = None
                        if xr is not None:
                            dl = None if xr["deadline"] is None else Fraction(Decimal(repr(xr["deadline"])))
                        elif ck.get("retry") != "none":
                            st = statement_defaults(spec["config"], p["svc_full"], p["method"]) if p["kind"] != "mixin" else MIXIN_NONE
                            dl = st["retry"]["deadline"] if st["retry"] else None
                        if near_threshold(mo, dl, jitter or 1):
                            ctx.count("skipped", "near-deadline-threshold")
                            continue
                        if jitter is None and mo["result"] == "retry_error":
                            continue          # with random jitter the moment the deadline strikes is not determined
                        if p["kind"] == "mixin":
                            rpcname, _, _, pyreq, req_full, reqd = MIXIN_RPCS[p["svc_full"]]
                            path = f"/{p['svc_full']}/{rpcname}"
                            cname = gu.to_snake_case(rpcname)
                        else:
                            m = svc.methods[p["method"]]
                            path = f"/{svc_full(spec, s)}/{p['method']}"
                            req_full, pyreq = m.input.ident.proto, rpc.py_type(m.input)
                            reqd = {"parent": "x"} if p["kind"] == "paged" else {"name": "x"}
                            cname = gu.to_snake_case(m.client_method_name)
                        call = {"method": cname, "mode": "request-instance", "py_request": pyreq,
                                "request_b64": codec.encode_b64(req_full, reqd),
                                "consume": {"unary": "value", "sstream": "stream", "paged": "pager", "lro": "value", "mixin": "value",
                                            "cstream": "value", "bidi": "stream"}[p["kind"]],
                                "call_kwargs": ck, "script": {path: [{"code": c} for c in p["replies"]]}}
                        if p["kind"] in ("cstream", "bidi"):      # `requests=` iterator of two messages (a retried attempt re-reads the SAME iterator)
                            call["stream_requests"] = [codec.encode_b64(req_full, reqd), codec.encode_b64(req_full, {"name": "y"})]
                        calls.append(call)
                        kept.append((p, mo))
                    if not calls:
                        continue
                    sessions.append({"op": "grpc_session", "client": loc["async_client" if asy else "client"],
                                     "transport": loc["grpc_asyncio" if asy else "grpc"], "async": asy, "trap_sleep": True,
                                     "virtual_clock": True, "jitter": jitter, "record_timeouts": True, "calls": calls})
                    meta.append(("calls", s, asy, (jitter, kept)))
        # ---------------- the same calls through the emitted sync REST client (second deepening round): unary and paged RPCs,
        # fault sequences over the status codes that api-core maps back to the same class from the HTTP status alone
        if "rest" in spec["transport"]:
            from google.api_core import exceptions as _exc
            faithful = set(rest_faithful_codes())
            ctx.assume("REST calls: only fault sequences over status codes whose api-core class is recovered from the HTTP status alone ("
                       + ", ".join(sorted(faithful)) + "); api-core maps an HTTP error to a class by its status, so codes that share a status "
                       "(400, 403, 409, 429, 500, 504) are not told apart over REST — api-core's behaviour, not generator code")
            for s in spec["services"]:
                svc = api.services[svc_full(spec, s)]
                loc = rpc.py_locations(api, svc)
                for jitter in modes:
                    calls, kept = [], []
                    for p, mo in [(p, mo) for p, mo in zip(plans, mres_by[jitter]) if p["service"] == s["name"]]:
                        if "attempts" not in mo or p["kind"] not in ("unary", "paged") or not all(c == "OK" or c in faithful for c in p["replies"]):
                            continue
                        ck = copy.deepcopy(p["call_kwargs"])
                        xr = ck.get("retry") if isinstance(ck.get("retry"), dict) else None
                        if xr is not None:
                            xr["async"] = False
                        if ck.get("timeout") == "none":
                            ck["timeout"] = None
                        dl = None
                        if xr is not None:
                            dl = None if xr["deadline"] is None else Fraction(Decimal(repr(xr["deadline"])))
                        elif ck.get("retry") != "none":
                            st = statement_defaults(spec["config"], p["svc_full"], p["method"])
                            dl = st["retry"]["deadline"] if st["retry"] else None
                        if near_threshold(mo, dl, jitter or 1):
                            continue
                        if jitter is None and mo["result"] == "retry_error":
                            continue
                        m = svc.methods[p["method"]]
                        script = []
                        for c in p["replies"]:
                            if c == "OK":
                                script.append({"status": 200, "body": "{}"})
                            else:
                                h = int(api_core_class(c).code)
                                script.append({"status": h, "body": json.dumps({"error": {"code": h, "message": "scripted", "status": c}})})
                        calls.append({"method": gu.to_snake_case(m.client_method_name), "mode": "request-instance", "py_request": rpc.py_type(m.input),
                                      "request_b64": codec.encode_b64(m.input.ident.proto, {"parent": "x"} if p["kind"] == "paged" else {"name": "x"}),
                                      "consume": "pager" if p["kind"] == "paged" else "value", "call_kwargs": ck, "script": script})
                        kept.append((p, mo))
                    if calls:
                        sessions.append({"op": "c09_rest_session", "client": loc["client"], "transport": loc["rest"], "jitter": jitter, "calls": calls})
                        meta.append(("rest-calls", s, False, (jitter, kept)))
        out = libhost.run(root, sessions, timeout=900)
        for (what, s, a, extra), sess in zip(meta, out):
            if what == "table":
                check_table(ctx, spec, s, a, sess, extra)
            else:
                check_calls(ctx, spec, s, a, extra[0], extra[1], sess, rest=(what == "rest-calls"))
    finally:
        for pth in [cfgpath] + extra_paths:
            try:
                os.unlink(pth)
            except OSError:
                pass
        if root:
            genrun.cleanup(root)


MIXIN_NONE = {"named": False, "timeout": None, "retry": None}


def check_table(ctx, spec, s, kind, sess, extra):
    keys, mixin_rpcs, mtab = extra
    pkg = spec["package"]
    if "wrapped" not in sess:
        ctx.fail("session-failed", f"introspection of the {kind} transport failed: {str(sess)[-400:]}", {"spec": spec})
        return
    tab = sess["wrapped"]
    if sess.get("unmatched"):
        ctx.fail("table-entry-unreachable", f"{s['name']} ({kind}): {sess['unmatched']} entries of _wrapped_methods are not keyed by a transport property", {"spec": spec})
    model = {n: e for n, e in mtab["table"]} if "table" in mtab else {}
    if "table" in mtab and sess.get("entries") != len(mtab["table"]):
        ctx.disagree("T3:c09.table.size", f"{s['name']} ({kind}): model {len(mtab['table'])} entries vs impl {sess.get('entries')}", {"spec": spec, "transport": kind})
    rows = [(m["name"], m["kind"], False) for m in s["methods"]] + [(x, "mixin", True) for x in mixin_rpcs]
    for name, mkind, is_mixin in rows:
        payload = {"spec": spec, "service": s["name"], "method": name, "transport": kind}
        key = keys[name]
        ent = tab.get(key)
        ctx.case(None, distinct_key=["table", json.dumps(spec["config"], sort_keys=True), pkg, s["name"], name, kind])
        ctx.count("table_transport", kind)
        ctx.count("table_method_kind", mkind)
        if ent is None:
            ctx.fail("table-entry-missing", f"{s['name']}.{name} ({kind}): no _wrapped_methods entry under transport.{key}", payload)
            continue
        if is_mixin:
            api_name = next(a for a in spec.get("mixins", []) if MIXIN_RPCS[a][0] == name)
            if statement_defaults(spec["config"], api_name, name)["named"]:
                ctx.count("excluded_point", "mixin RPC named in the service config")
                ctx.assume("the methods of the statement are the RPCs of the API's own services: a MIXIN RPC (google.longrunning.Operations/…, "
                           "google.cloud.location.Locations/…) gets the literal default_timeout=None and no default retry even when the service config names it")
            st = MIXIN_NONE
        else:
            st = statement_defaults(spec["config"], svc_full(spec, s), name)
        # ---- oracle: the emitted defaults ARE the entry's values
        t = ent["timeout"]
        if (t is None) != (st["timeout"] is None) or (t is not None and t != float(st["timeout"])):
            ctx.fail("emitted-default-timeout", f"{s['name']}.{name} ({kind}): default_timeout={t!r}, the entry says {st['timeout']}", payload)
        er = ent["retry"]
        if (er is None) != (st["retry"] is None):
            ctx.fail("emitted-retry-presence", f"{s['name']}.{name} ({kind}): default_retry {'present' if er else 'absent'}, statement expects {'one' if st['retry'] else 'none'}", payload)
        elif er is not None:
            rp = st["retry"]
            want_cls = sorted(api_core_class(c).__name__ for c in rp["codes"])
            # (`want_cls` contains the base class GoogleAPICallError exactly when `OK` is listed: that is what api-core's table gives)
            if sorted(er["exceptions"] or []) != want_cls:
                ctx.fail("emitted-retry-codes", f"{s['name']}.{name} ({kind}): predicate {er['exceptions']} for codes {rp['codes']}", payload)
            elif "OK" in rp["codes"] and "GoogleAPICallError" in (er["exceptions"] or []):
                # known finding, keyed by its trigger (the ENTRY lists `OK`) and its symptom (the predicate is exactly the classes of the
                # listed codes, the base class among them); any other deviation of the predicate is `emitted-retry-codes` above
                ctx.fail("ok-code-retries-every-error", f"{s['name']}.{name} ({kind}): `OK` in retryableStatusCodes puts the base class GoogleAPICallError into the predicate: every error is retried", payload)
            for k in ("initial", "maximum", "multiplier"):
                if er[k] != float(rp[k]):
                    ctx.fail("emitted-backoff-" + k, f"{s['name']}.{name} ({kind}): Retry.{k}={er[k]!r}, the entry says {rp[k]}", payload)
            if rp["defaulted"]:
                ctx.assume("initialBackoff/maxBackoff/backoffMultiplier absent or 0 are not emitted; api-core's defaults 1 s / 60 s / x2 apply (DESIGN §7.9 forced hypothesis)")
            d = er["deadline"]
            if (d is None) != (rp["deadline"] is None) or (d is not None and d != float(rp["deadline"])):
                ctx.fail("emitted-retry-deadline", f"{s['name']}.{name} ({kind}): Retry deadline={d!r}, the entry's timeout is {rp['deadline']}", payload)
            want_type = "AsyncRetry" if kind in ("grpc_asyncio", "rest_asyncio") else "Retry"
            if er.get("pytype") != want_type:
                ctx.fail("emitted-retry-type", f"{s['name']}.{name} ({kind}): default retry is a {er.get('pytype')}", payload)
        # ---- correspondence with the model (c09.table: the whole table of the service)
        em = model.get(name)
        if em is None:
            if "table" in mtab:
                ctx.disagree("T3:c09.table.entry", f"{s['name']}.{name} ({kind}): the model's table has no such entry", payload)
            else:
                ctx.unsupported += 1
            continue
        ctx.traces += 1
        mt = None if em["timeout"] is None else float(frac(em["timeout"]))
        if mt != t:
            ctx.disagree("T3:c09.table.timeout", f"{s['name']}.{name} ({kind}): model {mt} vs impl {t}", payload)
        if (em["effective"] is None) != (er is None):
            ctx.disagree("T3:c09.table.retry", f"{s['name']}.{name} ({kind}): model {em['effective']} vs impl {er}", payload)
        elif er is not None:
            ef = em["effective"]
            want = (float(frac(ef["initial"])), float(frac(ef["maximum"])), float(frac(ef["multiplier"])),
                    None if ef["deadline"] is None else float(frac(ef["deadline"])), sorted(ef["predicate"]))
            got = (er["initial"], er["maximum"], er["multiplier"], er["deadline"], sorted(er["exceptions"] or []))
            if want != got:
                ctx.disagree("T3:c09.table.retry", f"{s['name']}.{name} ({kind}): model {want} vs impl {got}", payload)


def check_calls(ctx, spec, s, asy, jitter, kept, sess, rest=False):
    """`rest`: the calls went through the sync REST client (HTTP loopback: no deadline is visible at the server; the
    `timeout=` of each HTTP request is recorded at the client's session)"""
    pkg = spec["package"]
    if "calls" not in sess:
        ctx.fail("session-failed", f"T3 session failed ({'rest' if rest else 'async' if asy else 'sync'}): {str(sess)[-400:]}", {"spec": spec})
        return
    for (p, mo), res in zip(kept, sess["calls"]):
        ck = p["call_kwargs"]
        payload = {"spec": spec, "plan": p, "async": asy, "jitter": jitter, "rest": rest}
        ctx.case({"method": p["method"], "replies": p["replies"][:6], "call_kwargs": ck, "async": asy, "jitter": jitter, "rest": rest},
                 distinct_key=["call", json.dumps(spec["config"], sort_keys=True), p["svc_full"], p["method"], json.dumps(p["replies"]), json.dumps(ck, sort_keys=True), asy, jitter, rest])
        ctx.count("call_transport", "rest" if rest else ("grpc_asyncio" if asy else "grpc"))
        ctx.count("fault_sequence", f"{min(len(p['replies']) - 1, 9)}err+{p['replies'][-1] if p['replies'][-1] == 'OK' else 'ERR'}")
        ctx.count("call_kind", ("explicit:" + "+".join(sorted(ck))) if ck else "defaults")
        ctx.count("call_method_kind", p["kind"])
        for c in p["replies"]:
            ctx.count("status_code_served", c)
        ctx.count("model_result", mo["result"])
        ctx.count("model_attempts", min(len(mo["attempts"]), 10))
        if rest:
            ctx.count("rest_attempts_observed", min(len([x for x in res["server"] if x["path"].endswith("/" + p["method"])]), 10))
            ctx.count("rest_outcome", res.get("raised") or "ok")
        if any(frac(a["start"]) > 0 and a["timeout"] is not None and a["timeout"] == mo["attempts"][0]["timeout"] for a in mo["attempts"][1:]):
            ctx.count("model_branch", "remaining<1: whole timeout again")
        srv = [x for x in res["server"] if x["path"].endswith("/" + p["method"])]
        n = len(srv)
        sleeps = res.get("sleeps", [])
        raised = res.get("raised")
        wall = res.get("wall_s", 0.0)
        # thresholds of the loop (exact, from the model): if the real time this call took is not clearly smaller than the
        # distance to the nearest one, latency — not the code under test — decides the outcome: inconclusive, not compared
        gaps = []
        m_dl = None
        if isinstance(ck.get("retry"), dict):
            m_dl = None if ck["retry"]["deadline"] is None else num_fraction(ck["retry"]["deadline"])
        elif ck.get("retry") != "none":
            st0 = statement_defaults(spec["config"], p["svc_full"], p["method"]) if p["kind"] != "mixin" else MIXIN_NONE
            m_dl = st0["retry"]["deadline"] if st0["retry"] else None
        m_bounds = [frac(b) for b in mo["bounds"]]
        for i, a in enumerate(mo["attempts"]):
            if m_dl is not None and i < len(m_bounds):
                gaps.append(abs(frac(a["start"]) + Fraction(jitter or 1) * m_bounds[i] - m_dl))
            if a["timeout"] is not None and jitter is not None and frac(a["start"]) > Fraction(1, 20):
                # `remaining < 1 → the whole timeout again`: a jump of size `start` in the deadline the attempt carries
                T0 = frac(mo["attempts"][0]["timeout"])
                gaps.append(abs(T0 - frac(a["start"]) - 1))
        if gaps and wall + 0.02 >= float(min(gaps)):
            ctx.count("skipped", "inconclusive: the real time the call took reaches the nearest threshold of the loop")
            continue
        lag = Fraction(1, 20) + Fraction(wall)
        if asy and p["kind"] in ("cstream", "bidi") and n == 1 and p["replies"][0] != "OK" and raised == api_core_class(p["replies"][0]).__name__ \
                and (len(mo["attempts"]) > 1 or mo["raised"] != raised):
            # the same mechanism, deterministic here: the status of a stream-unary / stream-stream aio call is delivered when the
            # call object is awaited / iterated — after `wait_for_connection()`, outside api-core's retry wrapper
            ctx.count("skipped", "asyncio client-streaming/bidi: error delivered after wait_for_connection (api-core, not generator code)")
            ctx.assume("asyncio client-streaming / bidi methods: api-core's grpc_helpers_async retries only errors raised by wait_for_connection(); the status of "
                       "such a call arrives when the returned call object is awaited / iterated and surfaces without retry (the table entry carries the "
                       "default retry all the same: checked by introspection; sync client-streaming / bidi calls ARE retried and are checked on the wire)")
            continue
        if asy and p["kind"] == "sstream" and n == 1 and p["replies"][0] != "OK" and raised == api_core_class(p["replies"][0]).__name__ and len(mo["attempts"]) > 1:
            # api-core's asyncio stream wrapper only retries what `wait_for_connection()` raises; on the loopback the status
            # of an immediately failing stream occasionally arrives after it — the error then surfaces on iteration
            ctx.count("skipped", "asyncio server-streaming: error delivered after wait_for_connection (api-core/grpc.aio race)")
            ctx.assume("asyncio server-streaming methods: api-core retries only errors raised by wait_for_connection(); an error delivered later surfaces without retry (observed rarely on the loopback; not generator code)")
            continue
        trs = [None if (x["time_remaining"] is None or x["time_remaining"] > 1e15) else x["time_remaining"] for x in srv]   # grpc reports "no deadline" as ~2^63
        cts = [t for pth, t in res.get("timeouts", []) if pth.endswith("/" + p["method"])]     # timeout= of each stub invocation (client side)
        tag = f"{p['service']}.{p['method']} ({'rest' if rest else 'async' if asy else 'sync'}, jitter={jitter}) replies={p['replies'][:5]}{'…' if len(p['replies']) > 5 else ''} kwargs={ck}"
        # ---------------- oracle (statement, independent of the model)
        st = statement_defaults(spec["config"], p["svc_full"], p["method"]) if p["kind"] != "mixin" else MIXIN_NONE   # (assumption recorded by check_table)
        if isinstance(ck.get("retry"), dict):
            x = ck["retry"]
            rp = {"initial": num_fraction(x["initial"]), "maximum": num_fraction(x["maximum"]), "multiplier": num_fraction(x["multiplier"]),
                  "classes": set(x["exceptions"]), "deadline": None if x["deadline"] is None else num_fraction(x["deadline"])}
        elif ck.get("retry") == "none" or st["retry"] is None:
            rp = None
        else:
            rp = dict(st["retry"]); rp["classes"] = {api_core_class(c).__name__ for c in rp["codes"]}
        if "timeout" in ck:
            T = None if ck["timeout"] == "none" else num_fraction(ck["timeout"])
        else:
            T = st["timeout"]
        # known finding `ok-code-retries-every-error` — trigger, decided from the INPUT: the entry's default retry applies to this call
        # (no explicit retry= / retry=None) and the entry lists `OK` among its retryableStatusCodes
        ok_listed = not isinstance(ck.get("retry"), dict) and ck.get("retry") != "none" and bool(st["retry"]) and "OK" in st["retry"]["codes"]
        # how many attempts does the statement allow: up to and including the first reply that is OK or not retryable
        k = 0
        for c in p["replies"]:
            k += 1
            if c == "OK" or rp is None or api_core_class(c).__name__ not in rp["classes"]:
                break
        last = p["replies"][k - 1]
        key_prefix = "explicit-" if ck else ""
        # … and its symptom: an UNLISTED error was served and was retried, the call going on exactly as if every error were retryable —
        # up to the first OK reply, or until the overall deadline ends it with RetryError.  Anything else (fewer attempts, a wrong
        # surfaced error, more attempts than that) gets the ordinary keys below and is a violation.
        k_all = (p["replies"].index("OK") if "OK" in p["replies"] else len(p["replies"])) + 1     # (the server answers OK once its script is used up)
        if ok_listed and last != "OK" and n > k and ((n == k_all and raised is None) or
                                                       (n < k_all and raised == "RetryError" and rp["deadline"] is not None)):
            ctx.fail("ok-code-retries-every-error", f"{tag}: {n} attempts (raised={raised}); `OK` is listed, so the unlisted error {last} is retried", payload)
        elif n != k:
            if raised == "RetryError" and rp is not None and rp["deadline"] is not None and n < k:
                # the overall deadline: stopping early is right iff the next back-off would cross it
                spent = sum(Fraction(x) for x in sleeps)
                nxt = closed_bound(rp, n - 1)
                if jitter is not None and not (spent <= rp["deadline"] + lag and spent + nxt * Fraction(jitter) >= rp["deadline"] - lag):
                    ctx.fail(key_prefix + "retry-deadline", f"{tag}: gave up after {n} attempts with {float(spent)} s slept, next back-off ≤ {float(nxt)}, deadline {rp['deadline']}", payload)
            else:
                ctx.fail(key_prefix + ("single-attempt" if k == 1 else "attempt-count"), f"{tag}: {n} attempts, the statement says {k} (raised={raised})", payload)
        else:
            want_raised = None if last == "OK" else api_core_class(last).__name__
            if raised != want_raised:
                ctx.fail(key_prefix + "surfaced-error", f"{tag}: surfaced {raised}, expected {want_raised}", payload)
        if len(sleeps) != max(n - 1, 0):
            ctx.fail(key_prefix + "wait-count", f"{tag}: {len(sleeps)} waits for {n} attempts", payload)
        if rp is not None:
            for i, w in enumerate(sleeps):
                b = closed_bound(rp, i)
                if Fraction(w) > b * (1 + Fraction(1, 10 ** 9)) or w < 0:
                    ctx.fail(key_prefix + "wait-bound", f"{tag}: wait {i} = {w} s exceeds min(initial*mult^{i}, maximum) = {float(b)}", payload)
            if rp["deadline"] is not None and sum(Fraction(x) for x in sleeps) > rp["deadline"] + lag:
                ctx.fail(key_prefix + "retry-deadline", f"{tag}: slept {sum(sleeps)} s in total, overall deadline {rp['deadline']}", payload)
        if len(cts) != n:
            ctx.fail("session-failed", f"{tag}: {len(cts)} stub invocations recorded for {n} server calls", payload)
        for i, tr in enumerate(trs):
            ct = cts[i] if i < len(cts) else None
            if T is None:
                if tr is not None or ct is not None:
                    ctx.fail(key_prefix + "unexpected-deadline", f"{tag}: attempt {i} carries a deadline (client {ct}, server {tr}) but no timeout applies", payload)
            elif rest:
                # HTTP: the deadline is the `timeout=` of the request (nothing travels to the server)
                if ct is None or not (0 < ct <= float(T) + 1e-6) or (i == 0 and abs(ct - float(T)) > 0.05):
                    ctx.fail(key_prefix + "call-deadline", f"{tag}: attempt {i} request timeout {ct}, timeout is {T}", payload)
            else:
                # the server sees the deadline through grpc's coarse `grpc-timeout` encoding (rounded up); the client-side value is exact
                if tr is None or ct is None:
                    ctx.fail(key_prefix + "call-deadline", f"{tag}: attempt {i} carries no deadline (client {ct}, server {tr}), timeout is {T}", payload)
                elif not (0 < tr <= float(T) * 1.05 + 1.1) or not (0 < ct <= float(T) + 1e-6) or (i == 0 and (abs(ct - float(T)) > 0.05 or tr < min(float(T), GRPC_WIRE_TIMEOUT_CAP) - TOL)):
                    ctx.fail(key_prefix + "call-deadline", f"{tag}: attempt {i} deadline client {ct} / server {tr:.3f} s, timeout is {T}", payload)
        # ---------------- correspondence with the model
        ctx.traces += 1
        m_n = len(mo["attempts"])
        if m_n != n or mo["raised"] != raised:
            ctx.disagree("T3:c09.call.outcome", f"{tag}: model {m_n} attempts / {mo['raised']} vs impl {n} / {raised}", payload)
            continue
        mw = [frac(w) for w in mo["waits"]]
        if len(mw) != len(sleeps):
            ctx.disagree("T3:c09.call.waits", f"{tag}: model {len(mw)} waits vs impl {len(sleeps)}", payload)
        else:
            for i, (a, b) in enumerate(zip(mw, sleeps)):
                if (jitter is not None and abs(float(a) - b) > 1e-9 * max(1.0, b)) or (jitter is None and Fraction(b) > a * (1 + Fraction(1, 10 ** 9))):
                    ctx.disagree("T3:c09.call.waits", f"{tag}: wait {i}: model {'=' if jitter else '≤'} {float(a)} vs impl {b}", payload)
        if jitter is not None:
            for i, (a, ct) in enumerate(zip(mo["attempts"], cts)):
                mt = frac(a["timeout"])
                if (mt is None) != (ct is None) or (mt is not None and abs(float(mt) - ct) > float(lag)):
                    ctx.disagree("T3:c09.call.deadline", f"{tag}: attempt {i}: model deadline {None if mt is None else float(mt)} vs impl {ct}", payload)


# ------------------------------------------------------------------ corpus / excluded points


def corpus_specs():
    d = os.path.join(os.path.dirname(os.path.dirname(os.path.dirname(os.path.abspath(__file__)))), "corpus", "C09")
    out = []
    if os.path.isdir(d):
        for fn in sorted(os.listdir(d)):
            if fn.endswith(".json"):
                with open(os.path.join(d, fn)) as fh:
                    out.append((fn, json.load(fh)))
    return out


def all_codes_spec():
    """every canonical error status, listed and not listed, on one API (exhaustive over the finite code space)"""
    half = ERR_CODES[::2]
    other = ERR_CODES[1::2]
    return {"package": "acme.lib.v1", "transport": "grpc+rest",
            "services": [{"name": "Library", "methods": [{"name": "GetBook", "kind": "unary"}, {"name": "MoveBook", "kind": "unary"},
                                                          {"name": "StreamBooks", "kind": "sstream"}, {"name": "Ping", "kind": "unary"},
                                                          {"name": "UploadBooks", "kind": "cstream"}]}],
            "config": {"methodConfig": [
                {"name": [{"service": "acme.lib.v1.Library", "method": "GetBook"}], "timeout": "30s",
                 "retryPolicy": {"maxAttempts": 3, "initialBackoff": "0.1s", "maxBackoff": "1s", "backoffMultiplier": 1.3, "retryableStatusCodes": half}},
                {"name": [{"service": "acme.lib.v1.Library", "method": "MoveBook"}, {"service": "acme.lib.v1.Library", "method": "StreamBooks"},
                          {"service": "acme.lib.v1.Library", "method": "UploadBooks"}], "timeout": "20.5s",
                 "retryPolicy": {"initialBackoff": "0.25s", "maxBackoff": "2s", "backoffMultiplier": 2, "retryableStatusCodes": other}}]}}


def all_codes_plans(spec):
    plans = []
    for meth, kind in (("GetBook", "unary"), ("MoveBook", "unary"), ("StreamBooks", "sstream"), ("Ping", "unary"), ("UploadBooks", "cstream")):
        for c in ERR_CODES:
            plans.append({"service": "Library", "svc_full": "acme.lib.v1.Library", "method": meth, "kind": kind,
                          "replies": [c, "OK"], "call_kwargs": {}})
    return plans


def probe_excluded(ctx):
    """excluded-point stream: points the hypotheses exclude, run on the real generator; informational (assumptions)"""
    base = all_codes_spec()
    probes = {
        "methodConfig entry without `name`": {"methodConfig": [{"timeout": "5s"}]},
        "timeout \"0s\"": {"methodConfig": [{"name": [{"service": "acme.lib.v1.Library", "method": "GetBook"}], "timeout": "0s"}]},
        "status code given as a number (14)": {"methodConfig": [{"name": [{"service": "acme.lib.v1.Library", "method": "GetBook"}],
                                                                  "retryPolicy": {"retryableStatusCodes": [14]}}]},
        "lower-case status code name": {"methodConfig": [{"name": [{"service": "acme.lib.v1.Library", "method": "GetBook"}],
                                                           "retryPolicy": {"retryableStatusCodes": ["unavailable"]}}]},
    }
    for what, cfg in probes.items():
        fd, path = tempfile.mkstemp(prefix="gapicverif_c09_", suffix=".json", dir=genrun.SCRATCH)
        with os.fdopen(fd, "w") as fh:
            json.dump(cfg, fh)
        try:
            req = apigen.request(build_files(base), f"transport=grpc,autogen-snippets=false,retry-config={path}")
            try:
                api, _ = genrun.build_api(req)
                m = api.services["acme.lib.v1.Library"].methods["GetBook"]
                obs = f"accepted: retry={m.retry}, timeout={m.timeout!r}"
            except BaseException as e:  # noqa
                obs = f"generator raises {type(e).__name__}: {str(e)[:80]}"
        finally:
            os.unlink(path)
        ctx.count("excluded_point", what)
        ctx.assume(f"excluded point (outside the quantifier) — {what}: {obs}")


def run(ctx):
    ctx.rule = ("service configs (1..4 entries; names: exact, service-wide, catch-all {}, other service/package, unknown method, missing key, "
                "mixin RPC; timeout with/without retryPolicy; fractional, `n`, zero, tiny and huge durations; absent/zero back-off fields; multiplier "
                "edge values; 1..16 status codes; optionally an earlier retry-config file) x every RPC of 1..3 services in one or several proto "
                "files, in the API's package or in (nested) proto sub-packages (unary, server-streaming, paged, LRO, client-streaming, bidi; "
                "mixin RPCs) x {grpc, grpc_asyncio, rest, rest_asyncio} tables x calls through {grpc, grpc_asyncio, rest (unary/paged)} x fault sequences (retryable^k then OK / non-retryable / run into the deadline; "
                "explicit retry / timeout / None overrides) x {sync, asyncio} x {jitter pinned to 1, random, (thorough) pinned to 1/2}; "
                "distinct by (config, method) for defaults, (config, method, transport) for table entries, (config, method, replies, kwargs, "
                "client kind, jitter mode) for calls; non-trivial = every one of them")
    ctx.assume("every methodConfig entry has a `name` list")
    ctx.assume("durations are plain decimal seconds (or integer nanoseconds with the `n` suffix); timeout > 0")
    ctx.assume("maxAttempts is read and then ignored by the generator; the statement does not mention it")
    ctx.assume("a service-wide name (no `method`) names no method (DESIGN §7.9)")
    r = ctx.rng("c09")
    check_helpers(ctx, ctx.rng("helpers"))
    probe_excluded(ctx)
    # corpus first
    for fn, blob in corpus_specs():
        run_api(ctx, ctx.rng("corpus", fn), blob["spec"], "corpus:" + fn, plans=blob.get("plans"))
    # exhaustive status-code table on the wire
    spec = all_codes_spec()
    run_api(ctx, r, spec, "all-codes", plans=all_codes_plans(spec))
    for a in range(ctx.n(14, 220)):
        run_api(ctx, r, gen_spec(r, a, thorough=not ctx.quick), f"api{a}")


def search(ctx):
    r = ctx.rng("search")
    for a in range(16):
        run_api(ctx, r, gen_spec(r, a, thorough=True), f"search{a}")


def replay(ctx, payload):
    import leanio
    ctx.driver = leanio.Driver()
    if "spec" in payload:
        run_api(ctx, ctx.rng("replay"), payload["spec"], "replay", plans=payload.get("plans") or ([payload["plan"]] if "plan" in payload else None))
    elif "duration" in payload:
        check_helpers(ctx, ctx.rng("replay"))
    for f in ctx.failures:
        print("  failure:", f["key"], "-", f["what"])
    for d in ctx.disagreements:
        print("  disagreement:", d["correspondence"], "-", d["what"])
    return not ctx.failures


CLAIM = dict(
    text=("Lean 4 proofs about a model of `_get_retry_and_timeout`/`_to_float` and of the emitted `_wrapped_methods` table: the entry "
          "that applies is the first whose name list contains exactly {service, method}; the emitted initial/maximum/multiplier/"
          "predicate/deadline/default_timeout are exactly the entry's parsed values (0 = keyword omitted); unnamed methods get one "
          "attempt and no deadline; and, on a reference model of api-core's retry loop with exact rational time, retryable^k then OK "
          "inside the deadline gives k+1 attempts, any error not listed surfaces after one attempt (exactly the listed codes are "
          "retried unless OK is listed), the k-th wait is at most min(initial*mult^k, maximum), no wait crosses the entry's timeout "
          "and a back-off that would cross it ends the call, every attempt carries the timeout as deadline, and explicit retry/timeout "
          "override the defaults. Tie: T2 against the real `_to_float`, `Method.retry/timeout` and api-core's status->class table "
          "(exhaustive); T3 against the emitted sync/asyncio/REST tables (introspection) and the emitted sync and asyncio clients "
          "talking to a loopback gRPC server with scripted status codes, trapped sleeps, a virtual clock and pinned or random jitter; "
          "a model-independent oracle restating the property. Since the deepening round also: the whole table (`wrappedTable`: own RPCs then "
          "mixin RPCs, which never get defaults), the last-retry-config-wins rule, service-level/catch-all names selecting nothing, "
          "`attempts <= retryable prefix + 1` for every run, one wait between attempts, set semantics of the predicate; tables of all four "
          "transports incl. rest_asyncio; LRO, mixin and multi-file APIs. Second round: `_to_float` proved to read EVERY decimal literal "
          "(any number of digits, leading zeros, sign, the `n` form; round trip through the canonical rendering; `S.NNNNNNNNNs` = `(S*10^9+N)n`), "
          "Python's sign/exponent grammar modelled; the selector of a sub-package service is its proto full name (entries naming other "
          "services select nothing); sub-package layouts, client-streaming/bidi calls and sync REST calls in T3."),
    technique="Lean 4 theorems (induction on fault sequences over exact rationals) + differential T2/T3 with fault injection against the emitted clients",
    design="7.9",
    note=("api-core's retry loop, TimeToDeadlineTimeout and the status->exception table are a hand-written reference model (validated "
          "differentially, not verified). Real time and the jitter distribution are not covered: sleeps are trapped, time is virtual, "
          "random jitter is only checked against its upper bound. Known finding: OK among retryableStatusCodes retries every error. "
          "Over REST only the status codes whose api-core class is recovered from the HTTP status are served; asyncio client-streaming/bidi "
          "calls are not retried by api-core (assumption); rest_asyncio: table only."),
)
