"""C10 — generation is a pure, deterministic function of the request (DESIGN §7.10).

oracle   the real CLI entry point run as SEPARATE processes with different PYTHONHASHSEED / cwd / time;
         the serialized CodeGeneratorResponse bytes must be identical.  "time" = the seconds that pass by themselves AND
         processes whose wall clock is shifted to another year / day / hour (VERIF_FAKE_EPOCH read by genrun_child.py:
         time.* and datetime.date/datetime answer with the shifted instant), otherwise identical to process 0.
T1-tie   static inventory scan (c10_scan.py) of every set/sort/impurity site of /repo == pinned
         c10_inventory.json (site -> class S1..S5/N/I); a new or changed site is a broken obligation.
T2       real `gapic.utils.lines.sort_lines`, the generator's own Jinja `|sort(attribute=…)`, `|sort`,
         `in`, and `Proto.disambiguate` vs the Lean model on the same inputs (incl. permutations).
T3       the ORDER of definitions in the emitted files (resource path helpers, retryable exception
         lists, AUTH_SCOPES, sub-package files in CodeGeneratorResponse.file, snippet index) of every
         sub-process run vs the model's set of possible outcomes.
         round 2: the insertion-ordered dicts the templates iterate UNSORTED — `API.mixin_api_methods` / `mixin_api_signatures` /
         `mixin_http_options` / `http_options` / `all_method_settings` on the real API object (and on variants of its service yaml:
         rules / apis / settings shuffled, selectors repeated) vs the Lean `OMap` model (T2); the order of the wrapped mixin
         methods in transports/base.py, of the `_Base<Mixin>` classes in rest_base.py, of the `operations_client` http_options keys
         in rest.py (T3, every process); `Generator.get_response`'s OrderedDict accumulation: the tree of `_render_template` /
         `_get_file` results of an instrumented in-process run vs `responseFiles`, and the resulting order vs every process's
         CodeGeneratorResponse.file (T3); Python `dict` / Jinja `dictsort` vs `OMap` / `dictsort` (T2).
probes   (informational, different requests) proto_file in another topological order; parameter string permuted.
"""
from __future__ import annotations
import concurrent.futures as cf
import hashlib, itertools, json, os, re, shutil, tempfile
import apigen, genrun
from google.protobuf.compiler import plugin_pb2

HERE = os.path.dirname(os.path.abspath(__file__))
ROOT = os.path.dirname(os.path.dirname(HERE))
CORPUS = os.path.join(ROOT, "corpus", "C10")
PKG = "acme.lib.v1"

SHORT = ["Thing", "Book", "Shelf", "Widget", "Gadget", "Item", "Folder", "Topic"]
DOMAINS = ["foo.example.com", "bar.example.com", "lib.example.com", "zoo.example.com"]
MSG_NAMES = ["Alpha", "Bravo", "Charlie", "Delta", "Echo", "Foxtrot", "Golf", "Hotel", "India", "Juliet",
             "Kilo", "Lima", "Mike", "November", "Oscar", "Papa"]
METHOD_VERBS = ["Get", "Create", "Update", "Delete", "List", "Run", "Check", "Move"]
CODES = ["CANCELLED", "UNKNOWN", "INVALID_ARGUMENT", "DEADLINE_EXCEEDED", "NOT_FOUND", "ALREADY_EXISTS",
         "PERMISSION_DENIED", "RESOURCE_EXHAUSTED", "FAILED_PRECONDITION", "ABORTED", "OUT_OF_RANGE",
         "UNIMPLEMENTED", "INTERNAL", "UNAVAILABLE", "DATA_LOSS", "UNAUTHENTICATED"]
SCALARS = ["string", "int32", "int64", "bool", "double", "bytes", "uint32"]


# ----------------------------------------------------------------------------------------- generator
def gen_spec(r: apigen.Rng, idx: int, clean: bool, rich: bool = False, extop=None):
    """'determinism' profile (DESIGN §7.10): several resources (equal short type names unless `clean`),
    several files/imports/module-name collisions, several retryable codes, equal method names across
    services, nested/recursive field types, LRO, paging, REST query params, snippets on/off.
    `clean` = no two resources of the API share a case-insensitive short type name (the input class of the
    repaired §9-F4; the other specs keep exercising it as a regression)."""
    nfiles = r.randint(1, 3)
    nmsgs = r.randint(4, 9)
    names = r.sample(MSG_NAMES, nmsgs)
    msgs = []
    used_types = set()
    for k, n in enumerate(names):
        m = {"name": n, "file": r.randrange(nfiles), "fields": [], "resource": None, "nested": r.maybe(0.25)}
        if r.maybe(0.6):
            for _ in range(20):
                short = r.pick(SHORT)
                if not clean and r.maybe(0.25):
                    short = short.lower() if r.maybe(0.5) else short
                dom = r.pick(DOMAINS)
                t = f"{dom}/{short}"
                if t in used_types:
                    continue
                if clean and any(u.split("/", 1)[1].lower() == short.lower() for u in used_types):
                    continue
                used_types.add(t)
                m["resource"] = {"type": t, "pattern": f"c{k}s/{{c{k}}}" + (f"/d{k}s/{{d{k}}}" if r.maybe(0.4) else "")}
                break
        msgs.append(m)
    file_res = []
    for k in range(r.randint(0, 2)):
        for _ in range(20):
            short = r.pick(SHORT)
            t = f"{r.pick(DOMAINS)}/{short}"
            if t in used_types or (clean and any(u.split("/", 1)[1].lower() == short.lower() for u in used_types)):
                continue
            used_types.add(t)
            file_res.append({"type": t, "pattern": f"f{k}s/{{f{k}}}"})
            break
    all_types = sorted(used_types)
    # fields: scalars, references to other messages (any file), enums, maps, resource references
    for k, m in enumerate(msgs):
        m["fields"].append({"name": "name", "kind": "string"})
        for j in range(r.randint(1, 6)):
            kind = r.pick(["scalar", "scalar", "message", "message", "message", "enum", "map", "ref", "wkt"])
            f = {"name": f"f{j}_{r.pick(['a', 'b', 'c', 'd'])}", "kind": kind, "repeated": r.maybe(0.25)}
            if kind == "scalar":
                f["type"] = r.pick(SCALARS)
            elif kind == "message":
                f["target"] = r.randrange(len(msgs))          # cycles allowed (never REQUIRED)
            elif kind == "enum":
                f["target"] = r.pick(["Color", "Mode", "SharedKind"])
            elif kind == "map":
                f["target"] = r.randrange(len(msgs)); f["repeated"] = False
            elif kind == "ref":
                if not all_types:
                    f["kind"] = "scalar"; f["type"] = "string"
                else:
                    f["ref"] = r.pick(all_types); f["child"] = r.maybe(0.2); f["repeated"] = False
            elif kind == "wkt":
                f["target"] = r.pick(["google.protobuf.Timestamp", "google.protobuf.Duration", "google.protobuf.FieldMask",
                                      "google.protobuf.Struct", "google.protobuf.Any", "acme.shared.v1.SharedItem"])
            m["fields"].append(f)
    services = []
    nsvc = r.randint(1, 3)
    for s in range(nsvc):
        svc = {"name": ["Library", "Archive", "Catalog"][s], "methods": []}
        seen = set()
        for j in range(r.randint(2, 6)):
            verb = r.pick(METHOD_VERBS)
            tgt = r.randrange(len(msgs))
            mname = f"{verb}{msgs[tgt]['name']}"
            if mname in seen:
                continue
            seen.add(mname)
            kind = "paged" if verb == "List" else r.pick(["unary", "unary", "unary", "lro", "sstream", "void"])
            meth = {"name": mname, "kind": kind, "target": tgt, "other": r.randrange(len(msgs)),
                    "req_fields": [{"name": "name", "kind": "string", "ref": (msgs[tgt]["resource"] or {}).get("type")}],
                    "sig": r.maybe(0.5), "http": r.pick(["get", "post", "patch", "delete"]),
                    "codes": sorted(r.sample(CODES, r.randint(2, 7))) if r.maybe(0.6) else []}
            for q in range(r.randint(0, 3)):
                meth["req_fields"].append({"name": f"q{q}", "kind": r.pick(["string", "int32", "bool"]), "required": r.maybe(0.4)})
            if r.maybe(0.5):
                meth["req_fields"].append({"name": "payload", "kind": "message", "target": r.randrange(len(msgs))})
            if all_types and r.maybe(0.4):
                meth["req_fields"].append({"name": "parent", "kind": "string", "ref": r.pick(all_types), "child": r.maybe(0.3)})
            svc["methods"].append(meth)
        services.append(svc)
    opts = {"transport": r.pick(["grpc", "grpc+rest", "rest", "grpc+rest"]), "snippets": r.maybe(0.5),
            "metadata": r.maybe(0.6), "numeric_enums": r.maybe(0.3), "retry": r.maybe(0.8), "ads": r.maybe(0.12)}
    spec = {"idx": idx, "clean": clean, "nfiles": nfiles, "messages": msgs, "file_resources": file_res,
            "services": services, "opts": opts}
    spec["extras"] = gen_extras(r, spec, rich)
    if extop is not None:
        spec["extras"]["extop"] = extop
    if spec["extras"].get("extop"):
        opts["transport"] = "rest"; opts["ads"] = False        # extended operations exist for REST only
    if spec["extras"].get("mixins") or spec["extras"].get("subpkgs"):
        opts["ads"] = False
    if spec["extras"].get("sub_service"):
        opts["snippets"] = False       # known finding of C14 (`generation-crash:KeyError:service-in-subpackage`): no response to compare
    return spec


SCOPES = ["https://www.googleapis.com/auth/cloud-platform", "https://www.googleapis.com/auth/lib.read",
          "https://www.googleapis.com/auth/lib.write", "https://example.com/auth/x", "https://example.com/auth/Y",
          "https://www.googleapis.com/auth/lib.admin", "https://www.googleapis.com/auth/cloud-platform.read-only"]
SUBPKGS = ["alpha", "beta", "gamma", "delta", "omega"]
OPS_API, LOC_API, IAM_API = "google.longrunning.Operations", "google.cloud.location.Locations", "google.iam.v1.IAMPolicy"
MIXIN_RULES = {
    OPS_API: [("GetOperation", "get", "/v1/{name=operations/*}", None), ("ListOperations", "get", "/v1/{name=operations}", None),
              ("DeleteOperation", "delete", "/v1/{name=operations/*}", None), ("CancelOperation", "post", "/v1/{name=operations/*}:cancel", "*"),
              ("WaitOperation", "post", "/v1/{name=operations/*}:wait", "*")],
    LOC_API: [("GetLocation", "get", "/v1/{name=projects/*/locations/*}", None), ("ListLocations", "get", "/v1/{name=projects/*}/locations", None)],
    IAM_API: [("GetIamPolicy", "post", "/v1/{resource=shelves/*}:getIamPolicy", "*"), ("SetIamPolicy", "post", "/v1/{resource=shelves/*}:setIamPolicy", "*"),
              ("TestIamPermissions", "post", "/v1/{resource=shelves/*}:testIamPermissions", "*")],
}


def gen_extras(r, spec, rich):
    """the shapes that give every 'ordered/sorted' inventory site at least three distinct elements to order:
    OAuth scopes, sub-packages (messages + enums), mixin APIs (service yaml), extra/nested enums, multi-field
    method signatures, an LRO request that itself carries a google.longrunning.Operation (two spellings of the
    same import meet in one sort_lines block), compute-style extended-operation services.
    `rich` forces all of them (search profile / every few APIs), otherwise each is drawn independently."""
    def on(p):
        return rich or r.maybe(p)
    ex = {}
    ex["scopes"] = {svc["name"]: r.sample(SCOPES, r.randint(3, 5) if on(0.5) else r.randint(1, 2)) for svc in spec["services"]}
    ex["subpkgs"] = r.sample(SUBPKGS, r.randint(3, 4)) if on(0.4) else (r.sample(SUBPKGS, r.randint(1, 2)) if r.maybe(0.3) else [])
    ex["mixins"] = [a for a in (OPS_API, LOC_API, IAM_API) if on(0.35)]
    ex["enums"] = r.randint(3, 5) if on(0.5) else 0
    ex["multisig"] = on(0.5)
    ex["op_field"] = on(0.4)
    ex["extop"] = (rich and r.maybe(0.5)) or r.maybe(0.12)
    ex["host_port"] = r.maybe(0.2)
    # ---- round 2 (drawn from a separate stream so that the shapes above stay what they were)
    r2 = apigen.Rng(f"c10-extras2:{spec['idx']}:{r.random()}")
    ex["nested_subpkgs"] = bool(ex["subpkgs"]) and (rich or r2.maybe(0.4))
    ex["sub_service"] = bool(ex["subpkgs"]) and r2.maybe(0.45 if rich else 0.25)
    ex["iam_override"] = IAM_API in ex["mixins"] and r2.maybe(0.2)
    ex["yaml"] = gen_yaml(r2, spec, ex, rich)
    # ---- round 3 (again a separate stream): `google.api.field_info` formats on string fields
    gen_formats(apigen.Rng(f"c10-extras3:{spec['idx']}:{r.random()}"), spec, ex, rich)
    # ---- round 4 (separate stream): explicit routing rules whose parameters share header keys
    gen_routing(apigen.Rng(f"c10-extras4:{spec['idx']}:{r.random()}"), spec, ex, rich)
    return ex


ROUTE_TEMPLATES = ["{%s=projects/*}/**", "{%s=projects/*/instances/*}/**", "{%s=projects/*/instances/*/tables/*}",
                   "{%s=regions/*}/**", "{%s=**}", "projects/*/{%s=instances/*}/**"]
# (the bare form `{key}` is not generated: uri_sample.sample_from_path_template needs the `=` — a probe recorded by C06)


def gen_routing(r, spec, ex, rich):
    """explicit `google.api.routing` rules with 2-4 routing parameters (occasionally 5-6): several parameters resolve to ONE header
    key (the AIP-4222 shape: the same field under templates of growing length; different fields feeding the same key; a
    template-less parameter next to a template naming the field itself), identical (field, template) pairs repeated, and keys
    that are all distinct.  The emitted `routing_param_regex` blocks must keep the order of the annotation (last match wins)."""
    for svc in spec["services"]:
        for me in svc["methods"]:
            if not (r.maybe(0.75) if rich else r.maybe(0.4)):
                continue
            fields = ["name", "table_name"] + (["app_profile_id"] if r.maybe(0.6) else [])
            me["routing_fields"] = fields[1:]
            shape = r.pick(["same-field-same-key", "same-field-same-key", "fields-same-key", "mixed", "mixed", "distinct-keys", "template-less"])
            n = r.randint(2, 4) if not r.maybe(0.15) else r.randint(5, 6)
            params = []
            if shape == "same-field-same-key":
                fld, key = r.pick(fields), r.pick(["routing_id", "table_name", "shard"])
                tpls = r.sample(ROUTE_TEMPLATES[:6], min(n, 6))
                params = [[fld, t % key] for t in tpls]
            elif shape == "fields-same-key":
                key = r.pick(["routing_id", "zone"])
                params = [[r.pick(fields), r.pick(ROUTE_TEMPLATES[:6]) % key] for _ in range(n)]
                params[0][0], params[1][0] = fields[0], fields[1]
            elif shape == "distinct-keys":
                keys = r.sample(["routing_id", "zone", "shard", "tenant", "cell", "lane"], n)
                params = [[r.pick(fields), r.pick(ROUTE_TEMPLATES[:6]) % k] for k in keys]
            elif shape == "template-less":
                fld = r.pick(fields)
                params = [[fld, None], [fld, ROUTE_TEMPLATES[0] % fld], [fld, ROUTE_TEMPLATES[1] % fld]][:max(2, min(n, 3))]
                r.shuffle(params)
            else:
                keys = ["routing_id", r.pick(["zone", "shard"])]
                params = [[r.pick(fields), r.pick(ROUTE_TEMPLATES) % r.pick(keys)] for _ in range(n)]
            if r.maybe(0.35):                      # the identical (field, template) pair once more, somewhere else in the list
                params.insert(r.randint(0, len(params)), list(r.pick(params)))
            me["routing"] = params


FORMATS = ["UUID4", "IPV4", "IPV6", "IPV4_OR_IPV6"]
FMT_NAMES = {"UUID4": ["idempotency_token", "trace_id", "txn_uuid"], "IPV4": ["client_ip", "gateway_v4"], "IPV6": ["peer_ip6"],
             "IPV4_OR_IPV6": ["any_ip", "origin_addr"]}


def gen_formats(r, spec, ex, rich):
    """string fields with a `google.api.field_info` format (UUID4 / IPV4 / IPV6 / IPV4_OR_IPV6) whose MOCK VALUE is rendered:
    REQUIRED ones (sample request set-up -> samples and client docstrings), flattened ones (own method_signature -> the
    flattened-argument tests), ones inside a message that is the REST body field (`request_init[...]` of the REST tests), and
    plain optional ones; mostly on unary RPCs.  Optional UUID4 fields are listed under `auto_populated_fields` of the yaml's
    method settings for about half of the methods that may carry them (the `request_id` fields of round 2 are always
    listed), the others stay unlisted.  Mutates the method / message dicts of the spec and `ex['yaml']`."""
    y = ex.get("yaml")
    kept = None
    if y:
        for ls in (y.get("publishing") or {}).get("library_settings") or []:
            sg = ((ls.get("python_settings") or {}).get("common") or {}).get("selective_gapic_generation")
            if sg and not sg.get("generate_omitted_as_internal"):
                kept = set(sg["methods"])
    for svc in spec["services"]:
        for me in svc["methods"]:
            if me["kind"] == "sstream" and not r.maybe(0.3):
                continue
            if not (rich or r.maybe(0.6)):
                continue
            fmts = r.sample(FORMATS, r.randint(1, 3))
            if "UUID4" not in fmts and r.maybe(0.7):
                fmts[0] = "UUID4"
            used, out = set(me.get("autopop") or []), []
            for fm in fmts:
                nm = r.pick([n for n in FMT_NAMES[fm] if n not in used] or [f"{fm.lower()}_x"])
                used.add(nm)
                out.append({"name": nm, "format": fm, "required": r.maybe(0.5), "flatten": r.maybe(0.4)})
            me["fmt_fields"] = out
            if any(rf["name"] == "payload" for rf in me["req_fields"]) and me["http"] in ("post", "patch") and me["kind"] in ("unary", "lro") \
                    and not me.get("autopop") and r.maybe(0.5):
                me["body_field"] = "payload"            # the REST body is ONE message field: its mock is spelled out in the tests
            listable = [f["name"] for f in out if f["format"] == "UUID4" and not f["required"] and not f["flatten"]]
            sel = f"{PKG}.{svc['name']}.{me['name']}"
            if (listable and y and not ex.get("sub_service") and me["kind"] in ("unary", "void", "paged") and not me.get("body_field")
                    and (kept is None or sel in kept) and r.maybe(0.5)):
                pub = y.setdefault("publishing", {})
                ms = pub.setdefault("method_settings", [])
                ent = next((e for e in ms if e["selector"] == sel), None)
                if ent is None:
                    ms.insert(r.randint(0, len(ms)), {"selector": sel, "auto_populated_fields": listable})
                elif "long_running" not in ent:
                    ent["auto_populated_fields"] = list(ent.get("auto_populated_fields") or []) + listable
    for m in spec["messages"]:
        if rich or r.maybe(0.4):
            m["fmt_fields"] = [{"name": r.pick(["owner_token", "source_ip", "audit_uuid"]), "format": r.pick(FORMATS), "required": r.maybe(0.3)}]


ALT_URI = {"get": "/v2/{name=projects/*/operations/*}", "delete": "/v2/{name=projects/*/operations/*}",
           "post": "/v2/{name=projects/*/things/*}:act"}


def gen_yaml(r, spec, ex, rich):
    """the API's service yaml (None = the API has none).  Lists whose ORDER the generator must follow (and nothing else):
    `apis` (mixins, shuffled, next to the API's own services), `http.rules` (mixin rules shuffled and interleaved, some
    selectors repeated with another uri, additional_bindings, a pattern-less rule, rules of mixins that are not enabled, rules
    for the API's own methods), `publishing.method_settings` (long_running for LRO methods, auto_populated_fields for unary
    methods — the request gets the UUID4 fields —, shuffled), `publishing.library_settings` (selective generation of a
    subset of the methods, rest_async_io)."""
    apis = list(ex["mixins"])
    if not apis and not (rich or r.maybe(0.5)):
        return None
    rules = []
    rule_apis = list(apis) + [a for a in (OPS_API, LOC_API, IAM_API) if a not in apis and r.maybe(0.15)]
    for a in rule_apis:
        for (m, verb, uri, body) in MIXIN_RULES[a]:
            if m == "WaitOperation" and not r.maybe(0.4):
                continue
            if not r.maybe(0.9):
                continue
            d = {"selector": f"{a}.{m}", verb: uri}
            if body:
                d["body"] = body
            if r.maybe(0.3):
                d["additional_bindings"] = [{verb: ALT_URI[verb].replace("name=", "resource=") if a == IAM_API else ALT_URI[verb],
                                             **({"body": body} if body else {})} for _ in range(r.randint(1, 2))]
            rules.append(d)
            if r.maybe(0.2):                      # the selector once more, elsewhere in the list, with another uri
                d2 = {"selector": d["selector"], verb: (ALT_URI[verb].replace("name=", "resource=") if a == IAM_API else ALT_URI[verb])}
                if body:
                    d2["body"] = body
                rules.append(d2)
    own = [(svc["name"], me) for svc in spec["services"] for me in svc["methods"]]
    for (sv, me) in r.sample(own, min(len(own), r.randint(0, 2))):
        rules.append({"selector": f"{PKG}.{sv}.{me['name']}", "get": "/v9/{name=c%ds/*}" % me["target"]})
    r.shuffle(rules)
    settings = []
    for (sv, me) in own:
        if me["kind"] == "lro" and r.maybe(0.6):
            settings.append({"selector": f"{PKG}.{sv}.{me['name']}",
                             "long_running": {"initial_poll_delay": "5s", "poll_delay_multiplier": 1.5, "max_poll_delay": "60s", "total_poll_timeout": "600s"}})
        elif me["kind"] in ("unary", "void", "paged") and r.maybe(0.5):
            me["autopop"] = ["request_id"] + (["other_id"] if r.maybe(0.4) else [])
            flds = list(me["autopop"])
            r.shuffle(flds)
            settings.append({"selector": f"{PKG}.{sv}.{me['name']}", "auto_populated_fields": flds})
    r.shuffle(settings)
    if ex.get("sub_service"):
        # known finding of C18 (`rejected-valid:method-of-another-package-view-not-found`): with a service in a sub-package every
        # method_settings entry of another package aborts generation — no response to compare, so none are generated here
        settings = []
    lib = {"version": PKG, "python_settings": {}}
    if own and r.maybe(0.3) and not ex.get("sub_service"):     # (selective settings are validated per sub-package view too: C16's subject)
        keep = r.sample(own, r.randint(1, max(1, len(own) - 1)))
        internal = r.maybe(0.5)
        lib["python_settings"]["common"] = {"selective_gapic_generation": {
            "methods": [f"{PKG}.{sv}.{me['name']}" for (sv, me) in keep], "generate_omitted_as_internal": internal}}
        if not internal:                   # an omitted method no longer exists for `enforce_valid_method_settings`
            kept = {f"{PKG}.{sv}.{me['name']}" for (sv, me) in keep}
            settings = [x for x in settings if x["selector"] in kept]
    if r.maybe(0.3):
        lib["python_settings"]["experimental_features"] = {"rest_async_io_enabled": True}
    names = [{"name": a} for a in apis] + [{"name": f"{PKG}.{svc['name']}"} for svc in spec["services"] if r.maybe(0.5)]
    r.shuffle(names)
    y = {"type": "google.api.Service", "config_version": 3, "name": "lib.example.com", "apis": names, "http": {"rules": rules}}
    pub = {}
    if settings:
        pub["method_settings"] = settings
    if lib["python_settings"]:
        pub["library_settings"] = [lib]
    if pub:
        y["publishing"] = pub
    return y


def build_files(spec):
    shared = apigen.File("acme/shared/v1/lib.proto", "acme.shared.v1", deps=[])     # module `lib` from a 2nd package
    si = shared.msg("SharedItem"); si.field("id"); si.field("rank", "int32")
    shared.enum("SharedKind", ["SHARED_KIND_UNSPECIFIED", "ONE", "TWO"])
    fnames = ["acme/lib/v1/lib.proto", "acme/lib/v1/extra.proto", "acme/lib/v1/more.proto"][:spec["nfiles"]]
    files = [apigen.File(n, PKG) for n in fnames]
    for i, f in enumerate(files):
        f.dep("acme/shared/v1/lib.proto")
        for j, g in enumerate(fnames):
            if j < i:
                f.dep(g)
    # declaration placement: file k may only reference files <= k ; messages are re-homed accordingly
    msgs = spec["messages"]
    last = len(files) - 1
    files[0].enum("Color", ["COLOR_UNSPECIFIED", "RED", "BLUE"])
    files[0].enum("Mode", ["MODE_UNSPECIFIED", "FAST", "SLOW"])
    # all messages that are referenced across files live in files <= referrer: simplest sound layout = every
    # file depends on all earlier files, and forward references are avoided by declaring msgs in file order
    order = sorted(range(len(msgs)), key=lambda k: (msgs[k]["file"], k))
    home = {k: msgs[k]["file"] for k in order}
    objs = {}
    for k in order:
        objs[k] = files[home[k]].msg(msgs[k]["name"])

    def full(k):
        return f".{PKG}.{msgs[k]['name']}"

    def add_field(mo, f, owner_file):
        kind = f["kind"]
        rep = f.get("repeated", False)
        if kind in ("scalar",):
            mo.field(f["name"], f["type"], repeated=rep)
        elif kind in ("string", "int32", "bool"):
            kw = {}
            if f.get("ref"):
                kw["child_ref" if f.get("child") else "ref"] = f["ref"]
            mo.field(f["name"], kind, required=f.get("required", False), **kw)
        elif kind == "message":
            t = f["target"]
            if home[t] > owner_file:                       # would be a forward file reference: fall back
                mo.field(f["name"], "message", type_name=".acme.shared.v1.SharedItem", repeated=rep)
            else:
                mo.field(f["name"], "message", type_name=full(t), repeated=rep)
        elif kind == "enum":
            tn = ".acme.shared.v1.SharedKind" if f["target"] == "SharedKind" else f".{PKG}.{f['target']}"
            mo.field(f["name"], "enum", type_name=tn, repeated=rep)
        elif kind == "map":
            t = f["target"]
            if home[t] > owner_file:
                mo.map_field(f["name"], "string", "string")
            else:
                mo.map_field(f["name"], "string", "message", vtype_name=full(t))
        elif kind == "ref":
            mo.field(f["name"], "string", **{("child_ref" if f.get("child") else "ref"): f["ref"]})
        elif kind == "wkt":
            mo.field(f["name"], "message", type_name="." + f["target"], repeated=rep)

    for k in order:
        m, mo = msgs[k], objs[k]
        for f in m["fields"]:
            add_field(mo, f, home[k])
        for ff in m.get("fmt_fields") or []:
            fmt_field(mo, ff)
        if m["resource"]:
            mo.resource(m["resource"]["type"], m["resource"]["pattern"])
        if m["nested"]:
            n = mo.nested("Detail"); n.field("note"); n.field("kind", "enum", type_name=f".{PKG}.Color" if True else None)
            mo.field("detail", "message", type_name=f".{PKG}.{m['name']}.Detail")
    for fr in spec["file_resources"]:
        files[last].resource_definition(fr["type"], fr["pattern"])
    ex = spec.get("extras") or {}
    subfiles = []
    for sp in ex.get("subpkgs", []):                     # message/enum-only files in sub-packages of the API package
        sf = apigen.File(f"acme/lib/v1/{sp}/{sp}_types.proto", f"{PKG}.{sp}", deps=[])
        cap = sp.capitalize()
        ke = sf.enum(f"{cap}Kind", [f"{sp.upper()}_KIND_UNSPECIFIED", f"{sp.upper()}_ONE", f"{sp.upper()}_TWO"])
        info = sf.msg(f"{cap}Info"); info.field("label"); info.field("kind", "enum", type_name=ke); info.field("weight", "int32")
        more = sf.msg(f"{cap}Extra"); more.field("info", "message", type_name=info); more.field("tags", repeated=True)
        subfiles.append(sf)
    if ex.get("nested_subpkgs"):                         # sub-packages of sub-packages: two below the first, one below the last
        tops = ex["subpkgs"]
        for (top, leafs) in ([(tops[0], ["zeta", "deep"])] + ([(tops[-1], ["deep"])] if len(tops) > 1 else [])):
            for leaf in leafs:
                nf = apigen.File(f"acme/lib/v1/{top}/{leaf}/{top}_{leaf}.proto", f"{PKG}.{top}.{leaf}", deps=[])
                cap = top.capitalize() + leaf.capitalize()
                ne_ = nf.enum(f"{cap}Kind", [f"{cap.upper()}_KIND_UNSPECIFIED", f"{cap.upper()}_ONE"])
                nm_ = nf.msg(f"{cap}Note"); nm_.field("text"); nm_.field("kind", "enum", type_name=ne_)
                subfiles.append(nf)
    if ex.get("sub_service"):                            # a service that lives in a sub-package of the API package
        sp = ex["subpkgs"][-1]
        sf = apigen.File(f"acme/lib/v1/{sp}/{sp}_service.proto", f"{PKG}.{sp}")
        sf.dep(f"acme/lib/v1/{sp}/{sp}_types.proto")
        rq = sf.msg(f"Get{sp.capitalize()}InfoRequest"); rq.field("name"); rq.field("label")
        so = sf.service(f"{sp.capitalize()}Keeper", scopes=("https://example.com/auth/x", "https://example.com/auth/Y"))
        so.method(f"Get{sp.capitalize()}Info", rq, f".{PKG}.{sp}.{sp.capitalize()}Info", http=("get", "/v1/{name=" + sp + "s/*}"), sigs=["name"])
        so.method(f"Check{sp.capitalize()}Info", rq, f".{PKG}.{sp}.{sp.capitalize()}Extra", http=("post", "/v1/{name=" + sp + "s/*}:check"), body="*")
        subfiles.append(sf)
    f = files[last]
    for sf in subfiles:
        if not sf.name.endswith("_service.proto"):
            f.dep(sf.name)
    if subfiles:
        for k in order:                                  # messages of the last file reference the sub-package types
            if home[k] == last:
                for j, sp in enumerate(ex["subpkgs"]):
                    if (k + j) % 2 == 0:
                        objs[k].field(f"sub_{sp}", "message", type_name=f".{PKG}.{sp}.{sp.capitalize()}Info")
                        objs[k].field(f"kind_{sp}", "enum", type_name=f".{PKG}.{sp}.{sp.capitalize()}Kind")
    extra_enums = []
    for j in range(ex.get("enums", 0)):
        nm = ["Zeta", "Priority", "aspect", "Level", "Tone"][j]
        extra_enums.append(files[0].enum(nm, [f"{nm.upper()}_UNSPECIFIED", f"{nm.upper()}_A", f"{nm.upper()}_B"]))
        objs[order[j % len(order)]].field(f"e_{nm.lower()}", "enum", type_name=f".{PKG}.{nm}")
        if j % 2 == 0:
            ne = objs[order[0]].nested_enum(f"Inner{nm.capitalize()}", [f"INNER_{nm.upper()}_UNSPECIFIED", f"INNER_{nm.upper()}_X"])
            objs[order[0]].field(f"inner_{nm.lower()}", "enum", type_name=ne)
    if ex.get("extop"):
        add_extops(f)
    # services live in the last file (sees every message)
    retry_cfg = {"methodConfig": []}
    for svc in spec["services"]:
        scopes = tuple((ex.get("scopes") or {}).get(svc["name"], ("https://example.com/auth/x",)))
        so = f.service(svc["name"], host="lib.example.com:8443" if ex.get("host_port") else "lib.example.com", scopes=scopes)
        for me in svc["methods"]:
            tgt = me["target"]
            rq = f.msg(f"{svc['name']}{me['name']}Request")
            for rf in me["req_fields"]:
                add_field(rq, rf, last)
            for ap in me.get("autopop") or []:           # AIP-4235 fields named by the yaml's method_settings
                rq.field(ap, uuid4=True)
            for ff in me.get("fmt_fields") or []:        # round 3: field_info formats (required / flattened / optional)
                fmt_field(rq, ff)
            for rfn in me.get("routing_fields") or []:   # round 4: the fields the explicit routing parameters read
                rq.field(rfn)
            routing = [tuple(p) for p in me.get("routing") or []] or None
            http_uri = "/v1/{name=" + f"c{tgt}s/*" + "}"
            body = (me.get("body_field") or "*") if me["http"] in ("post", "patch") else None
            sigs = ["name"] if me["sig"] else []
            sigs = sigs + ["name," + ff["name"] for ff in me.get("fmt_fields") or [] if ff.get("flatten")]
            if ex.get("multisig"):
                fl = [rf["name"] for rf in me["req_fields"] if rf["kind"] in ("string", "int32", "bool", "message")]
                sigs = sigs + [",".join(fl[:4])] + ([",".join(reversed(fl[:3]))] if len(fl) >= 3 else [])
            kind = me["kind"]
            if kind == "lro" and ex.get("op_field"):
                rq.field("prior", "message", type_name=".google.longrunning.Operation")
            if kind == "paged":
                rq.field("page_size", "int32"); rq.field("page_token")
                rs = f.msg(f"{svc['name']}{me['name']}Response")
                rs.field("items", "message", repeated=True, type_name=full(tgt)); rs.field("next_page_token")
                so.method(me["name"], rq, rs, http=("get", http_uri + "/items"), sigs=sigs, routing=routing)
            elif kind == "lro":
                so.method(me["name"], rq, ".google.longrunning.Operation", http=(me["http"], http_uri + ":run"), body=body,
                          sigs=sigs, lro=(f"{PKG}.{msgs[tgt]['name']}", f"{PKG}.{msgs[me['other']]['name']}"), routing=routing)
            elif kind == "sstream":
                so.method(me["name"], rq, full(tgt), http=(me["http"], http_uri + ":stream"), body=body, ss=True, routing=routing)
            elif kind == "void":
                so.method(me["name"], rq, ".google.protobuf.Empty", http=("delete", http_uri), sigs=sigs, routing=routing)
            else:
                so.method(me["name"], rq, full(tgt), http=(me["http"], http_uri), body=body, sigs=sigs, routing=routing)
            if me["codes"]:
                retry_cfg["methodConfig"].append({
                    "name": [{"service": f"{PKG}.{svc['name']}", "method": me["name"]}], "timeout": "60s",
                    "retryPolicy": {"maxAttempts": 5, "initialBackoff": "0.1s", "maxBackoff": "60s",
                                    "backoffMultiplier": 1.3, "retryableStatusCodes": me["codes"]}})
        if ex.get("iam_override") and svc is spec["services"][0]:
            # a method of the API itself named like an IAM mixin method: `_has_iam_overrides` drops the whole IAM mixin
            rq = f.msg(f"{svc['name']}GetIamPolicyRequest"); rq.field("resource")
            so.method("GetIamPolicy", rq, full(order[0]), http=("post", "/v1/{resource=c0s/*}:getIamPolicy"), body="*")
    # the sub-package service file goes AFTER the files it does not depend on, like protoc would list it
    return [shared] + subfiles + files, subfiles + files, retry_cfg


def fmt_field(mo, ff):
    from google.api import field_info_pb2
    fd = mo.field(ff["name"], required=ff.get("required", False))
    fd.options.Extensions[field_info_pb2.field_info].format = field_info_pb2.FieldInfo.Format.Value(ff["format"])
    return fd


def add_extops(f):
    """compute-style extended operations: three polling services and one service whose methods name them
    (`api.get_extended_operations_services(service)` is then a SET of three services)"""
    from google.cloud import extended_operations_pb2 as exo
    f.dep("google/cloud/extended_operations.proto")
    op = f.msg("Operation")
    st = op.nested_enum("Status", ["DONE"])
    op.field("name", optional=True).options.Extensions[exo.operation_field] = exo.NAME
    op.field("http_error_message", optional=True).options.Extensions[exo.operation_field] = exo.ERROR_MESSAGE
    op.field("http_error_status_code", "int32", optional=True).options.Extensions[exo.operation_field] = exo.ERROR_CODE
    op.field("status", "enum", type_name=st, optional=True).options.Extensions[exo.operation_field] = exo.STATUS
    addr = f.msg("Address"); addr.field("address", optional=True)
    ad = f.service("Addresses")
    for scope_name in ("Region", "Zone", "Global"):
        g = f.msg(f"Get{scope_name}OperationRequest")
        g.field("operation", required=True).options.Extensions[exo.operation_response_field] = "name"
        g.field("project", required=True); g.field("region", required=True)
        ro = f.service(f"{scope_name}Operations")
        m = ro.method("Get", g, op, http=("get", f"/compute/v1/projects/{{project}}/{scope_name.lower()}s/{{region}}/operations/{{operation}}"),
                      sigs=["project,region,operation"])
        m.options.Extensions[exo.operation_polling_method] = True
        ins = f.msg(f"Insert{scope_name}AddressRequest")
        ins.field("address_resource", "message", type_name=addr); ins.field("project", required=True); ins.field("region")
        m = ad.method(f"Insert{scope_name}", ins, op, http=("post", f"/compute/v1/projects/{{project}}/{scope_name.lower()}s/{{region}}/addresses"),
                      body="address_resource", sigs=["project,region,address_resource"])
        m.options.Extensions[exo.operation_service] = f"{scope_name}Operations"


def service_yaml(spec):
    if "yaml" in (spec.get("extras") or {}):             # round 2: the yaml is part of the spec
        return spec["extras"]["yaml"]
    apis = (spec.get("extras") or {}).get("mixins") or []
    if not apis:
        return None
    rules = []
    for a in apis:
        for (m, verb, uri, body) in MIXIN_RULES[a]:
            d = {"selector": f"{a}.{m}", verb: uri}
            if body:
                d["body"] = body
            rules.append(d)
    return {"type": "google.api.Service", "config_version": 3, "name": "lib.example.com",
            "apis": [{"name": a} for a in apis], "http": {"rules": rules}}


def build_request(spec, workdir):
    """(request bytes, request) — option files are written under `workdir` and referenced by ABSOLUTE path
    (the statement fixes 'the same referenced option files')."""
    allf, targets, retry_cfg = build_files(spec)
    o = spec["opts"]
    params = [f"transport={o['transport']}", f"autogen-snippets={'true' if o['snippets'] else 'false'}"]
    if o["metadata"]:
        params.append("metadata")
    if o["numeric_enums"]:
        params.append("rest-numeric-enums")
    if o.get("ads"):                     # the alternative template tree (works with old-naming, without snippets)
        params = ["python-gapic-templates=ads-templates", "old-naming", "autogen-snippets=false"]
    if o["retry"] and retry_cfg["methodConfig"]:
        p = os.path.join(workdir, f"retry_{spec['idx']}.json")
        with open(p, "w") as fh:
            json.dump(retry_cfg, fh)
        params.append(f"retry-config={p}")
    y = service_yaml(spec)
    if y is not None and (not o.get("ads") or "yaml" in (spec.get("extras") or {})):
        import yaml
        p = os.path.join(workdir, f"service_{spec['idx']}.yaml")
        with open(p, "w") as fh:
            yaml.safe_dump(y, fh)
        params.append(f"service-yaml={p}")
    req = apigen.request(allf, ",".join(params), targets=targets)
    return req.SerializeToString(), req


# ----------------------------------------------------------------------------------------- observables
HELPER_RE = re.compile(r"^    def (\w+)_path\((.*?)\) -> str:\n(?:.*\n)??\s+return \"(.*?)\"\.format\(", re.M)
RETRY_RE = re.compile(r"predicate=retries\.if_exception_type\(\s*((?:core_exceptions\.\w+,\s*)+)\)", re.M)


def helper_order(content):
    """patterns of the non-common `<x>_path` helpers in the order the client defines them"""
    out = []
    for m in HELPER_RE.finditer(content):
        if m.group(1).startswith(("parse_", "common_")):
            continue
        out.append(m.group(3))
    return out


def retry_lists(content):
    return [re.findall(r"core_exceptions\.(\w+)", m.group(1)) for m in RETRY_RE.finditer(content)]


def short_key(rtype):
    """Jinja `|sort(attribute="resource_type")` key: MessageType.resource_type, case-folded by do_sort"""
    return rtype[rtype.find("/") + 1:].lower()


def equal_key_groups(types):
    g = {}
    for t in types:
        g.setdefault(short_key(t), []).append(t)
    return sorted(sorted(v) for v in g.values() if len(v) > 1)


def diff_summary(a: plugin_pb2.CodeGeneratorResponse, b: plugin_pb2.CodeGeneratorResponse):
    fa = {f.name: f.content for f in a.file}
    fb = {f.name: f.content for f in b.file}
    out = {"only_a": sorted(set(fa) - set(fb)), "only_b": sorted(set(fb) - set(fa)), "files": [], "file_order": None}
    if [f.name for f in a.file] != [f.name for f in b.file] and set(fa) == set(fb):
        out["file_order"] = "differs"
    for n in sorted(set(fa) & set(fb)):
        if fa[n] != fb[n]:
            la, lb = fa[n].split("\n"), fb[n].split("\n")
            out["files"].append({"name": n, "reorder_only": sorted(la) == sorted(lb),
                                 "first": next(((x, y) for x, y in itertools.zip_longest(la, lb) if x != y), None)})
    return out


def file_kind(name):
    base = name.rsplit("/", 1)[-1]
    if "/services/" in name:
        return "services/" + ("transports/" if "/transports/" in name else "") + base
    if "/types/" in name:
        return "types/*"
    if name.startswith("tests/"):
        return "tests/" + re.sub(r"test_\w+\.py", "test_<service>.py", base)
    if name.startswith("samples/"):
        return "samples/*"
    if name.startswith("docs/"):
        return "docs/*"
    return base


def classify(spec_types_by_service, summary):
    """signature key of a determinism failure (no key is special: the one known finding, F4, is repaired)"""
    if summary["only_a"] or summary["only_b"] or summary["file_order"]:
        return "file-set-or-order"
    kinds = sorted({file_kind(f["name"]) for f in summary["files"]})
    return "nondeterministic:" + ",".join(kinds[:2]) + (",+%d" % (len(kinds) - 2) if len(kinds) > 2 else "")


# ----------------------------------------------------------------------------------------- runs
ENVS = [{}, {"LANG": "C", "LC_ALL": "C", "TZ": "UTC"}, {"LANG": "en_US.UTF-8", "TZ": "Asia/Tokyo", "COLUMNS": "40"},
        {"LANG": "tr_TR.UTF-8", "LC_ALL": "tr_TR.UTF-8", "TZ": "America/St_Johns", "HOME": "/nonexistent"},
        {"LC_ALL": "POSIX", "PYTHONDONTWRITEBYTECODE": "1", "TMPDIR": "/var/tmp", "USER": "nobody"}]


# wall-clock instants (seconds since the epoch) for the clock-shifted processes: other years in both directions, a leap
# day, the last second of a year (local date = 31 Dec or 1 Jan depending on TZ), beyond 2**31, another century, and the
# same day at another hour.  The process's clock is moved by harness/genrun_child.py (VERIF_FAKE_EPOCH).
CLOCK_FAR = [946684799,      # 1999-12-31T23:59:59Z
             1709210096,     # 2024-02-29T12:34:56Z
             1813036000,     # 2027-06-15
             1893456000,     # 2030-01-01T00:00:00Z
             2150000000,     # 2038-02-17 (> 2**31)
             4107542400]     # 2100-03-01
CLOCK_EDGE = 1798761599      # 2026-12-31T23:59:59Z: 2027 in Asia/Tokyo, 2026 in America/St_Johns
CLOCK_KEY = "VERIF_FAKE_EPOCH"


def is_clock_run(entry):
    return CLOCK_KEY in (entry[2] or {})


def clock_schedules(r, base, nclock):
    """`nclock` processes that differ from process 0 (`base`: same hash seed, same cwd, same environment) ONLY in the
    wall-clock time they see: one far shift (another year), the year-boundary instant under two time zones, further far
    shifts, a shift inside the current day."""
    import time
    far = r.sample(CLOCK_FAR, len(CLOCK_FAR))
    now = int(time.time())
    cands = [{CLOCK_KEY: str(far[0])},
             {CLOCK_KEY: str(CLOCK_EDGE), "TZ": "Asia/Tokyo"},
             {CLOCK_KEY: str(CLOCK_EDGE), "TZ": "America/St_Johns"},
             {CLOCK_KEY: str(far[1])},
             {CLOCK_KEY: str(now - now % 86400 + r.randrange(86400))},
             {CLOCK_KEY: str(far[2])}]
    return [[base[0], base[1], {**(base[2] or {}), **c}] for c in cands[:nclock]]


def schedules(ctx, r, workdir, nseeds, nclock=None):
    """[hash seed, cwd, extra environment] per process: distinct PYTHONHASHSEEDs (incl. `random`), three working
    directories, different locale / time zone / HOME; the first seed is run twice (wall-clock varies by itself, by
    seconds); then `nclock` processes whose clock is SHIFTED (other year / day / hour), everything else as in process 0"""
    d1 = os.path.join(workdir, "cwd_a"); d2 = os.path.join(workdir, "cwd_b", "deeper")
    os.makedirs(d1, exist_ok=True); os.makedirs(d2, exist_ok=True)
    seeds = [0] + r.sample(range(1, 4000), nseeds - 2) + ["random"]
    out = [[str(s), (d1 if i % 2 == 0 else d2), ENVS[i % len(ENVS)]] for i, s in enumerate(seeds)]
    out.append([str(seeds[0]), "/", ENVS[1]])
    nclock = ctx.n(2, 3) if nclock is None else nclock
    # a separate stream: the hash seeds drawn above (and everything drawn from `r` afterwards) stay what they were
    out += clock_schedules(apigen.Rng(f"clock:{seeds[1:-1]}"), out[0], nclock)
    return out


def run_many(jobs, workers=None):
    """jobs: [(req_bytes, seed, cwd, env)] -> [(rc, out, err)] in order, in parallel"""
    workers = workers or max(2, min(12, (os.cpu_count() or 4) - 2))
    with cf.ThreadPoolExecutor(max_workers=workers) as ex:
        futs = [ex.submit(genrun.generate_subproc, b, {**(e or {}), "PYTHONHASHSEED": s}, c, 900) for (b, s, c, e) in jobs]
        return [f.result() for f in futs]


def topo_permuted(req, r):
    """the same request with `proto_file` in another order that protoc could legally have produced
    (every file after its dependencies)"""
    files = list(req.proto_file)
    by_name = {f.name: f for f in files}
    done, out = set(), []
    pending = files[:]
    while pending:
        ready = [f for f in pending if all(d in done or d not in by_name for d in f.dependency)]
        f = r.pick(ready)
        out.append(f); done.add(f.name); pending.remove(f)
    q = plugin_pb2.CodeGeneratorRequest()
    q.CopyFrom(req)
    del q.proto_file[:]
    q.proto_file.extend(out)
    return q


def params_permuted(req, r):
    q = plugin_pb2.CodeGeneratorRequest()
    q.CopyFrom(req)
    ps = req.parameter.split(",")
    r.shuffle(ps)
    q.parameter = ",".join(ps)
    return q


def ask(ctx, ops):
    """driver round trip; the native driver is re-linked whenever another property's check rebuilds it
    (several builders share lean/.lake): wait and retry instead of reporting an infrastructure error"""
    import time
    for attempt in range(40):
        try:
            return ctx.driver.ask(ops)
        except (FileNotFoundError, PermissionError, OSError, RuntimeError) as e:
            last = e
            time.sleep(3)
    raise last


# ----------------------------------------------------------------------------------------- inventory (T1-style tie)
THEOREMS_FOR_CLASS = {
    "S1": ["sort_lines_perm_invariant", "sorted_perm_invariant", "sort_total_order_perm_invariant", "subpackages_order_free",
           "subpackage_names_own_level"],
    "S2": ["sort_by_key_perm_invariant", "sort_by_key_needs_injective", "retry_order_free", "query_params_order_free",
           "resource_helpers_order_free", "resource_helpers_f4_regression"],
    "S3": ["s3_mem_perm_invariant", "s3_length_perm_invariant", "disambiguate_perm_invariant", "module_collides_perm_invariant"],
    "S4": ["s4_chain", "import_block_order_free", "colliding_module_perm_invariant"],
    "S5": ["pipeline_order_free", "oauth_scopes_keep_declaration_order", "dict_key_order", "dict_update_key_order", "dict_last_writer_wins",
           "methods_from_service_yaml_order", "methods_from_service_table_order_free", "mixin_api_methods_yaml_order",
           "mixin_api_methods_order_function_of_yaml_order", "mixin_dicts_share_key_order", "http_options_yaml_order",
           "all_method_settings_is_yaml_list", "response_file_order", "chain_map_key_order", "dictsort_insertion_order_free"],
}


def describe_diff(new, gone):
    """one line per moved site, so that a maintainer can tell a harmless re-pin (the text of an existing site
    was edited) from a real new iteration/impurity site:
      REWRITTEN <file>::<def>::<kind>: `<old text>` -> `<new text>`     same place and kind, text changed
      ADDED     <site>                                                    no pinned counterpart: classify it
      REMOVED   <site>                                                    pinned site no longer in the source"""
    def parts(k):
        f, w, kind, text = k.split("::", 3)
        return (f, w, kind), text
    g_new, g_gone = {}, {}
    for k in new:
        a, t = parts(k); g_new.setdefault(a, []).append(t)
    for k in gone:
        a, t = parts(k); g_gone.setdefault(a, []).append(t)
    out = []
    for a in sorted(set(g_new) | set(g_gone)):
        n, g = g_new.get(a, []), g_gone.get(a, [])
        head = "::".join(a)
        for old_t, new_t in zip(g, n):
            out.append(f"REWRITTEN {head}: `{old_t}` -> `{new_t}`")
        for t in n[len(g):]:
            out.append(f"ADDED {head}::{t}  (no pinned counterpart: a new set/sort/impurity site to classify)")
        for t in g[len(n):]:
            out.append(f"REMOVED {head}::{t}")
    return out


def check_inventory(ctx):
    """scan(/repo) must equal the pinned inventory; every class used must have its theorems discharged"""
    from props import c10_scan
    scanned, attrs = c10_scan.scan()
    pinned = c10_scan.load_pinned()
    new, gone = c10_scan.compare(scanned, pinned["sites"])
    classes = {}
    for k, v in pinned["sites"].items():
        classes[v["class"]] = classes.get(v["class"], 0) + 1
    ctx.notes["inventory"] = {"sites_scanned": len(scanned), "sites_pinned": len(pinned["sites"]), "by_class": classes,
                              "new_sites": new[:20], "missing_sites": gone[:20], "root": c10_scan.repo_root()}
    ok_sites = not new and not gone
    moved = describe_diff(new, gone)
    ctx.notes["inventory"]["moved"] = moved
    detail = "scan == pinned inventory (%d sites)" % len(scanned) if ok_sites else \
        f"{len(new)} new/changed site(s), {len(gone)} pinned site(s) gone: " + " || ".join(moved[:40])
    ok_attrs = attrs == pinned.get("set_valued_names")
    bad_cls = sorted(c for c in classes if c not in ("S1", "S2", "S3", "S4", "S5", "N", "I"))
    obligations = [("inventory:sites", ok_sites, detail),
                   ("inventory:set-valued-names", ok_attrs, "set-valued attributes: " + json.dumps(attrs)[:200]),
                   ("inventory:classes", not bad_cls, "unknown classes " + str(bad_cls) if bad_cls else "every site is classified S1..S5/N/I")]
    if ctx.lean is not None:
        have = {o["name"].split(".")[-1]: o["ok"] for o in ctx.lean.obligations if o["kind"] == "theorem"}
        for cls, thms in THEOREMS_FOR_CLASS.items():
            if classes.get(cls):
                missing = [t for t in thms if not have.get(t)]
                obligations.append((f"inventory:class-{cls}-proved", not missing,
                                    f"{classes[cls]} site(s); theorems {thms}" + (f" MISSING/unproved {missing}" if missing else "")))
        for name, ok, det in obligations:
            ctx.lean.add(name, "inventory", ok, det)
            if not ok:
                print(f"broken obligation: {name} (inventory): {det}")
    else:
        for name, ok, det in obligations:
            if not ok:
                ctx.disagree("T1:" + name, det, {"new": new[:5], "gone": gone[:5]})
    return ok_sites


# ----------------------------------------------------------------------------------------- T2
class _Obj:
    def __init__(self, **kw):
        self.__dict__.update(kw)


def _env():
    genrun._stub_pandoc()
    from gapic.generator.generator import Generator
    from gapic.utils import Options
    import warnings
    with warnings.catch_warnings():
        warnings.simplefilter("ignore")
        return Generator(Options.build("transport=grpc"))._env


TEXT_ALPHABET = ["a", "b", "B", "import x", "from y import z", "  indented", "z", "_", "é", "A", "aa", "ab", "a b", "\t", " ",
                 " ", " ", "#c", "0", "~", "from a import b as c", "\x0c", "\x1f"]


def t2_functions(ctx, r):
    from gapic.utils.lines import sort_lines
    env = _env()
    # ---- S1 sort_lines
    texts = ["", "\n", "a", "\n\n", "b\na\n", "\nb\n\na\nb", " \n \n", "x\n \ny", "a\n\x0cb\n"]
    for _ in range(ctx.n(150, 1500)):
        n = r.randint(0, 9)
        parts = [r.pick(TEXT_ALPHABET) if r.maybe(0.8) else "".join(r.pick(TEXT_ALPHABET) for _ in range(r.randint(0, 3))) for _ in range(n)]
        t = "\n".join(parts)
        if r.maybe(0.3): t = "\n" + t
        if r.maybe(0.3): t = t + "\n"
        if r.maybe(0.1): t = " " + t
        texts.append(t)
    ops, meta = [], []
    for t in texts:
        for d in (True, False):
            ops.append({"op": "c10.sort_lines", "text": t, "dedupe": d}); meta.append((t, d))
    for (t, d), mo in zip(meta, ask(ctx, ops)):
        real = sort_lines(t, dedupe=d)
        ctx.case(distinct_key=["sort_lines", t, d], nontrivial=bool(t.strip()))
        ctx.traces += 1
        if mo.get("r") != real:
            ctx.disagree("T2:c10.sort_lines", f"model {mo.get('r')!r} vs impl {real!r}", {"text": t, "dedupe": d})
        # oracle (restating S1): result lines sorted, unique when dedupe, same members
        body = real.strip("\n").split("\n") if real.strip("\n") else []
        if body != sorted(body) or (d and len(set(body)) != len(body)):
            ctx.fail("sort_lines-not-canonical", f"sort_lines output not sorted/unique: {real!r}", {"text": t, "dedupe": d, "via": "function-level"})
    # ---- S2 Jinja |sort(attribute=) and |sort, through the generator's own environment; every permutation of small sets
    tpl_attr = env.from_string('{% for x in xs|sort(attribute="k") %}{{ x.i }},{% endfor %}')
    tpl_plain = env.from_string('{% for x in xs|sort %}{{ x }},{% endfor %}')
    keypool = ["Thing", "thing", "Book", "book_shelf", "BookShelf", "a", "B", "b", "Zeta", "alpha", "ALPHA", "x_1", "X1", "é"[0:0] + "e"]
    ops, meta = [], []
    for _ in range(ctx.n(60, 600)):
        n = r.randint(0, 5)
        items = [[r.pick(keypool), f"i{j}"] for j in range(n)]
        r.shuffle(items)
        ops.append({"op": "c10.sort_by_key", "items": items, "fold": True}); meta.append(("attr", items))
        ops.append({"op": "c10.sort_by_key", "items": items, "fold": False}); meta.append(("sorted", items))
    for (how, items), mo in zip(meta, ask(ctx, ops)):
        ctx.case(distinct_key=["sort_by_key", how, items], nontrivial=len(items) > 1)
        ctx.traces += 1
        objs = [_Obj(k=k, i=i) for k, i in items]
        if how == "attr":
            real = [x for x in tpl_attr.render(xs=objs).split(",") if x]
            outs = {tuple(x for x in tpl_attr.render(xs=list(p)).split(",") if x) for p in itertools.permutations(objs)}
        else:
            real = [o.i for o in sorted(objs, key=lambda o: o.k)]
            outs = {tuple(o.i for o in sorted(p, key=lambda o: o.k)) for p in itertools.permutations(objs)}
        if mo.get("order") != real:
            ctx.disagree(f"T2:c10.sort_by_key[{how}]", f"model {mo.get('order')} vs impl {real}", {"items": items})
        if {tuple(o) for o in mo.get("outcomes") or []} != outs:
            ctx.disagree(f"T2:c10.outcomes[{how}]", f"model outcomes {mo.get('outcomes')} vs impl {sorted(outs)}", {"items": items})
        keys = [k.lower() if how == "attr" else k for k, _ in items]
        if mo.get("injective") != (len(set(keys)) == len(keys)) or (mo.get("injective") and len(outs) != 1):
            ctx.disagree(f"T2:c10.injective[{how}]", f"model injective={mo.get('injective')} outcomes={len(outs)}", {"items": items})
    # plain |sort over strings == sort_by_key with key = the string itself (folded)
    ops, meta = [], []
    for _ in range(ctx.n(30, 300)):
        xs = r.sample(keypool, r.randint(0, 6))
        ops.append({"op": "c10.sort_by_key", "items": [[x, x] for x in xs], "fold": True}); meta.append(xs)
    for xs, mo in zip(meta, ask(ctx, ops)):
        real = [x for x in tpl_plain.render(xs=xs).split(",") if x]
        ctx.case(distinct_key=["jinja_sort", xs], nontrivial=len(xs) > 1); ctx.traces += 1
        if mo.get("order") != real:
            ctx.disagree("T2:c10.jinja_sort", f"model {mo.get('order')} vs impl {real}", {"xs": xs})
    # ---- S5 Service.oauth_scopes on the real wrapper (option strings with blanks, empty entries, duplicates)
    # (real Service objects out of API.build: one API with one service per option string)
    from google.api import client_pb2
    sf = apigen.File("acme/scopes/v1/scopes.proto", "acme.scopes.v1")
    em = sf.msg("Ping"); em.field("name")
    opts_ = []
    for k in range(ctx.n(40, 300)):
        parts = [r.pick(["a", "https://x/y", " b", "c ", "", " ", "a", "\tz", "Q", "a b"]) for _ in range(r.randint(0, 5))]
        opt = ",".join(parts)
        so = sf.service(f"S{k}", scopes=())
        so.method("Ping", em, em)
        so.pb.options.Extensions[client_pb2.oauth_scopes] = opt
        opts_.append(opt)
    sapi, _ = genrun.build_api(apigen.request([sf], "transport=grpc,autogen-snippets=false"))
    ops, meta = [], []
    for k, opt in enumerate(opts_):
        svc = sapi.services[f"acme.scopes.v1.S{k}"]
        ops.append({"op": "c10.scopes", "opt": opt}); meta.append((opt, list(svc.oauth_scopes)))
    for (opt, real), mo in zip(meta, ask(ctx, ops)):
        ctx.case(distinct_key=["oauth_scopes", opt], nontrivial=bool(opt)); ctx.traces += 1
        if mo.get("r") != real:
            ctx.disagree("T2:c10.oauth_scopes", f"model {mo.get('r')} vs impl {real}", {"opt": opt})
    # ---- exception class table of the S2 instance theorem
    import grpc
    from google.api_core import exceptions
    table = set(ask(ctx, [{"op": "c10.exceptions"}])[0]["names"])
    real_names = {exceptions.exception_class_for_grpc_status(c).__name__ for c in grpc.StatusCode}
    ctx.traces += 1
    if not real_names <= table:
        ctx.disagree("T2:c10.exception_table", f"installed api_core yields classes outside the pinned table: {sorted(real_names - table)}", {})
    if len({n.lower() for n in real_names}) != len(real_names):
        ctx.fail("retry-sort-key-collision", f"exception class names collide up to case: {sorted(real_names)}", {"via": "function-level"})


_LOOP = {}


def helper_loop_expr():
    """the iterable of the resource-helper loop, read from the repo's CURRENT client.py.j2 (so that T2 runs the
    expression the templates really use, through the generator's own Jinja environment)"""
    if "expr" not in _LOOP:
        root = os.environ.get("VERIF_REPO", "/repo")
        path = os.path.join(root, "gapic", "templates", "%namespace", "%name_%version", "%sub", "services", "%service", "client.py.j2")
        with open(path, encoding="utf-8") as fh:
            m = re.search(r"\{%-?\s*for message in (service\.resource_messages[^%]*?)\s*-?%\}", fh.read())
        if not m:
            raise RuntimeError("client.py.j2 no longer has a `for message in service.resource_messages…` loop")
        _LOOP["expr"] = m.group(1)
    return _LOOP["expr"]


def t2_schema(ctx, r, req, spec):
    """T2 on the real schema objects of one API: the set-valued attributes feed both the real consumer
    (template expression / method) and the model; permutations are applied on both sides."""
    env = _env()
    api, _ = genrun.build_api(req)
    tpl_res = env.from_string('{% for m in ' + helper_loop_expr().replace("service.resource_messages", "ms") + ' %}{{ m.resource_path }}\x00{% endfor %}')
    tpl_q = env.from_string('{% for p in qs|sort %}{{ p }},{% endfor %}')
    tpl_imp = env.from_string('{% filter sort_lines %}\n{% for l in ls %}{{ l }}\n{% endfor %}{% endfilter %}')
    per_service = {}
    ops, checks = [], []
    for sname, svc in api.services.items():
        real_set = list(svc.resource_messages)
        res = [[m.resource_type_full_path, m.resource_path] for m in real_set]
        per_service[svc.name] = res
        for _ in range(3):
            perm = list(range(len(res))); r.shuffle(perm)
            ops.append({"op": "c10.resources", "resources": [res[i] for i in perm]})
            real = [x for x in tpl_res.render(ms=[real_set[i] for i in perm]).split("\x00") if x]
            checks.append(("resources", real, [real_set[i].resource_type for i in perm], {"resources": [res[i] for i in perm]}))
        for m in list(svc.methods.values())[:4]:
            if m.http_opt is None:
                continue
            fields = list(m.input.fields)
            body = m.http_opt.get("body")
            if body == "*":
                continue
            r.shuffle(fields)
            from gapic.utils import RESERVED_NAMES
            pparams = [p + "_" if p in RESERVED_NAMES else p for p in m.path_params]     # as Method.query_params does
            ops.append({"op": "c10.query_params", "fields": fields, "path": pparams, "body": body})
            real = [x for x in tpl_q.render(qs=m.query_params).split(",") if x]
            checks.append(("query_params", real, None, {"fields": fields, "path": pparams, "body": body}))
        # Service.names: module names imported from more than one package
        types = []
        for m in svc.methods.values():
            for t in m.ref_types:
                types.append([".".join(t.ident.package), t.ident.module])
        r.shuffle(types)
        mods = sorted({t[1] for t in types})
        if mods:
            base = {svc.name, svc.client_name, svc.async_client_name} | {__import__("gapic.utils", fromlist=["x"]).to_snake_case(i.name) for i in svc.methods.values()}
            ops.append({"op": "c10.colliding", "types": types, "modules": mods})
            checks.append(("colliding", [(mm in svc.names) or (mm in base) for mm in mods], [mm in base for mm in mods], {"types": types, "modules": mods}))
        # import block lines through the real filter
        lines = []
        for m in svc.methods.values():
            lines += [str(t.ident.python_import) for t in m.ref_types]
        r.shuffle(lines)
        if lines:
            ops.append({"op": "c10.import_block", "fixed": lines, "refs": []})
            checks.append(("import_block", [x for x in tpl_imp.render(ls=lines).split("\n") if x], None, {"lines": lines}))
    for pname, proto in list(api.protos.items()):
        if not proto.file_to_generate:
            continue
        names = list(proto.names)
        r.shuffle(names)
        for s in (names[:3] + ["zzz_unused", "_" + names[0] if names else "x"]):
            ops.append({"op": "c10.disambiguate", "names": names, "s": s})
            checks.append(("disambiguate", proto.disambiguate(s), None, {"names": names, "s": s}))
    # ChainMaps over the protos' dicts (`for service in api.services.values()`): iteration order on the real objects
    for what, cm in (("services", api.services), ("messages", api.messages), ("enums", api.enums)):
        ops.append({"op": "c10.chain_map", "maps": [list(mp) for mp in cm.maps]})
        checks.append(("chain_map", list(cm), None, {"what": what}))
    out = ask(ctx, ops)
    for (what, real, extra, payload), mo in zip(checks, out):
        ctx.traces += 1
        ctx.count("t2_schema", what)
        if what == "resources":
            if mo.get("order") != real or mo.get("short") != extra:
                ctx.disagree("T2:c10.resources", f"model order {mo.get('order')} short {mo.get('short')} vs impl {real} / {extra}", payload)
        elif what == "colliding":
            got = [a or b for a, b in zip(mo.get("r", []), extra)]
            if got != real:
                ctx.disagree("T2:c10.colliding", f"model {got} vs impl {real}", payload)
        elif what == "chain_map":
            if mo.get("keys") != real:
                ctx.disagree("T2:c10.chain_map", f"api.{payload['what']}: model {str(mo.get('keys'))[:200]} vs impl {str(real)[:200]}", payload)
        elif mo.get("r") != real:
            ctx.disagree(f"T2:c10.{what}", f"model {mo.get('r')} vs impl {real}", payload)
    return api, per_service


# ----------------------------------------------------------------------------------------- round 2: dicts
def t2_dicts(ctx, r):
    """Python's dict / Jinja's dictsort vs the Lean OMap, function level"""
    env = _env()
    tpl_ds = env.from_string('{% for k, v in d|dictsort %}{{ v }},{% endfor %}')
    keypool = ["a", "b", "B", "GetOperation", "ListOperations", "getoperation", "x.y.Z", "x.y.z", "", "k1", "k2", "K1", "é"]
    ops, meta = [], []
    for _ in range(ctx.n(80, 800)):
        pairs = [[r.pick(keypool), f"v{j}"] for j in range(r.randint(0, 7))]
        more = [[r.pick(keypool), f"w{j}"] for j in range(r.randint(0, 4))]
        probe = r.sample(keypool, 3)
        ops.append({"op": "c10.omap", "pairs": pairs, "more": more, "probe": probe}); meta.append((pairs, more, probe))
    for (pairs, more, probe), mo in zip(meta, ask(ctx, ops)):
        d = {k: v for k, v in pairs}
        d = {**d, **{k: v for k, v in more}} if len(pairs) % 2 else (d.update(more) or d)
        ctx.case(distinct_key=["omap", pairs, more], nontrivial=len(pairs) + len(more) > 1); ctx.traces += 1
        if mo.get("keys") != list(d) or mo.get("items") != [[k, v] for k, v in d.items()] or mo.get("get") != [d.get(k) for k in probe]:
            ctx.disagree("T2:c10.omap", f"model {mo} vs dict {list(d.items())}", {"pairs": pairs, "more": more})
    ops, meta = [], []
    for _ in range(ctx.n(40, 400)):
        ks = r.sample(keypool, r.randint(0, 6))
        ops.append({"op": "c10.dictsort", "items": [[k, str(i)] for i, k in enumerate(ks)]}); meta.append(ks)
    for ks, mo in zip(meta, ask(ctx, ops)):
        real = [x for x in tpl_ds.render(d={k: str(i) for i, k in enumerate(ks)}).split(",") if x]
        ctx.case(distinct_key=["dictsort", ks], nontrivial=len(ks) > 1); ctx.traces += 1
        if mo.get("order") != real:
            ctx.disagree("T2:c10.dictsort", f"model {mo.get('order')} vs jinja {real}", {"keys": ks})


_TABLES = {}


def mixin_tables():
    """the (fqn, name) tables `_get_methods_from_service` builds from the three mixin modules' descriptors"""
    if not _TABLES:
        from google.cloud.location import locations_pb2
        from google.iam.v1 import iam_policy_pb2
        from google.longrunning import operations_pb2
        for key, mod in (("loc", locations_pb2), ("iam", iam_policy_pb2), ("ops", operations_pb2)):
            t = []
            for sname in mod.DESCRIPTOR.services_by_name:
                svc = mod.DESCRIPTOR.services_by_name[sname]
                for m in svc.methods:
                    t.append([f"{mod.DESCRIPTOR.package}.{svc.name}.{m.name}", m.name])
            _TABLES[key] = t
    return _TABLES


def binding_json(rule):
    pat = rule.WhichOneof("pattern")
    uri = "" if pat is None else (rule.custom.path if pat == "custom" else getattr(rule, pat))
    return {"verb": pat or "", "uri": uri, "body": rule.body}


def rules_json(cfg):
    """`service_yaml_config.http.rules` as the generator sees them (after ParseDict), for the model"""
    return [{"selector": ru.selector, **binding_json(ru), "additional": [binding_json(b) for b in ru.additional_bindings]}
            for ru in cfg.http.rules]


def dict_observables(api):
    """the real dicts, as ordered lists"""
    from google.api import annotations_pb2
    out = {"has": [api.has_location_mixin, api.has_iam_mixin, api.has_operations_mixin], "iam_overrides": api._has_iam_overrides}
    mm = api.mixin_api_methods
    out["methods"] = [[k, binding_json(v.options.Extensions[annotations_pb2.http])["uri"]] for k, v in mm.items()]
    out["signatures"] = [k for k, v in api.mixin_api_signatures.items()]
    out["sig_names"] = [v.name for v in api.mixin_api_signatures.values()]
    out["http_options"] = [[k, [[x.method, x.uri, x.body or ""] for x in v]] for k, v in api.mixin_http_options.items()]
    out["api_http_options"] = [[k, [[x.method, x.uri, x.body or ""] for x in v]] for k, v in api.http_options.items()]
    return out


def settings_observables(api):
    from gapic.schema.api import MethodSettingsError
    cfg = api.service_yaml_config
    entries = []
    for ms in cfg.publishing.method_settings:
        try:
            api.enforce_valid_method_settings([ms]); ok = True
        except MethodSettingsError:
            ok = False
        # (the copy made by all_method_settings always HAS the long_running field — it is passed to the constructor —, so
        # presence is compared by content)
        entries.append({"selector": ms.selector, "long_running": ms.long_running.ByteSize() > 0, "fields": list(ms.auto_populated_fields), "valid": ok})
    try:
        real = {"raises": False, "items": [[k, v.selector, v.long_running.ByteSize() > 0, list(v.auto_populated_fields)] for k, v in api.all_method_settings.items()]}
    except MethodSettingsError:
        real = {"raises": True}
    return entries, real


def yaml_variants(r, api, n):
    """the same API under `n` re-ordered / perturbed service yamls (new API objects; the schema is shared):
    rules, apis and method settings shuffled, a selector repeated, a rule's pattern cleared, a setting duplicated"""
    import dataclasses
    from google.api import service_pb2

    def copies(xs):
        out_ = []
        for x in xs:
            y = type(x)(); y.CopyFrom(x); out_.append(y)
        return out_
    out = [("as-generated", api)]
    for k in range(n):
        cfg = service_pb2.Service(); cfg.CopyFrom(api.service_yaml_config)
        rules = copies(cfg.http.rules); r.shuffle(rules)
        how = r.pick(["shuffle", "shuffle", "repeat-selector", "clear-pattern", "duplicate-setting", "drop-api", "custom"])
        if rules and how == "repeat-selector":
            x = type(rules[0])(); x.CopyFrom(r.pick(rules)); x.get = "/v3/{name=again/*}"; rules.insert(r.randint(0, len(rules)), x)
        if rules and how == "clear-pattern":
            x = r.pick(rules); x.ClearField(x.WhichOneof("pattern")) if x.WhichOneof("pattern") else None
            if not x.additional_bindings:                       # keep the emitted library sane: [0] of an empty list would raise
                x.additional_bindings.add(get="/v4/{name=fallback/*}")
        if rules and how == "custom":
            x = r.pick(rules).additional_bindings.add(); x.custom.kind = "HEAD"; x.custom.path = "/v5/{name=heads/*}"
        del cfg.http.rules[:]; cfg.http.rules.extend(rules)
        apis = copies(cfg.apis); r.shuffle(apis)
        if apis and how == "drop-api":
            apis.pop()
        del cfg.apis[:]; cfg.apis.extend(apis)
        ms = copies(cfg.publishing.method_settings); r.shuffle(ms)
        if ms and how == "duplicate-setting":
            ms.insert(r.randint(0, len(ms)), r.pick(ms))
        del cfg.publishing.method_settings[:]; cfg.publishing.method_settings.extend(ms)
        out.append((how, dataclasses.replace(api, service_yaml_config=cfg)))
    return out


def t2_yaml_dicts(ctx, r, api, payload):
    """T2 on the real API object: mixin / http-option / method-settings dicts vs the model; the model gets the descriptor
    tables in a shuffled order (it must not matter) and the yaml lists exactly as the generator parsed them"""
    tables = mixin_tables()
    sm = [list(svc.methods) for svc in api.services.values()]
    ops, meta = [], []
    for how, a in yaml_variants(r, api, ctx.n(3, 6)):
        cfg = a.service_yaml_config
        t = {k: r.sample(v, len(v)) for k, v in tables.items()}
        ops.append({"op": "c10.mixins", "tables": t, "apis": [x.name for x in cfg.apis], "service_methods": sm, "rules": rules_json(cfg)})
        meta.append(("mixins", how, a, None))
        entries, real = settings_observables(a)
        ops.append({"op": "c10.method_settings", "settings": entries})
        meta.append(("settings", how, a, real))
    for (what, how, a, real), mo in zip(meta, ask(ctx, ops)):
        ctx.traces += 1
        ctx.count("t2_yaml", f"{what}:{how}")
        if what == "mixins":
            real = dict_observables(a)
            ctx.count("mixin_methods", min(len(real["methods"]), 9))
            ctx.case(distinct_key=["mixins", json.dumps(rules_json(a.service_yaml_config)), [x.name for x in a.service_yaml_config.apis]],
                     nontrivial=len(real["methods"]) > 1)
            for k in ("has", "iam_overrides", "methods", "signatures", "http_options", "api_http_options"):
                if mo.get(k) != real[k]:
                    ctx.disagree(f"T2:c10.mixins.{k}", f"[{how}] model {str(mo.get(k))[:300]} vs impl {str(real[k])[:300]}",
                                 {**payload, "variant": how, "rules": rules_json(a.service_yaml_config)})
            if mo.get("spec") != [k for k, _ in real["methods"]]:
                ctx.disagree("T2:c10.mixins.closed-form", f"[{how}] closed form {mo.get('spec')} vs impl {[k for k, _ in real['methods']]}", payload)
            if real["sig_names"] != real["signatures"]:
                ctx.disagree("T2:c10.mixins.signature-table", f"MIXINS_MAP[name].name != name: {real['sig_names']} vs {real['signatures']}", payload)
        else:
            ctx.case(distinct_key=["settings", json.dumps(real, sort_keys=True), how], nontrivial=not real["raises"] and len(real.get("items", [])) > 1)
            if mo != real:
                ctx.disagree("T2:c10.method_settings", f"[{how}] model {str(mo)[:300]} vs impl {str(real)[:300]}", {**payload, "variant": how})


WRAP_RE = re.compile(r"^            self\.(\w+): gapic_v1\.method(?:_async)?\.wrap_method\(", re.M)
BASECLS_RE = re.compile(r"^    class _Base(\w+):", re.M)
OPSOPT_RE = re.compile(r"^ +'(google\.longrunning\.Operations\.\w+)': \[", re.M)


def observe_dicts(ctx, spec, sched, outs, ra, api, payload):
    """T3 for the unsorted dict loops, on EVERY process's response: the order of the wrapped mixin methods
    (transports/base.py: `for method_name in api.mixin_api_methods.keys()`), of the `_Base<Name>` classes
    (rest_base.py: `for name, sig in api.mixin_api_signatures.items()`), of the operations client's http_options literal
    (rest.py: `for selector, rules in api.http_options.items()`) == the model's key order."""
    cfg = api.service_yaml_config
    if not cfg.http.rules and not cfg.apis:
        return
    # the templates of a service are rendered with the VIEW of the API for the service's sub-package (API.subpackages):
    # `_has_iam_overrides` looks at the view's services only, so the model is asked once per view
    by_dir, subs = {}, []
    for svc in api.services.values():
        sub = tuple(svc.meta.address.subpackage)
        by_dir[snake(svc.name)] = sub
        if sub not in subs:
            subs.append(sub)
    views = {sub: view_of(api, sub) for sub in subs}
    mos = ask(ctx, [{"op": "c10.mixins", "tables": mixin_tables(), "apis": [x.name for x in cfg.apis],
                     "service_methods": [list(svc.methods) for svc in views[sub].services.values()], "rules": rules_json(cfg)} for sub in subs])
    want_by = {}
    for sub, mo in zip(subs, mos):
        want = [k for k, _ in mo["methods"]]
        want_by[sub] = (want, [snake(k) for k in want], [k for k, _ in mo["api_http_options"] if k.startswith("google.longrunning.Operations")])
        ctx.count("t3_mixin_methods", min(len(want), 9))
    for k, o in enumerate(outs):
        resp = ra if k == 0 else plugin_pb2.CodeGeneratorResponse.FromString(o[1])
        for f in resp.file:
            n, c = f.name, f.content
            if "/services/" not in n or "/transports/" not in n:
                continue
            sdir = n.split("/services/", 1)[1].split("/", 1)[0]
            if sdir not in by_dir:
                continue
            want, want_snake, want_ops = want_by[by_dir[sdir]]
            if n.endswith("/transports/base.py"):
                got = [m for m in WRAP_RE.findall(c)]
                tail = got[len(got) - len(want_snake):] if want_snake else []
                ctx.traces += 1
                if tail != want_snake:
                    ctx.disagree("T3:c10.mixin_wrap_order", f"{n}: wrapped methods end with {got[-len(want_snake) - 1:]}, model order {want_snake}",
                                 {**payload, "seed": sched[k][0]})
            elif n.endswith("/transports/rest_base.py"):
                got = [m for m in BASECLS_RE.findall(c) if m in want]
                ctx.traces += 1
                if got != want:
                    ctx.disagree("T3:c10.mixin_rest_class_order", f"{n}: _Base<mixin> classes in order {got}, model {want}", {**payload, "seed": sched[k][0]})
            elif n.endswith("/transports/rest.py") and "def operations_client" in c:
                got = OPSOPT_RE.findall(c.split("def operations_client", 1)[1].split("\n    def ", 1)[0])
                ctx.traces += 1
                if got != want_ops:
                    ctx.disagree("T3:c10.operations_http_options_order", f"{n}: http_options keys {got}, model {want_ops}", {**payload, "seed": sched[k][0]})


def view_of(api, sub):
    v = api
    for sp in sub:
        v = v.subpackages[sp]
    return v


def render_trace(req):
    """one instrumented in-process generation: the tree of `_render_template` calls (children = the recursive calls for the
    sub-packages, leaves = the `_get_file` results, in call order) and the names of the sample files"""
    from gapic.generator import generator as G
    stack, roots, info = [], [], {"sample": []}
    o_rt, o_gf, o_gs = G.Generator._render_template, G.Generator._get_file, G.Generator._generate_samples_and_manifest

    def rt(self, template_name, **kw):
        node = {"template": template_name, "parts": []}
        (stack[-1]["parts"] if stack else roots).append(node)
        stack.append(node)
        try:
            out = o_rt(self, template_name, **kw)
        finally:
            stack.pop()
        node["result"] = list(out.keys())
        return out

    def gf(self, template_name, **kw):
        out = o_gf(self, template_name, **kw)
        if stack:
            stack[-1]["parts"].append({"leaf": list(out.keys())})
        return out

    def gs(self, *a, **kw):
        out = o_gs(self, *a, **kw)
        info["sample"] = list(out[0].keys())
        return out
    G.Generator._render_template, G.Generator._get_file, G.Generator._generate_samples_and_manifest = rt, gf, gs
    try:
        res = genrun.generate_inproc(req)
    finally:
        G.Generator._render_template, G.Generator._get_file, G.Generator._generate_samples_and_manifest = o_rt, o_gf, o_gs
    return roots, info["sample"], [f.name for f in res.file]


def t3_response_order(ctx, req, outs, ra, sched, payload):
    """`get_response` / `_render_template` accumulate OrderedDicts with `.update`: every node of the instrumented call tree
    == the model's `responseFiles` of its parts; the top level == the order of CodeGeneratorResponse.file of every process"""
    try:
        roots, sample, names = render_trace(req)
    except Exception as e:
        ctx.count("skipped", "render-trace:" + genrun.crash_signature(e))
        return
    ops, meta = [], []

    def walk(node):
        parts = [p["leaf"] if "leaf" in p else p["result"] for p in node["parts"]]
        ops.append({"op": "c10.response_order", "sample": [], "templates": parts}); meta.append(("node:" + node["template"], node["result"]))
        for p in node["parts"]:
            if "leaf" not in p:
                walk(p)
    for n in roots:
        walk(n)
    ops.append({"op": "c10.response_order", "sample": sample, "templates": [n["result"] for n in roots]}); meta.append(("response", names))
    top = None
    for (what, real), mo in zip(meta, ask(ctx, ops)):
        ctx.traces += 1
        if mo.get("order") != real:
            ctx.disagree("T3:c10.response_order", f"{what}: model order differs from the real OrderedDict: first difference "
                         f"{next(((a, b) for a, b in itertools.zip_longest(mo.get('order') or [], real) if a != b), None)}", payload)
        if what == "response":
            top = mo.get("order")
    ctx.count("response_files", min(len(names), 400) // 50 * 50)
    ctx.count("render_tree_nodes", min(len(ops), 200) // 20 * 20)
    for k, o in enumerate(outs):
        resp = ra if k == 0 else plugin_pb2.CodeGeneratorResponse.FromString(o[1])
        got = [f.name for f in resp.file]
        ctx.traces += 1
        if got != top:
            ctx.disagree("T3:c10.response_order", f"process {k} (hash seed {sched[k][0]}): CodeGeneratorResponse.file order differs from the model at "
                         f"{next(((a, b) for a, b in itertools.zip_longest(top or [], got) if a != b), None)}", {**payload, "seed": sched[k][0]})


# ----------------------------------------------------------------------------------------- oracle + T3
def snake(name):
    import gapic.utils as gu
    return gu.to_snake_case(name)


def run_api(ctx, r, spec, workdir, nseeds, label, probe=False, nclock=None):
    run_apis(ctx, [(r, spec, label, probe)], workdir, nseeds, nclock)


def run_apis(ctx, items, workdir, nseeds, nclock=None):
    """items: [(rng, spec, label, probe)]. All processes of all items run in one pool (the APIs are independent)."""
    prepared, jobs = [], []
    for (r, spec, label, probe) in items:
        try:
            req_bytes, req = build_request(spec, workdir)
        except Exception as e:            # the descriptor builder (our stand-in for protoc) rejected the spec
            ctx.unsupported += 1
            ctx.count("skipped", "descriptor-builder:" + type(e).__name__)
            continue
        sched = schedules(ctx, r, workdir, nseeds, nclock)
        try:
            api, per_service = t2_schema(ctx, r, req, spec)
        except Exception as e:
            ctx.count("skipped", "schema-build:" + genrun.crash_signature(e))
            api, per_service = None, {}
        mine = [(req_bytes, s, c, e) for s, c, e in sched]
        probes = []
        if probe:
            # NOT part of the property (these are different requests): informational metamorphic probes
            probes = [("proto_file-order", topo_permuted(req, r)), ("parameter-order", params_permuted(req, r))]
            mine += [(q.SerializeToString(), sched[0][0], sched[0][1], sched[0][2]) for _, q in probes]
        if api is not None and (api.service_yaml_config.http.rules or api.service_yaml_config.apis or api.service_yaml_config.publishing.method_settings):
            try:
                t2_yaml_dicts(ctx, r, api, {"spec": spec})
                for sub in sorted({tuple(svc.meta.address.subpackage) for svc in api.services.values()} - {()}):
                    t2_yaml_dicts(ctx, r, view_of(api, sub), {"spec": spec, "view": list(sub)})
            except Exception as e:
                ctx.disagree("T2:c10.mixins.crash", f"the real dict properties raised on a variant of the yaml: {genrun.crash_signature(e)}", {"spec": spec})
        prepared.append((spec, label, sched, api, per_service, probes, len(jobs), len(mine), req))
        jobs += mine
    outs_all = run_many(jobs)
    for (spec, label, sched, api, per_service, probes, start, n, req) in prepared:
        outs = outs_all[start:start + n]
        for (what, q), o in zip(probes, outs[len(sched):]):
            same = o[0] == 0 and o[1] == outs[0][1]
            ctx.count("probe:" + what, "same response" if same else ("failed" if o[0] else "different response"))
            if not same and o[0] == 0 and outs[0][0] == 0:
                summ = diff_summary(plugin_pb2.CodeGeneratorResponse.FromString(outs[0][1]), plugin_pb2.CodeGeneratorResponse.FromString(o[1]))
                ctx.notes.setdefault("probe_differences", []).append(
                    {"probe": what, "api": label, "files": [f["name"] for f in summ["files"]][:6], "file_order": summ["file_order"],
                     "first": [f["first"] for f in summ["files"]][:2]})
        observe(ctx, spec, sched, outs[:len(sched)], api, per_service, label, req)


def observe(ctx, spec, sched, outs, api, per_service, label, req=None):
    payload = {"spec": spec, "schedule": sched}
    rcs = [o[0] for o in outs]
    nres = sum(len(v) for v in per_service.values())
    ctx.case({"label": label, "clean": spec["clean"], "opts": spec["opts"], "resources": nres, "runs": len(sched)},
             distinct_key=["api", json.dumps(spec, sort_keys=True)])
    ctx.count("transport", "ads-templates" if spec["opts"].get("ads") else spec["opts"]["transport"]); ctx.count("snippets", spec["opts"]["snippets"])
    ctx.count("processes", "runs", len(sched))
    ctx.count("processes", "clock-shifted", sum(map(is_clock_run, sched)))
    ctx.count("equal_short_type_groups", sum(len(equal_key_groups([t for t, _ in v])) for v in per_service.values()))
    if all(rc != 0 for rc in rcs):
        ctx.count("skipped", "generator-crash")           # C01/C14's subject, no response to compare
        ctx.assume("requests on which the generator raises in every process produce no response and are skipped")
        return
    if any(rc != 0 for rc in rcs):
        ctx.fail("crash-depends-on-schedule", f"return codes {rcs} for schedule {sched}: {[o[2][-200:] for o in outs if o[0]][0]}", payload)
        return
    # ---- oracle: byte-identical responses
    ref = outs[0][1]
    differing = [i for i, o in enumerate(outs) if o[1] != ref]
    ra = plugin_pb2.CodeGeneratorResponse.FromString(ref)
    if differing:
        i = differing[0]
        rb = plugin_pb2.CodeGeneratorResponse.FromString(outs[i][1])
        summ = diff_summary(ra, rb)
        key = classify({k: [t for t, _ in v] for k, v in per_service.items()}, summ)
        groups = len({o[1] for o in outs})
        clock_note = ""
        if all(is_clock_run(sched[j]) for j in differing):
            # every process that saw the real clock (whatever its hash seed / cwd / environment) answered with the reference
            # bytes; the ones that differ were given process 0's hash seed, cwd and environment and another wall-clock time
            key = "depends-on-clock:" + key.split(":", 1)[-1]
            e = sched[i][2]
            clock_note = (f" ONLY the clock-shifted process(es) differ ({len(differing)} of {sum(map(is_clock_run, sched))}): process {i} saw epoch "
                          f"{e[CLOCK_KEY]}" + (f" TZ={e['TZ']}" if "TZ" in e else "") + ", same hash seed / cwd / environment as process 0;")
        order_note = ""
        if summ["file_order"]:
            na, nb = [f.name for f in ra.file], [f.name for f in rb.file]
            j = next(j for j, (x, y) in enumerate(zip(na, nb)) if x != y)
            order_note = f" ORDER of CodeGeneratorResponse.file differs from entry {j}: {na[j]} vs {nb[j]};"
        ctx.fail(key, f"{groups} different responses over {len(sched)} processes; hash seed {sched[0][0]} vs {sched[i][0]}:{clock_note}{order_note} "
                      f"{[(f['name'], f['first']) for f in summ['files']][:2]}",
                 {**payload, "differing_files": [f["name"] for f in summ["files"]], "seeds": [sched[0][0], sched[i][0]],
                  "differing_processes": differing, "clock": [sched[j][2].get(CLOCK_KEY) for j in differing]})
    ctx.count("outcome", "identical" if not differing else "differs")
    if api is None:
        return
    observe_ordered(ctx, spec, sched, outs, ra, api, payload)
    observe_dicts(ctx, spec, sched, outs, ra, api, payload)
    if req is not None and spec.get("trace", True):
        t3_response_order(ctx, req, outs, ra, sched, payload)
    # ---- T3: order of emitted definitions vs the model's possible outcomes
    ops, checks = [], []
    for svc in api.services.values():
        res = per_service.get(svc.name, [])
        ops.append({"op": "c10.resources", "resources": res})
        checks.append(("helpers", svc, res))
        for m in svc.methods.values():
            if m.retry and m.retry.retryable_exceptions:
                names = sorted(e.__name__ for e in m.retry.retryable_exceptions)
                ops.append({"op": "c10.sort_by_key", "items": [[n, n] for n in names], "fold": True})
                checks.append(("retry", svc, (m, names)))
    model = ask(ctx, ops)
    fix_ops, fix_meta = [], []
    for k, o in enumerate(outs):
        resp = ra if k == 0 else plugin_pb2.CodeGeneratorResponse.FromString(o[1])
        files = {f.name: f.content for f in resp.file}
        for (what, svc, data), mo in zip(checks, model):
            sdir = f"/services/{snake(svc.name)}/"
            if what == "helpers":
                client = next((c for n, c in files.items() if sdir in n and n.endswith("/client.py")), None)
                if client is None:
                    continue
                got = helper_order(client)
                by_pat = {p: t for t, p in data}
                if sorted(got) != sorted(by_pat):
                    ctx.disagree("T3:c10.helper_set", f"{svc.name}: emitted helpers {got} are not the service's resources {sorted(by_pat)}",
                                 {**payload, "seed": sched[k][0]})
                    continue
                # membership in the model's outcome set, without enumerating it: `got` is a possible outcome iff it is a
                # permutation of the set (checked above) and the model's stable sort leaves it unchanged
                fix_ops.append({"op": "c10.resources", "resources": [[by_pat[p], p] for p in got]})
                fix_meta.append((svc.name, got, sched[k][0]))
                if mo.get("outcomes") is not None:
                    poss = [list(x) for x in mo["outcomes"]]
                    ctx.traces += 1
                    if got not in poss:
                        ctx.disagree("T3:c10.helper_order", f"{svc.name}: emitted helper order {got} not among the model's outcomes {poss[:3]}",
                                     {**payload, "seed": sched[k][0]})
                    if mo["injective"] and len(poss) != 1:
                        ctx.disagree("T3:c10.model-self", "injective key but several outcomes", payload)
            else:
                m, names = data
                base = next((c for n, c in files.items() if sdir in n and n.endswith("/transports/base.py")), None)
                if base is None:
                    continue
                lists = retry_lists(base)
                ctx.traces += 1
                if mo.get("order") not in lists:
                    ctx.disagree("T3:c10.retry_order", f"{svc.name}.{m.name}: model order {mo.get('order')} not emitted; emitted lists {lists[:4]}",
                                 {**payload, "seed": sched[k][0]})
    for (sname, got, seed), mo in zip(fix_meta, ask(ctx, fix_ops)):
        ctx.traces += 1
        if mo.get("order") != got:
            ctx.disagree("T3:c10.helper_order", f"{sname}: emitted helper order {got} is not a fixed point of the model's sort ({mo.get('order')}): "
                                                "not a possible outcome for any iteration order", {**payload, "seed": seed})
        if mo.get("injective") and len({tuple(g) for (n2, g, _) in fix_meta if n2 == sname}) != 1:
            ctx.disagree("T3:c10.helper_order", f"{sname}: model says order-free (injective key) but the processes emitted different orders", payload)


SCOPES_RE = re.compile(r"AUTH_SCOPES = \((.*?)\)\n", re.S)


def observe_ordered(ctx, spec, sched, outs, ra, api, payload):
    """T3 for the S1/S5 instances of this round, on EVERY process's response:
    * sub-packages: the order in which the sub-packages' files first appear in CodeGeneratorResponse.file == the model's
      `subpackageOrder` (also restated directly: it is the sorted order of the names);
    * OAuth scopes: `AUTH_SCOPES` of transports/base.py == the model's `oauthScopes` of the option == declaration order;
    * snippet metadata: region tags in the order the model's sort leaves unchanged (i.e. sorted)."""
    from google.api import client_pb2
    subs = [list(p.meta.address.subpackage) for p in api.protos.values()]
    ops = [{"op": "c10.subpackages", "view": [], "subs": subs}]
    svcs = list(api.services.values())
    for svc in svcs:
        ops.append({"op": "c10.scopes", "opt": svc.options.Extensions[client_pb2.oauth_scopes]})
    mo = ask(ctx, ops)
    want_subs = mo[0]["r"]
    real_keys = list(api.subpackages.keys())
    ctx.traces += 1
    ctx.count("subpackages", len(want_subs))
    if real_keys != want_subs:
        ctx.disagree("T2:c10.subpackages", f"model {want_subs} vs impl API.subpackages {real_keys}", payload)
    if mo[0].get("outcomes") is not None and len(mo[0]["outcomes"]) != 1:
        ctx.disagree("T2:c10.subpackages", f"model has {len(mo[0]['outcomes'])} outcomes for the sub-package set", payload)
    # nested sub-packages: every view of the API (API.subpackages of a sub-package's API object, `subpackage[level]`)
    views, frontier = [], [([], api)]
    while frontier:
        path, v = frontier.pop(0)
        for sp, sub in v.subpackages.items():
            views.append((path + [sp], sub)); frontier.append((path + [sp], sub))
    if views:
        vm = ask(ctx, [{"op": "c10.subpackages", "view": path, "subs": subs} for path, _ in views])
        for (path, v), m in zip(views, vm):
            ctx.traces += 1
            ctx.count("nested_subpackages", f"depth{len(path)}:{len(m['r'])}")
            if list(v.subpackages.keys()) != m["r"] or (m.get("outcomes") is not None and len(m["outcomes"]) != 1):
                ctx.disagree("T2:c10.subpackages", f"view {path}: model {m['r']} vs impl {list(v.subpackages.keys())}", payload)
    for svc, m in zip(svcs, mo[1:]):
        ctx.traces += 1
        ctx.count("scopes_per_service", len(m["r"]))
        if list(svc.oauth_scopes) != m["r"]:
            ctx.disagree("T2:c10.oauth_scopes", f"{svc.name}: model {m['r']} vs impl {list(svc.oauth_scopes)}", payload)
    declared = (spec.get("extras") or {}).get("scopes") or {}
    tag_ops, tag_meta = [], []
    for k, o in enumerate(outs):
        resp = ra if k == 0 else plugin_pb2.CodeGeneratorResponse.FromString(o[1])
        names = [f.name for f in resp.file]
        seen = []
        for n in names:
            parts = n.split("/")
            for sp in want_subs:
                if sp in parts[:-1] and not n.startswith(("tests/", "samples/", "docs/")) and sp not in seen:
                    seen.append(sp)
        ctx.traces += 1
        if seen != want_subs:
            ctx.disagree("T3:c10.subpackage_file_order", f"sub-packages first appear in the response in order {seen}, model {want_subs}",
                         {**payload, "seed": sched[k][0]})
        if seen != sorted(seen):                       # the statement, restated without the model
            ctx.fail("file-set-or-order", f"sub-package files appear in order {seen} (hash seed {sched[k][0]}), not in a canonical order", payload)
        files = {f.name: f.content for f in resp.file}
        for svc, m in zip(svcs, mo[1:]):
            base = next((c for n, c in files.items() if f"/services/{snake(svc.name)}/" in n and n.endswith("/transports/base.py")), None)
            if base is None:
                continue
            mm = SCOPES_RE.search(base)
            got = re.findall(r"'([^']*)'", mm.group(1)) if mm else None
            ctx.traces += 1
            if got != m["r"]:
                ctx.disagree("T3:c10.auth_scopes", f"{svc.name}: emitted AUTH_SCOPES {got} vs model {m['r']}", {**payload, "seed": sched[k][0]})
            if svc.name in declared and got is not None and got != declared[svc.name]:
                ctx.fail("scopes-reordered", f"{svc.name}: AUTH_SCOPES {got} is not the declared order {declared[svc.name]}", payload)
        for n, c in files.items():
            if n.startswith("samples/") and n.endswith(".json") and "snippet_metadata" in n:
                try:
                    tags = [sn.get("regionTag", "") for sn in json.loads(c).get("snippets", [])]
                except Exception:
                    continue
                if k == 0:
                    ctx.count("snippets_in_index", min(len(tags), 50) // 10 * 10)
                tag_ops.append({"op": "c10.sort_by_key", "items": [[t, str(i)] for i, t in enumerate(tags[:400])], "fold": False})
                tag_meta.append((n, tags[:400], sched[k][0]))
    for (n, tags, seed), m in zip(tag_meta, ask(ctx, tag_ops)):
        ctx.traces += 1
        if m.get("order") != [str(i) for i in range(len(tags))]:
            ctx.disagree("T3:c10.snippet_index_order", f"{n}: region tags are not in the model's sorted order", {**payload, "seed": seed})


# ----------------------------------------------------------------------------------------- corpus
def corpus_specs():
    out = []
    if os.path.isdir(CORPUS):
        for f in sorted(os.listdir(CORPUS)):
            if f.endswith(".json"):
                with open(os.path.join(CORPUS, f)) as fh:
                    out.append((f, json.load(fh)))
    return out


def run(ctx):
    ctx.rule = ("'determinism' profile: APIs with 1-3 proto files (+ an imported package with the same module name), 4-9 messages "
                "with scalar/message/enum/map/well-known/resource-reference fields (cycles allowed), 0-8 resources incl. file-level "
                "ones and — in the non-`clean` half — equal short type names, 1-3 services with overlapping method names, unary/LRO/"
                "paged/streaming/void methods, 2-7 retryable codes per method, grpc/rest/ads templates, snippets on/off; extras (all on "
                "in every third API): 3-5 OAuth scopes per service, 3-4 sub-packages with messages+enums, Operations/Locations/IAM "
                "mixins via service yaml, 3-5 extra + nested enums, multi-field method signatures, LRO requests carrying an "
                "Operation, compute-style extended-operation services (3 operation services); round 2: a service yaml for every API with "
                "mixins and for half of the others — apis shuffled, mixin http rules shuffled/interleaved, repeated selectors, "
                "additional_bindings, rules of disabled mixins and of own methods, method_settings (long_running / auto_populated UUID4 fields), "
                "library_settings (selective generation of a method subset, rest_async_io) —, sub-packages of sub-packages, a service inside a "
                "sub-package, an own rpc named like an IAM mixin method; round 3: string fields with a google.api.field_info format (UUID4 / IPV4 / IPV6 / "
                "IPV4_OR_IPV6; round 4: explicit google.api.routing rules with 2-6 parameters — same field / different fields resolving to one header "
                "key, template-less next to templated, identical pairs repeated, all-distinct keys) in request messages (mostly unary RPCs) and in resource messages — required, flattened by an own method_signature, inside "
                "a single-field REST body, or plain optional; optional UUID4 ones listed in auto_populated_fields for about half of the eligible methods; per API 3-6 re-ordered variants of its yaml at schema level; each API is "
                "generated by N separate processes (distinct PYTHONHASHSEED incl. `random`, three working directories, five "
                "locale/TZ/HOME environments, same seed twice) plus 2-3 processes (6 on replay) that differ from the first one only in the wall-clock "
                "time they see (another year in either direction, 31 Dec 23:59:59Z under two time zones, leap day, > 2**31, year 2100, another "
                "hour of today). distinct by (API spec); function-level T2 cases distinct by input; non-trivial = a response was produced")
    ctx.assume("option files (retry-config) are referenced by absolute path: the statement fixes 'the same referenced option files'")
    ctx.assume("resource type strings are unique per message/definition within an API (resource-name specification)")
    ctx.assume("identifiers are ASCII (the model's case folding is ASCII); proto3 field names are distinct up to case (protoc enforces it)")
    ctx.assume("with a service in a sub-package the generated yaml carries no method_settings / selective settings and snippets are off "
               "(known findings of C18 / C16 / C14: generation aborts, there is no response to compare)")
    ctx.assume("the insertion order of a Python dict is the order of the assignments that created its keys (language semantics; modelled by OMap)")
    ctx.assume("permuting proto_file (topologically) or the parameter string gives a DIFFERENT request: probed, reported under probe:*, never a failure")
    check_inventory(ctx)
    workdir = tempfile.mkdtemp(prefix="gapicverif_c10_", dir=genrun.SCRATCH)
    try:
        r = ctx.rng("t2")
        t2_functions(ctx, r)
        t2_dicts(ctx, r)
        # corpus first
        for fname, blob in corpus_specs():
            spec = blob["spec"]
            run_api(ctx, ctx.rng("corpus", fname), spec, workdir, ctx.n(6, 12), "corpus:" + fname)
        napis = ctx.n(8, 130)
        nseeds = ctx.n(5, 13)
        chunk = ctx.n(4, 6)
        items = []
        for a in range(napis):
            rr = ctx.rng("api", a)
            # every third API is `rich`: >= 3 scopes, >= 3 sub-packages, mixins, extra enums, multi-field signatures, …
            spec = gen_spec(rr, a, clean=(a % 4 != 3), rich=(a % 3 == 1), extop=((a % 6 == 1) if a % 3 == 1 else None))
            if a % 9 == 5:                         # the alternative template tree, with the extras it supports
                spec["opts"].update(ads=True, transport="grpc")
                # (the ads templates take a service yaml with mixins too; no sub-packages / extended operations there)
                spec["extras"].update(subpkgs=[], extop=False, nested_subpkgs=False, sub_service=False)
            items.append((rr, spec, f"api{a}", a % ctx.n(4, 3) == 1))
        for k in range(0, len(items), chunk):
            run_apis(ctx, items[k:k + chunk], workdir, nseeds)
    finally:
        shutil.rmtree(workdir, ignore_errors=True)


def search(ctx):
    """a proof obligation / the inventory / a correspondence is broken: look for a request on which the
    responses differ, with more processes per API and only `clean` specs (so that anything found is new)"""
    workdir = tempfile.mkdtemp(prefix="gapicverif_c10s_", dir=genrun.SCRATCH)
    try:
        for a0 in range(0, 12, 4):
            items = []
            for a in range(a0, a0 + 4):
                rr = ctx.rng("search", a)
                spec = gen_spec(rr, 1000 + a, clean=True, rich=True)      # every feature on: >= 3 elements at every ordered site
                spec["opts"]["retry"] = True; spec["opts"]["metadata"] = True
                spec["opts"]["snippets"] = (a % 2 == 1) and not spec["extras"].get("sub_service")
                if a % 2 == 0 and not spec["extras"].get("extop"):
                    spec["opts"]["transport"] = "grpc+rest"
                items.append((rr, spec, f"search{a}", False))
            run_apis(ctx, items, workdir, 10, nclock=4)
            if any(f["key"] not in {k["key"] for k in ctx.known} for f in ctx.failures):
                break
    finally:
        shutil.rmtree(workdir, ignore_errors=True)


def replay(ctx, payload):
    import leanio
    ctx.driver = leanio.Driver()
    workdir = tempfile.mkdtemp(prefix="gapicverif_c10r_", dir=genrun.SCRATCH)
    try:
        if "spec" in payload:
            run_api(ctx, ctx.rng("replay"), payload["spec"], workdir, 12, "replay", nclock=6)
        else:                       # function-level payloads
            t2_functions(ctx, ctx.rng("replay"))
    finally:
        shutil.rmtree(workdir, ignore_errors=True)
    for f in ctx.failures:
        print("  failure:", f["key"], "-", f["what"][:400])
    for d in ctx.disagreements[:5]:
        print("  disagreement:", d["correspondence"], "-", d["what"][:300])
    return not ctx.failures


CLAIM = dict(
    text="Lean 4 proof that every class of consumer of a hash-ordered container in the generator is invariant under permutation "
         "of that container: sort_lines / sorted() (S1), stable sort by key under key-injectivity — with the exact iff "
         "characterisation and the counterexample when the key is not injective (S2), membership/size/set-algebra consumers incl. "
         "Proto.disambiguate and module-collision tests (S3), tuple(set) chains ending in such consumers (S4), sort by any total order, "
         "sub-package keys and the %sub file walk (S1 instance), OAuth scopes keep declaration order (S5), and the pipeline "
         "theorem (order-free sites => schedule-independent response); instance theorems for retryable exceptions (17 class names), "
         "query params, import blocks, and for the resource path helpers as repaired for F4 (two-stage sort: order-free whenever full "
         "resource types are distinct, regression theorem for the F4 inputs, conservative w.r.t. the former single-stage order, and the "
         "remaining hypothesis shown necessary). Round 2: Python's insertion-ordered dict as a model (OMap: d[k]=v, update, comprehension) with the "
         "closed forms of key order and last-writer-wins lookup; API._get_methods_from_service / mixin_api_methods / mixin_api_signatures / "
         "mixin_http_options / http_options / all_method_settings / ChainMap iteration of api.services / Generator.get_response's OrderedDict of files: "
         "each key order is given in closed form as a function of the ORDER of the yaml's lists (resp. of the per-template name lists) only — invariant "
         "under permutation of the descriptor tables, of `apis`, of the services, and under any change of a rule but its selector; the seed6 change "
         "(walking a set intersection) is shown order-dependent. Tie: a static inventory "
         "scan of all set/sort/impurity sites of gapic/**/*.py and the templates must equal a pinned, classified inventory; 362 sites incl. every unsorted template loop over a dict view (t-dictloop). T2 of the real mixin / http-option / method-settings "
         "dicts of the API object (and of 3-6 re-ordered variants of its service yaml) and of dict / dictsort / ChainMap vs the model; T3 of the order of "
         "wrapped mixin methods (base.py), _Base<Mixin> classes (rest_base.py), operations_client http_options (rest.py) and of CodeGeneratorResponse.file "
         "(instrumented _render_template/_get_file call tree) for every process. T2 of the "
         "real sort_lines, the generator's Jinja |sort filters, query_params, disambiguate, names on real schema objects vs the model "
         "under permutations; T3 of the order of emitted helper/retry definitions, AUTH_SCOPES, sub-package file order and snippet-index "
         "order of every process's response vs the model. Oracle: the real CLI in separate processes (different PYTHONHASHSEED, cwd, "
         "locale/TZ/HOME environment, time — incl. processes whose wall clock is shifted by years/days/hours) on APIs with >=3 elements at every sorted site (scopes, sub-packages, mixins, enums, "
         "extended-operation services, equal short resource names, retry codes), serialized responses byte-compared.",
    technique="Lean 4 theorems over List.Perm / stable merge sort (core lemmas) + pinned static inventory + differential T2/T3 + multi-process byte-comparison oracle",
    design="7.10",
    note="Site classification in c10_inventory.json is by hand (each note says why); Jinja and CPython's sorted() are modelled as the unique stable sort; "
         "imp.Import's __eq__/__hash__ mismatch is not modelled (oracle only). F4 (equal short resource type names) is repaired (e81ac44); its inputs stay in corpus/C10 as regressions.",
)
