"""C10 inventory scan (DESIGN §7.10 "Tie", trusted base §5.2).

Static scan of /repo's CURRENT working tree (root = $VERIF_REPO, default /repo) for every place where
hash-ordered containers or ambient state could leak into the generator's output:

  python  (ast over gapic/**/*.py)
    set-new     set(...) / frozenset(...) / {a, b} / {x for ...} / defaultdict(set)
    set-iter    a for-loop, comprehension, tuple()/list()/sorted()/join()/iter()/next()/enumerate()/chain()
                /update()/extend() whose operand is a set (a set expression, a local variable bound to one,
                or an attribute/function whose declared return type is a Set/FrozenSet)
    keys-arith  `|`, `&`, `-`, `^` with a .keys()/.items()/.values() operand (result is a set)
    sort        sorted(...) and .sort(...) calls (the consumers that make order canonical)
    impure      time / datetime / random / uuid / secrets / os.environ / getenv / getcwd / abspath / realpath /
                listdir / walk / scandir / glob / id() / hash() / getpid / socket / platform / getpass / tempfile
  templates (regex over gapic/templates/** and gapic/ads-templates/**)
    t-sort      `| sort`, `| sort(...)`, `| dictsort`, `| unique`, `filter sort_lines` / `| sort_lines`
    t-setloop   `{% for … in EXPR %}` / `{% if … in EXPR %}` / `{{ EXPR }}` where EXPR mentions a set-valued attribute
    t-dictloop  `{% for … in EXPR.items() / .keys() / .values() %}` without a sort: the order is the dict's insertion order
                (tagged `<template in sort_lines>` when enclosed by a `{% filter sort_lines %}` block)
    t-impure    Jinja `|random`, `|shuffle`, `lipsum()`, `now()`

A site is identified by  <file>::<enclosing def>::<kind>::<normalised source text>[#k]  (no line numbers: moving
code does not change the inventory, adding/removing/rewriting a site does).  The pinned file
`c10_inventory.json` maps every site to its class (S1..S5 of DESIGN §7.10, or N*/I* below) and the
check demands  scan(source) == keys(pinned).

Classes:
  S1  consumed by sort_lines / sorted() over plain strings or totally ordered tuples (dedupe -> sort)
  S2  consumed by a stable sort by key (Jinja `|sort(attribute=k)`, sorted(key=…)) — needs the key to be injective
      on the set; S2! marks the sites where it is NOT injective for some valid input (F4)
  S3  membership / size / set-algebra only (never iterated into the output)
  S4  tuple(set) / iteration whose result only reaches S1/S2/S3 consumers or is re-collected into a set/dict-key test
  S5  insertion-ordered container fed from ordered inputs (a dict/list in declaration order), incl. its sorts
  N   not on the generation path of `gapic.cli.generate` (other CLI, samplegen validation constants, typing only)
  I   impurity site that cannot influence the response bytes (reason in the note)
"""
from __future__ import annotations
import ast, json, os, re

HERE = os.path.dirname(os.path.abspath(__file__))
PINNED = os.path.join(HERE, "c10_inventory.json")


def repo_root():
    return os.environ.get("VERIF_REPO", "/repo")


SET_CTORS = {"set", "frozenset"}
ITER_FUNCS = {"tuple", "list", "sorted", "iter", "next", "enumerate", "chain", "reversed", "zip", "map", "filter",
              "min", "max", "sum", "any", "all", "OrderedDict", "dict"}
ITER_METHODS = {"join", "update", "extend", "from_iterable"}
# any()/all()/sum()/min()/max() over a set are order-free by themselves; they are still listed (class S3)
IMPURE_NAMES = {"time", "datetime", "random", "uuid", "secrets", "socket", "platform", "getpass", "tempfile", "glob"}
IMPURE_ATTRS = {"environ", "getenv", "getcwd", "abspath", "realpath", "listdir", "walk", "scandir", "getpid",
                "expanduser", "now", "today", "utcnow", "urandom", "uuid4", "uuid1", "gethostname", "iterdir",
                "rglob", "cwd", "home", "relpath", "getcwdb", "getuid", "getlogin", "perf_counter",
                "monotonic", "time_ns", "curdir"}
IMPURE_CALLS = {"id", "hash", "open", "input"}


def _ann_is_set(node):
    if node is None:
        return False
    s = ast.unparse(node)
    return bool(re.search(r"\b(Set|FrozenSet|AbstractSet|MutableSet|set|frozenset)\b", s)) and not s.startswith(("Dict", "Mapping", "Optional[Dict"))


def _is_set_expr(node, local_sets, set_attrs):
    """syntactic judgement: does this expression evaluate to a set?"""
    if isinstance(node, (ast.Set, ast.SetComp)):
        return True
    if isinstance(node, ast.Call):
        f = node.func
        if isinstance(f, ast.Name) and f.id in SET_CTORS:
            return True
        if isinstance(f, ast.Attribute) and f.attr in ("union", "intersection", "difference", "symmetric_difference", "copy") \
                and _is_set_expr(f.value, local_sets, set_attrs):
            return True
        if isinstance(f, ast.Attribute) and f.attr in set_attrs:      # method returning a set
            return True
        if isinstance(f, ast.Name) and f.id in set_attrs:
            return True
        return False
    if isinstance(node, ast.Name):
        return node.id in local_sets
    if isinstance(node, ast.Attribute):
        return node.attr in set_attrs
    if isinstance(node, ast.BinOp) and isinstance(node.op, (ast.BitOr, ast.BitAnd, ast.Sub, ast.BitXor)):
        return _is_set_expr(node.left, local_sets, set_attrs) or _is_set_expr(node.right, local_sets, set_attrs)
    if isinstance(node, ast.BoolOp):
        return any(_is_set_expr(v, local_sets, set_attrs) for v in node.values)
    if isinstance(node, ast.IfExp):
        return _is_set_expr(node.body, local_sets, set_attrs) or _is_set_expr(node.orelse, local_sets, set_attrs)
    return False


def _text(node, limit=110):
    s = " ".join(ast.unparse(node).split())
    return s if len(s) <= limit else s[:limit] + "…"


class _Scope(ast.NodeVisitor):
    """collect sites of one module"""

    def __init__(self, rel, set_attrs):
        self.rel, self.set_attrs = rel, set_attrs
        self.stack = []
        self.local_sets = [set()]
        self.sites = []

    # -- helpers
    def qual(self):
        return ".".join(self.stack) or "<module>"

    def add(self, kind, node):
        self.sites.append((self.rel, self.qual(), kind, _text(node)))

    def is_set(self, node):
        return _is_set_expr(node, self.local_sets[-1], self.set_attrs)

    # -- scopes
    def _func(self, node):
        self.stack.append(node.name)
        loc = set()
        for a in node.args.args + node.args.kwonlyargs + node.args.posonlyargs:
            if _ann_is_set(a.annotation):
                loc.add(a.arg)
        # one pass of local data flow: names bound to set expressions anywhere in the body
        for _ in range(2):
            for sub in ast.walk(node):
                if isinstance(sub, ast.Assign) and _is_set_expr(sub.value, loc, self.set_attrs):
                    for t in sub.targets:
                        if isinstance(t, ast.Name):
                            loc.add(t.id)
                elif isinstance(sub, ast.AnnAssign) and isinstance(sub.target, ast.Name) and (
                        _ann_is_set(sub.annotation) or (sub.value is not None and _is_set_expr(sub.value, loc, self.set_attrs))):
                    loc.add(sub.target.id)
                elif isinstance(sub, ast.AugAssign) and isinstance(sub.target, ast.Name) and _is_set_expr(sub.value, loc, self.set_attrs):
                    loc.add(sub.target.id)
        self.local_sets.append(loc | self.local_sets[-1])
        self.generic_visit(node)
        self.local_sets.pop()
        self.stack.pop()

    visit_FunctionDef = _func
    visit_AsyncFunctionDef = _func

    def visit_ClassDef(self, node):
        self.stack.append(node.name)
        self.generic_visit(node)
        self.stack.pop()

    # -- sites
    def visit_Set(self, node):
        self.add("set-new", node)
        self.generic_visit(node)

    def visit_SetComp(self, node):
        self.add("set-new", node)
        self._comp(node)
        self.generic_visit(node)

    def _comp(self, node):
        for g in node.generators:
            if self.is_set(g.iter):
                self.add("set-iter", g.iter if not isinstance(node, ast.AST) else ast.Expr(value=g.iter).value)

    def visit_ListComp(self, node):
        self._comp(node); self.generic_visit(node)

    def visit_GeneratorExp(self, node):
        self._comp(node); self.generic_visit(node)

    def visit_DictComp(self, node):
        self._comp(node); self.generic_visit(node)

    def visit_For(self, node):
        if self.is_set(node.iter):
            self.add("set-iter", node.iter)
        self.generic_visit(node)

    def visit_BinOp(self, node):
        if isinstance(node.op, (ast.BitOr, ast.BitAnd, ast.Sub, ast.BitXor)):
            for side in (node.left, node.right):
                if isinstance(side, ast.Call) and isinstance(side.func, ast.Attribute) and side.func.attr in ("keys", "items", "values"):
                    self.add("keys-arith", node)
                    break
        self.generic_visit(node)

    def visit_Call(self, node):
        f = node.func
        if isinstance(f, ast.Name):
            if f.id in SET_CTORS:
                self.add("set-new", node)
            if f.id == "sorted":
                self.add("sort", node)
            if f.id in ITER_FUNCS and any(self.is_set(a) for a in node.args):
                self.add("set-iter", node)
            if f.id == "defaultdict" and node.args and isinstance(node.args[0], ast.Name) and node.args[0].id in SET_CTORS:
                self.add("set-new", node)
            if f.id in IMPURE_CALLS and not (f.id == "open"):
                self.add("impure", node)
        elif isinstance(f, ast.Attribute):
            if f.attr == "sort":
                self.add("sort", node)
            if f.attr == "defaultdict" and node.args and isinstance(node.args[0], ast.Name) and node.args[0].id in SET_CTORS:
                self.add("set-new", node)
            if f.attr in ITER_METHODS and any(self.is_set(a) for a in node.args):
                self.add("set-iter", node)
            if f.attr in ("chain",) and any(self.is_set(a) for a in node.args):
                self.add("set-iter", node)
            if f.attr == "pop" and not node.args and self.is_set(f.value):
                self.add("set-iter", node)
        self.generic_visit(node)

    def visit_Starred(self, node):
        if self.is_set(node.value):
            self.add("set-iter", node)
        self.generic_visit(node)

    def visit_Attribute(self, node):
        if node.attr in IMPURE_ATTRS:
            self.add("impure", node)
        elif isinstance(node.value, ast.Name) and node.value.id in IMPURE_NAMES:
            self.add("impure", node)
        self.generic_visit(node)

    def visit_Import(self, node):
        for a in node.names:
            if a.name.split(".")[0] in IMPURE_NAMES:
                self.add("impure", node)

    def visit_ImportFrom(self, node):
        if (node.module or "").split(".")[0] in IMPURE_NAMES:
            self.add("impure", node)
        elif node.module == "os" and any(a.name in IMPURE_ATTRS for a in node.names):
            self.add("impure", node)


def _py_files(root):
    out = []
    base = os.path.join(root, "gapic")
    for dp, dn, fn in os.walk(base):
        dn.sort()
        for f in sorted(fn):
            if f.endswith(".py"):
                out.append(os.path.join(dp, f))
    return out


def set_valued_names(trees):
    """attributes / functions whose declared return type is a set, plus dataclass fields annotated as sets;
    and the SEQUENCES whose order is a set's iteration order: functions that `return tuple(<set>)` /
    `list(<set>)`, closed under "a function returning a sequence that reads such a function" (fixpoint)."""
    names = set()
    funcs = []
    for tree in trees:
        for node in ast.walk(tree):
            if isinstance(node, (ast.FunctionDef, ast.AsyncFunctionDef)):
                funcs.append(node)
                if _ann_is_set(node.returns):
                    names.add(node.name)
            elif isinstance(node, ast.ClassDef):
                for st in node.body:
                    if isinstance(st, ast.AnnAssign) and isinstance(st.target, ast.Name) and _ann_is_set(st.annotation):
                        names.add(st.target.id)
    seq = set()
    for fn in funcs:
        loc = set()
        for sub in ast.walk(fn):
            tgt = None
            if isinstance(sub, ast.Assign) and len(sub.targets) == 1 and isinstance(sub.targets[0], ast.Name):
                tgt, val = sub.targets[0].id, sub.value
            elif isinstance(sub, ast.AnnAssign) and isinstance(sub.target, ast.Name) and sub.value is not None:
                tgt, val = sub.target.id, sub.value
                if _ann_is_set(sub.annotation):
                    loc.add(tgt)
            if tgt and _is_set_expr(val, loc, names):
                loc.add(tgt)
        for sub in ast.walk(fn):
            if isinstance(sub, ast.Return) and isinstance(sub.value, ast.Call) and isinstance(sub.value.func, ast.Name) \
                    and sub.value.func.id in ("tuple", "list") and sub.value.args and _is_set_expr(sub.value.args[0], loc, names):
                seq.add(fn.name)
    changed = True
    while changed:
        changed = False
        for fn in funcs:
            if fn.name in seq or fn.name in names:
                continue
            ann = ast.unparse(fn.returns) if fn.returns is not None else ""
            if not re.match(r"(Sequence|List|Tuple|Iterable|Iterator|tuple|list)\b", ann):
                continue
            for sub in ast.walk(fn):
                if (isinstance(sub, ast.Attribute) and sub.attr in seq) or (isinstance(sub, ast.Name) and sub.id in seq):
                    seq.add(fn.name)
                    changed = True
                    break
    return names, seq


T_SORT = re.compile(r"\|\s*(sort\s*\([^)]*\)|sort\b(?!_)|dictsort\s*(?:\([^)]*\))?|unique\s*(?:\([^)]*\))?|sort_lines)|^\s*filter\s+(sort_lines)")
T_TAG = re.compile(r"\{[%{]-?(.*?)-?[%}]\}", re.S)
T_DICTLOOP = re.compile(r"for\b.*\bin\b.*\.(items|keys|values)\(\)")


def scan_templates(root, set_attrs):
    sites = []
    for tdir in ("templates", "ads-templates"):
        base = os.path.join(root, "gapic", tdir)
        for dp, dn, fn in os.walk(base):
            dn.sort()
            for f in sorted(fn):
                if not f.endswith((".j2", ".rst", ".py", ".txt", ".cfg", ".toml", ".in")) and "." in f:
                    pass
                p = os.path.join(dp, f)
                try:
                    src = open(p, encoding="utf-8").read()
                except (UnicodeDecodeError, IsADirectoryError):
                    continue
                rel = os.path.relpath(p, root)
                depth = []                      # stack of enclosing {% filter … %} blocks
                for m in T_TAG.finditer(src):
                    tag = " ".join(m.group(1).split())
                    if m.group(0).startswith("{#"):
                        continue
                    if m.group(0).startswith("{%"):
                        fm = re.match(r"filter\s+(\w+)", tag)
                        if fm:
                            depth.append(fm.group(1))
                        elif re.match(r"endfilter\b", tag) and depth:
                            depth.pop()
                    hit = False
                    for s in T_SORT.finditer(tag):
                        sites.append((rel, "<template>", "t-sort", tag[:140]))
                        hit = True
                        break
                    if hit:
                        continue
                    if re.search(r"\|\s*(random|shuffle)\b|\blipsum\s*\(|\bnow\s*\(", tag):
                        sites.append((rel, "<template>", "t-impure", tag[:140]))
                        continue
                    words = set(re.findall(r"\.([A-Za-z_]\w*)", tag))
                    if words & set_attrs:
                        where = "<template in sort_lines>" if "sort_lines" in depth else "<template>"
                        sites.append((rel, where, "t-setloop", tag[:140]))
                    elif m.group(0).startswith("{%") and T_DICTLOOP.match(tag):
                        # an UNSORTED loop over a dict view: the emitted order is the dict's insertion order
                        where = "<template in sort_lines>" if "sort_lines" in depth else "<template>"
                        sites.append((rel, where, "t-dictloop", tag[:140]))
    return sites


def scan(root=None):
    """{site-id: {"file","where","kind","text"}} for the current source tree"""
    root = root or repo_root()
    files = _py_files(root)
    trees = {}
    for p in files:
        with open(p, encoding="utf-8") as fh:
            trees[p] = ast.parse(fh.read(), filename=p)
    set_attrs, seq_attrs = set_valued_names(trees.values())
    set_attrs = set_attrs | seq_attrs          # a sequence in set order is iterated like the set itself
    raw = []
    for p, tree in trees.items():
        v = _Scope(os.path.relpath(p, root), set_attrs)
        v.visit(tree)
        raw += v.sites
    raw += scan_templates(root, set_attrs)
    out, seen = {}, {}
    for rel, where, kind, text in raw:
        base = f"{rel}::{where}::{kind}::{text}"
        k = seen.get(base, 0)
        seen[base] = k + 1
        out[base if k == 0 else f"{base}#{k}"] = {"file": rel, "where": where, "kind": kind, "text": text}
    return out, {"set_valued": sorted(set_attrs - seq_attrs), "set_ordered_sequences": sorted(seq_attrs)}


def load_pinned():
    with open(PINNED) as fh:
        return json.load(fh)


def compare(scanned, pinned_sites):
    new = sorted(set(scanned) - set(pinned_sites))
    gone = sorted(set(pinned_sites) - set(scanned))
    return new, gone


if __name__ == "__main__":
    import sys
    sc, attrs = scan()
    print("set-valued names:", attrs)
    kinds = {}
    for k, v in sc.items():
        kinds[v["kind"]] = kinds.get(v["kind"], 0) + 1
    print(kinds, len(sc))
    if "--dump" in sys.argv:
        for k in sorted(sc):
            print(k)
    if "--diff" in sys.argv:          # what a maintainer of the pinned file has to (re)classify by hand
        new, gone = compare(sc, load_pinned()["sites"])
        for k in new:
            print("NEW ", k)
        for k in gone:
            print("GONE", k)
        print(f"{len(new)} new, {len(gone)} gone")
