"""C11 — the emitted file set is well-formed and placed by package-derived naming (DESIGN §7.11)."""
from __future__ import annotations
import json, os, re, types
import apigen, genrun
from google.protobuf.compiler import plugin_pb2

VERSIONS = ["v1", "v1beta1", "v1p1beta1", "v2alpha", ""]
NS_POOL = ["acme", "cloud", "google", "ads", "x1"]
NAMES = ["lib", "library", "pub_sub", "ai"]
FILE_BASES = ["lib", "types", "service", "foo.bar", "import", "metadata", "class", "common_types", "v1_api", "request",
              # names protoc accepts and the keyword/dot sanitiser leaves alone: leading underscore(s) (NOT "private": that rule is about
              # TEMPLATE names), trailing underscore, a lone underscore, digits, upper case (module name = snake case of the file name)
              "_internal", "__private", "internal_", "_", "_Internal2_", "Log2", "AuditLog", "_v1", "__all__"]


SUB_SEGS = ["admin", "s", "types2", "audit", "t", "u", "admin"]      # a segment may repeat along a path (`admin.admin`)
T3_NAME_VALUES = ["my_lib", "shelf", "book_shelf", "lib2", "a"]
# name overrides that are not module names as they stand (capitals, blanks, `/`, a leading `..`): the package directory is the
# sanitised name — ONE normalised path segment whatever the text (Props/C11 `package_root_segment_no_slash`)
T3_ODD_NAME_VALUES = ["My Lib", "a/b", "../x", "Shelf-2"]


def module_name_ref(text):
    """`to_valid_module_name` as its docstring states it, character by character (no regex): lower-case, every maximal run of
    characters outside `a-z 0-9 . $ _ -` becomes one `-`, then every `-` becomes `_`"""
    out, in_run = [], False
    for ch in text.lower():
        if ch in "abcdefghijklmnopqrstuvwxyz0123456789.$_-":
            out.append(ch); in_run = False
        elif not in_run:
            out.append("-"); in_run = True
    return "".join(out).replace("-", "_")
NS_OVERRIDE_SEGS = ["foo", "bar", "zed", "google", "cloud", "ads", "a1", "x_y"]
DEP_PKGS = ["other.common.v1", "google.iam.v1", "google.cloud.location", "other.v1", "other", "dep.a.b.c.v2", "other.common.v1.admin"]
# FOREIGN option keys that merely CONTAIN `python-gapic-` (another plugin's option, a typo): an option is ours iff its key STARTS
# with the prefix; after the embedded prefix comes each suffix this plugin knows
FOREIGN_HEADS = ["legacy-", "x-", "go-", "my_", "X", "not-", "py-python-gapic-x-"]
KNOWN_SUFFIXES = [("name", "hijacked"), ("namespace", "evil.corp"), ("warehouse-package-name", "stolen-pkg"), ("transport", "rest"), ("transport", "grpc+rest"),
                  ("metadata", None), ("old-naming", None), ("templates", "/nonexistent/templates"), ("autogen-snippets", "true"), ("rest-numeric-enums", None),
                  ("lazy-import", "true"), ("add-iam-methods", None), ("proto-plus-deps", "a.b+c.d"), ("samples", "/nonexistent/samples"), ("abc", "1")]


def foreign_option(r):
    suffix, val = r.pick(KNOWN_SUFFIXES)
    k = r.pick(FOREIGN_HEADS) + "python-gapic-" + suffix
    return k if val is None else f"{k}={val}"


COLLIDING = [("common_types", "common.types"), ("foo.bar", "foo_bar"), ("import", "import_"), ("class_", "class"), ("a_b.c", "a.b_c"), ("metadata", "metadata_")]


def gen_case(r: apigen.Rng, idx: int):
    ns = [r.pick(NS_POOL) for _ in range(r.pick([0, 0, 1, 2, 3]))]        # SHORT target packages (`lib`, `lib.v1`) are as likely as long ones
    name = r.pick(NAMES)
    ver = r.pick(VERSIONS)
    pkg = ".".join(ns + [name] + ([ver] if ver else []))
    nfiles = r.randint(1, 3) if ver else 1          # unversioned packages must share one proto package
    bases = r.sample(FILE_BASES, nfiles)
    if nfiles >= 2 and r.maybe(0.35):
        # two target files whose names sanitise to the SAME module name (either order): both must still get a types module
        pair = list(r.pick(COLLIDING))
        if r.maybe(): pair.reverse()
        bases = pair + [b for b in bases if b not in pair][:nfiles - 2]
    sub = r.maybe(0.45) and ver != ""
    case = {"pkg": pkg, "ns": ns, "name": name, "version": ver, "files": [], "deps": r.maybe(0.5), "sub": None,
            "prefix_dep": bool(ver) and ver in ("v1", "v2alpha") and r.maybe(0.05)}
    if case["deps"]:
        # the dependency-only file's package: 1..5 segments, so that it is shorter than, as long as, and LONGER than the target
        # package (`acme.v1` importing `google.iam.v1`): its extra segments are no sub-package of the API
        case["dep_pkg"] = r.pick(DEP_PKGS)
        case["dep2"] = r.maybe(0.3)          # the dependency imports a further, longer, dependency-only file
    for i, b in enumerate(bases):
        case["files"].append({"base": b, "pkg": pkg, "messages": r.randint(0 if (i and not any(b in c for c in COLLIDING)) else 1, 2), "enum": r.maybe(0.3), "services": 0})
    case["files"][0]["services"] = r.randint(1, 2)
    if len(case["files"]) > 1 and r.maybe(0.3):
        case["files"][1]["services"] = 1
    if sub:
        # a sub-package tree 1..3 levels deep below the API package: one or two branches, a file ALWAYS at the end of a branch and,
        # independently, with or without a file at every intermediate level (an EMPTY intermediate package `acme.lib.v1.admin`
        # between `acme.lib.v1` and `acme.lib.v1.admin.audit` is still a directory of the import path); messages, enums and
        # services at any level.  Snippets are off in every case (services in sub-packages: known KeyError finding).
        paths = []
        for _ in range(r.pick([1, 1, 2])):
            depth = r.pick([1, 2, 2, 3])
            first = r.pick(SUB_SEGS[:3])
            branch = [first] + [r.pick(SUB_SEGS) for _ in range(depth - 1)]
            for lvl in range(1, depth + 1):
                if (lvl == depth or r.maybe(0.4)) and branch[:lvl] not in paths:
                    paths.append(branch[:lvl])
        case["sub"] = [".".join(q) for q in paths]
        bases = r.sample(["extra", "more", "log", "audit_log", "entry", "ops"], len(paths))
        for q, b in zip(paths, bases):
            case["files"].append({"base": b, "pkg": pkg + "." + ".".join(q), "messages": r.randint(1, 2), "enum": r.maybe(0.2),
                                  "services": 1 if r.maybe(0.4) else 0})
    # options
    tr = r.pick(["grpc", "rest", "grpc+rest"])
    opts = [f"transport={tr}", "autogen-snippets=false"]
    if r.maybe(0.4): opts.append("metadata")
    if r.maybe(0.2): opts.append("rest-numeric-enums")
    case["override_name"] = None; case["override_ns"] = None
    if r.maybe(0.35):
        # the single-valued `name` key given 1..3 times with (mostly) DIFFERENT values, anywhere among the other options:
        # which occurrence is the override is for the model of Options.build to say (`lastValue`: the last one)
        nvals = [r.pick(T3_NAME_VALUES) for _ in range(r.pick([1, 2, 2, 3]))]
        if r.maybe(0.25):
            nvals[-1] = r.pick(T3_ODD_NAME_VALUES)
        case["override_name"] = nvals
        for v in nvals:
            opts.append("python-gapic-name=" + v)
    if r.maybe(0.4):
        # the namespace key is REPEATABLE (protoc joins several --python_gapic_opt flags with ","), and every value may itself be
        # in dot notation: 1..3 values x 1..3 dotted components each, placed anywhere among the other options (order kept)
        vals = [".".join(r.pick(NS_OVERRIDE_SEGS) for _ in range(r.pick([1, 1, 2, 3]))) for _ in range(r.pick([1, 2, 2, 3]))]
        case["override_ns"] = vals
        at = sorted(r.randint(0, len(opts)) for _ in vals)
        for k in range(len(vals) - 1, -1, -1):
            opts.insert(at[k], "python-gapic-namespace=" + vals[k])
    if r.maybe(0.2):
        for v in r.sample(["acme-lib-pkg", "other-pkg", "third"], r.pick([1, 1, 2])):
            opts.insert(r.randint(1, len(opts)), r.pick(["warehouse-package-name=", "python-gapic-warehouse-package-name="]) + v)
    if case["override_name"] and r.maybe(0.5):
        # interleave: move the name keys to random places (relative order kept), so that unknown-to-be / namespace / transport
        # options sit between two occurrences
        rest = [o for o in opts if not o.startswith("python-gapic-name=")]
        at = sorted(r.randint(0, len(rest)) for _ in case["override_name"])
        for k in range(len(at) - 1, -1, -1):
            rest.insert(at[k], "python-gapic-name=" + case["override_name"][k])
        opts = rest
    case["opts"] = opts
    case["unknown"] = r.sample(["zzz=1", "go_package=x/y", "paths=source_relative", "foo=a=b", "Mgoogle/api/x.proto=example.com/x;x", "unknown"], r.randint(1, 3))
    # foreign keys with the prefix in the MIDDLE, after the genuine options and (`unknown_before`) before them
    case["unknown_before"] = [foreign_option(r) for _ in range(r.pick([0, 0, 1, 2]))]
    for _ in range(r.pick([0, 1, 1, 2])):
        case["unknown"].insert(r.randint(0, len(case["unknown"])), foreign_option(r))
    if r.maybe(0.3):
        case["unknown"].append(f"transport={tr}")        # a repeated known key with the same value
    if r.maybe(0.3):
        # a LATER transport with a different value: `transport` is read with `[0]` (first occurrence), so it changes nothing
        case["unknown"].insert(r.randint(0, len(case["unknown"])), "transport=" + r.pick([t for t in ["grpc", "rest", "grpc+rest"] if t != tr]))
    if case["override_name"] and r.maybe(0.3):
        case["unknown"].append("python-gapic-name=" + case["override_name"][-1])      # the winner once more, at the end: same winner
    return case


def build_files(case):
    files, targets = [], []
    dep = None
    dpkg = case.get("dep_pkg") or "other.common.v1"
    if case["deps"]:
        dep2 = None
        if case.get("dep2"):
            dep2 = apigen.File("/".join(dpkg.split(".")) + "/deeper/v3/deepbase.proto", dpkg + ".deeper.v3", deps=[])
            dep2.msg("Base").field("id")
            files.append(dep2)
        dep = apigen.File("/".join(dpkg.split(".")) + "/shared.proto", dpkg, deps=[])
        sh = dep.msg("Shared"); sh.field("id")
        if dep2 is not None:
            dep.dep(dep2.name)
            sh.field("base", "message", type_name="." + dpkg + ".deeper.v3.Base")
        files.append(dep)
    pdep = None
    if case.get("prefix_dep"):
        # a dependency-only file whose package merely BEGINS with the characters of the API package (`acme.lib.v1beta` next to
        # `acme.lib.v1`): not a sub-package, so nothing may be emitted for it (findings/C11.json)
        ppkg = case["pkg"] + "beta"
        pdep = apigen.File("/".join(ppkg.split(".")) + "/legacy.proto", ppkg, deps=[])
        pdep.msg("Legacy").field("id")
        files.append(pdep)
    mcount = 0
    for i, fd in enumerate(case["files"]):
        path = "/".join(fd["pkg"].split(".")) + f"/{fd['base']}.proto"
        f = apigen.File(path, fd["pkg"])
        if dep is not None:
            f.dep(dep.name)
        if pdep is not None:
            f.dep(pdep.name)
        msgs = []
        for k in range(fd["messages"]):
            m = f.msg(f"Msg{mcount}"); mcount += 1
            m.field("name")
            if dep is not None and k == 0:
                m.field("shared", "message", type_name="." + dpkg + ".Shared")
            if pdep is not None and k == 0 and i == 0:
                m.field("legacy", "message", type_name="." + pdep.pb.package + ".Legacy")
            msgs.append(m)
        if fd["enum"]:
            f.enum(f"Kind{i}", [f"KIND{i}_UNSPECIFIED", f"KIND{i}_A"])
        for s in range(fd["services"]):
            rq = f.msg(f"Req{i}x{s}"); rq.field("name")
            sv = f.service(f"Svc{i}x{s}" if (i or s) else "Library")
            sv.method("Get", rq, rq, http=("get", "/v1/{name=things/*}"))
            if s == 0 and i == 0:
                lr = f.msg("ListRequest"); lr.field("parent"); lr.field("page_size", "int32"); lr.field("page_token")
                lrs = f.msg("ListResponse"); lrs.field("items", "string", repeated=True); lrs.field("next_page_token")
                sv.method("List", lr, lrs, http=("get", "/v1/{parent=things/*}/items"))
        files.append(f); targets.append(f)
    return files, targets


def expected_modules(case):
    """per target file, the module name its types module must carry: the file name with `.` -> `_`, `_` appended for keywords and
    the four reserved names, in snake case — or None where two files of one package sanitise to the same name (the disambiguation
    order is the code's business; the placement oracle still demands ONE module per file there)"""
    import keyword
    from gapic.utils import to_snake_case
    out = []
    for fd in case["files"]:
        n = fd["base"].replace(".", "_")
        if n in set(keyword.kwlist) | {"metadata", "retry", "timeout", "request"}:
            n += "_"
        out.append((fd["pkg"], to_snake_case(n)))
    seen = {}
    for pk, n in out:
        seen[(pk, n.rstrip("_"))] = seen.get((pk, n.rstrip("_")), 0) + 1
    return [n if seen[(pk, n.rstrip("_"))] == 1 else None for pk, n in out]


def name_values(opts):
    """the values of the `name` override in an option list, in order (`name` is not a bare flag: only the prefixed key is read)"""
    return [o.strip().split("=", 1)[1] for o in opts if o.strip().startswith("python-gapic-name=")]


def expected_root(case, winner=None):
    ov = case["override_ns"]
    if isinstance(ov, str):
        ov = [ov]                  # older corpus entries: one value
    # one directory per dotted component of every value of the (repeatable) namespace key, in the order given
    ns = [seg for v in ov for seg in v.split(".")] if ov else case["ns"]
    # `winner`: the `name` value the MODEL of Options.build says is read (the last one); without a model answer, the last one
    given = name_values(case["opts"])
    name = winner if winner else (given[-1] if given else case["name"])
    name = module_name_ref(name)
    ver = case["version"]
    return "/".join([s.lower() for s in ns] + [name + ("_" + ver if ver else "")]), "/".join([s.lower() for s in ns] + [name])


def oracle(ctx, case, res, files, targets, payload, mroot=None):
    names = [f.name for f in res.file]
    if len(set(names)) != len(names):
        ctx.fail("duplicate-file-name", f"duplicate names: {[n for n in names if names.count(n) > 1][:3]}", payload)
    for n in names:
        segs = n.split("/")
        if n.startswith("/") or any(s in ("", ".", "..") for s in segs):
            ctx.fail("name-not-normalised", f"file name {n!r}", payload)
    if not (res.supported_features & plugin_pb2.CodeGeneratorResponse.FEATURE_PROTO3_OPTIONAL):
        ctx.fail("proto3-optional-not-advertised", "supported_features lacks FEATURE_PROTO3_OPTIONAL", payload)
    winner = mroot.get("name") if mroot and mroot.get("match") else None
    root, unversioned = expected_root(case, winner)
    if mroot and mroot.get("match") and "/".join(mroot["dir"]) != root:
        ctx.disagree("T3:c11.packageDir", f"the model's package directory {'/'.join(mroot['dir'])!r} is not the expected root {root!r}", payload)
    under = [n for n in names if n.startswith(root + "/")]
    if not under or root + "/__init__.py" not in names:
        given = name_values(case["opts"])
        # a repeated `name` key with different values and the package sits under ANOTHER occurrence's name: the wrong one won
        other = [v for v in given if v != (winner or given[-1]) and expected_root(case, v)[0] + "/__init__.py" in names]
        if other:
            ctx.fail("override-winner", f"`python-gapic-name` given as {given}: the override read by Options.build is {winner or given[-1]!r} (the LAST value), so the "
                     f"package belongs under {root!r}; it was emitted under {expected_root(case, other[0])[0]!r} ({other[0]!r} won)", payload)
        else:
            ctx.fail("package-root", f"no package under {root!r}; top-level dirs: {sorted(set(n.split('/')[0] for n in names))}", payload)
        return
    # __init__ closure under the package root(s)
    nameset = set(names)
    for base in (root, unversioned):
        for n in names:
            if n.endswith(".py") and n.startswith(base + "/"):
                d = os.path.dirname(n)
                while len(d) >= len(base):
                    if d + "/__init__.py" not in nameset:
                        ctx.fail("init-closure", f"{n}: directory {d} has no __init__.py", payload)
                        break
                    if d == base:
                        break
                    d = os.path.dirname(d)
    # one types module per target proto / one service package per service / nothing for dependency files
    from gapic.utils import to_snake_case
    for fd in case["files"]:
        sub = fd["pkg"][len(case["pkg"]):].strip(".").replace(".", "/")
        tdir = root + ("/" + sub if sub else "") + "/types/"
        mods = [n for n in names if n.startswith(tdir) and n != tdir + "__init__.py" and "/" not in n[len(tdir):]]
        ctx.notes.setdefault("types_modules_seen", 0)
    ntypes = [n for n in names if re.search(r"/types/[^/]+\.py$", n) and not n.endswith("__init__.py") and n.startswith(root + "/")]
    if case.get("prefix_dep"):
        ntypes = [n for n in ntypes if not n.endswith("/legacy.py")]      # reported above under its own key
    want_types = sum(1 for fd in case["files"])
    nonempty_types = sum(1 for fd in case["files"] if fd["messages"] or fd["enum"] or fd["services"])
    if not (nonempty_types <= len(ntypes) <= want_types):
        ctx.fail("types-module-count", f"{len(ntypes)} types modules for {want_types} target protos ({nonempty_types} non-empty): {ntypes}", payload)
    # every message of every target file is a class of some emitted types module
    tcontent = "\n".join(f.content for f in res.file if f.name in ntypes)
    total_msgs = sum(fd["messages"] for fd in case["files"])
    lost = [f"Msg{k}" for k in range(total_msgs) if f"class Msg{k}(" not in tcontent]
    if lost:
        ctx.fail("message-not-emitted", f"messages {lost} of target files are in no types module ({[n.rsplit('/', 1)[1] for n in ntypes]})", payload)
    svc_names = []
    for i, fd in enumerate(case["files"]):
        for s in range(fd["services"]):
            svc_names.append("Library" if not (i or s) else f"Svc{i}x{s}")
    sdirs = sorted(set(re.search(r"/services/([^/]+)/", n).group(1) for n in names if re.search(r"/services/([^/]+)/", n) and n.startswith(root + "/")))
    if sdirs != sorted(to_snake_case(s) for s in svc_names):
        ctx.fail("service-packages", f"service packages {sdirs} for services {svc_names}", payload)
    # PLACEMENT (any nesting depth, with or without files in the intermediate packages): the types module of a target file sits
    # directly under <root>/<sub-package path>/types/, the package of a service under <root>/<sub-package path>/services/, and
    # every directory from the root down to them carries an __init__.py
    k = 0
    type_dirs, svc_dirs = set(), set()
    want_mod = expected_modules(case)
    underscore_ok = set()
    for i, fd in enumerate(case["files"]):
        subpath = fd["pkg"][len(case["pkg"]):].strip(".").replace(".", "/")
        base = root + ("/" + subpath if subpath else "")
        tdir = base + "/types/"
        type_dirs.add(tdir)
        mods = {f.name: f.content for f in res.file if f.name.startswith(tdir) and "/" not in f.name[len(tdir):]
                and f.name.endswith(".py") and f.name != tdir + "__init__.py"}
        mine = [f"Msg{j}" for j in range(k, k + fd["messages"])]; k += fd["messages"]
        holders = sorted({n for n, c in mods.items() for m in mine if f"class {m}(" in c})
        if mine and (len(holders) != 1 or any(f"class {m}(" not in mods[holders[0]] for m in mine)):
            where = sorted(f.name for f in res.file for m in mine if f"class {m}(" in f.content and "/types/" in f.name)
            ctx.fail("types-module-placement", f"messages {mine} of {fd['base']}.proto (package {fd['pkg']}) are not in one types module under "
                     f"{tdir}: found in {where}", payload)
        elif mine and want_mod[i] is not None and holders[0] != tdir + want_mod[i] + ".py":
            ctx.fail("types-module-name", f"the types module of {fd['base']}.proto (package {fd['pkg']}) is {holders[0]!r}, expected {tdir + want_mod[i] + '.py'!r}", payload)
        if fd["base"].startswith("_"):
            # an underscore-named PROTO FILE gives an underscore-named types module; that is not a private TEMPLATE
            underscore_ok.update(holders if mine else [n for n in mods if n.rsplit("/", 1)[1].startswith("_")])
        dirs = [base]
        if fd["messages"] or fd["enum"] or fd["services"]:
            dirs.append(base + "/types")
        for sv in range(fd["services"]):
            sname = to_snake_case("Library" if not (i or sv) else f"Svc{i}x{sv}")
            sdir = base + "/services/" + sname
            svc_dirs.add(sdir)
            if sdir + "/client.py" not in nameset:
                where = sorted(n for n in names if n.endswith("/services/" + sname + "/client.py"))
                ctx.fail("service-package-placement", f"service {sname} of {fd['base']}.proto (package {fd['pkg']}): no {sdir}/client.py; its client is at {where}", payload)
            dirs += [base + "/services", sdir]
        for d in dirs:
            while len(d) >= len(root):
                if d + "/__init__.py" not in nameset:
                    ctx.fail("init-closure", f"{fd['base']}.proto (package {fd['pkg']}): directory {d} of its import path has no __init__.py", payload)
                    break
                if d == root:
                    break
                d = os.path.dirname(d)
    # a types package imports only modules that were emitted next to it
    for tdir in sorted(type_dirs):
        init = next((f.content for f in res.file if f.name == tdir + "__init__.py"), None)
        for m in sorted(set(re.findall(r"^from \.([A-Za-z0-9_]+) import", init or "", re.M))):
            if tdir + m + ".py" not in nameset:
                ctx.fail("types-init-imports-unemitted-module", f"{tdir}__init__.py imports `.{m}` but {tdir}{m}.py is not in the response", payload)
    stray = [n for n in ntypes if os.path.dirname(n) + "/" not in type_dirs]
    if stray:
        ctx.fail("types-module-placement", f"types modules outside the sub-package directories of the target files: {stray[:4]}", payload)
    stray = sorted({m.group(1) for n in names if n.startswith(root + "/") for m in [re.match(r"(.*/services/[^/]+)/", n)] if m} - svc_dirs)
    if stray:
        ctx.fail("service-package-placement", f"service packages outside the sub-package directories of their files: {stray[:4]}", payload)
    if case.get("prefix_dep") and any(n.split("/")[-1] == "legacy.py" for n in names):
        ctx.fail("dependency-file-emitted:string-prefix-package", f"output for the dependency-only file legacy.proto of package {case['pkg']}beta: "
                 f"{[n for n in names if n.endswith('/legacy.py')]}", payload)
    dpath = (case.get("dep_pkg") or "other.common.v1").replace(".", "/") + "/"
    if case["deps"] and any(n.split("/")[-1] in ("shared.py", "deepbase.py") or n.startswith(dpath) for n in names):
        ctx.fail("dependency-file-emitted", f"output for a dependency-only file: {[n for n in names if n.split('/')[-1] in ('shared.py', 'deepbase.py') or n.startswith(dpath)][:3]}", payload)
    # DIRECTORIES: the `%sub` directories of the library and of its unit tests are exactly the sub-packages of the TARGET files (and the
    # packages between them and the API package); a dependency-only file — whatever the length of its package — contributes none
    allowed = {""}
    for fd in case["files"]:
        segs = [x for x in fd["pkg"][len(case["pkg"]):].strip(".").split(".") if x]
        for j in range(1, len(segs) + 1):
            allowed.add("/".join(segs[:j]))
    for top in (root, "tests/unit/gapic/" + root.rsplit("/", 1)[-1]):
        seen = set()
        for n in names:
            if n.startswith(top + "/"):
                segs = n[len(top) + 1:].split("/")[:-1]
                cut = next((j for j, x in enumerate(segs) if x in ("types", "services")), len(segs))
                seen.add("/".join(segs[:cut]))
        bogus = sorted(seen - allowed)
        if bogus:
            ctx.fail("directory-of-no-target-package", f"under {top}/ there are directories {bogus} that are no sub-package of a target file (target sub-packages: "
                     f"{sorted(allowed - {''})}; dependency package: {case.get('dep_pkg') if case['deps'] else None}): "
                     f"{[n for n in names if n.startswith(top + '/' + bogus[0] + '/')][:4]}", payload)
    for n in names:
        b = n.split("/")[-1]
        if b.startswith("_") and b != "__init__.py" and n not in underscore_ok:
            ctx.fail("private-template-emitted", f"underscore-prefixed file emitted: {n}", payload)
    for f in res.file:
        if f.name.endswith(".py") and not f.name.endswith("__init__.py"):
            body = [ln for ln in f.content.split("\n") if ln.strip() and not ln.strip().startswith("#")]
            if not body:
                ctx.fail("empty-module-emitted", f"{f.name} has no code", payload)


def shape_of(api):
    nm = api.naming
    def pk(view):
        return {"view": list(view),
                "services": [s.module_name for p in api.protos.values() for s in p.services.values() if tuple(s.meta.address.subpackage) == tuple(view)],
                "protos": [p.module_name for p in api.protos.values() if tuple(p.meta.address.subpackage) == tuple(view)]}
    return {"naming": {"ns": [i.lower() for i in nm.namespace], "name": nm.module_name, "version": nm.version, "versioned": nm.versioned_module_name},
            "root": pk(()), "subs": [pk(sp.subpackage_view) for sp in api.subpackages.values()]}


def layout_of(api):
    """the target protos with the sub-package each lies in; which views get rendered is for the MODEL to say (`Layout.viewsOf`)"""
    nm = api.naming
    return {"naming": {"ns": [i.lower() for i in nm.namespace], "name": nm.module_name, "version": nm.version, "versioned": nm.versioned_module_name},
            "protos": [{"sub": list(p.meta.address.subpackage), "module": p.module_name, "services": [s.module_name for s in p.services.values()]}
                       for p in api.protos.values()]}


def t2_filenames(ctx, r):
    """`Generator._get_filename` (string level) vs the segment-wise model, every template x random namings"""
    from gapic.generator import generator as gen_mod
    from gapic.utils import Options
    import translate
    tmpls = translate.extract_templates()
    g = gen_mod.Generator(Options.build(""))
    ops, metas = [], []
    for which, key in (("default", "templates"), ("ads", "adsTemplates")):
        for t in tmpls[key]:
            for _ in range(ctx.n(2, 12)):
                ns = [r.pick(NS_POOL) for _ in range(r.randint(0, 3))]
                name = r.pick(NAMES); ver = r.pick(VERSIONS)
                old = (which == "ads")
                versioned = name + ((("." if old else "_") + ver) if ver else "")
                sub = [] if r.maybe(0.5) else [r.pick(SUB_SEGS) for _ in range(r.randint(1, 3))]
                svc, proto = r.pick(["library", "svc_one"]), r.pick(["lib", "foo_bar", "import_"])
                naming = types.SimpleNamespace(namespace=tuple(s.capitalize() for s in ns), versioned_module_name=versioned, version=ver, module_name=name)
                api = types.SimpleNamespace(naming=naming, subpackage_view=tuple(sub))
                ctxd = {}
                if "%service" in t: ctxd["service"] = types.SimpleNamespace(module_name=svc)
                if "%proto" in t: ctxd["proto"] = types.SimpleNamespace(module_name=proto)
                impl = g._get_filename(t, api_schema=api, context=ctxd)
                op = {"op": "c11.filename", "template": t, "naming": {"ns": ns, "name": name, "version": ver, "versioned": versioned}, "sub": sub}
                if "service" in ctxd: op["service"] = svc
                if "proto" in ctxd: op["proto"] = proto
                ops.append(op); metas.append((t, impl, op))
    for (t, impl, op), mo in zip(metas, ctx.driver.ask(ops)):
        ctx.case(distinct_key=["fn", json.dumps(op, sort_keys=True)]); ctx.traces += 1
        if mo.get("r") != impl:
            ctx.disagree("T2:c11._get_filename", f"template {t!r}: model {mo.get('r')!r} vs impl {impl!r}", {"op": op})
        if impl.startswith("/") or any(s in ("", ".", "..") for s in impl.split("/")):
            ctx.fail("name-not-normalised", f"_get_filename gives {impl!r}", {"op": op})

PKG_SEGS = ["acme", "google", "cloud", "lib", "v1", "v1beta1", "v2alpha", "v1p1beta1", "v", "v1x", "v10", "my_api", "a1", "x_", "sub", "types", "v1p2", "vbeta", "version1", "lib2"]
OPT_KEYS = ["transport", "metadata", "old-naming", "lazy-import", "add-iam-methods", "autogen-snippets", "rest-numeric-enums", "proto-plus-deps",
            "warehouse-package-name", "python-gapic-name", "python-gapic-namespace", "python-gapic-foo", "python-gapic-", "foo", "go-gapic-package",
            "Transport", "transport ", " metadata", "python-gapic-transport", "python-gapic-metadata", "name", "namespace", ""]
OPT_KEYS += ["legacy-python-gapic-name", "x-python-gapic-namespace", "go-python-gapic-transport", "Xpython-gapic-metadata", "my_python-gapic-warehouse-package-name",
             "not-python-gapic-old-naming", "py-python-gapic-x-python-gapic-name"]
OPT_VALS = [None, "true", "false", "grpc", "rest", "grpc+rest", "a=b", "a=b=c", "", " x ", "T", "True", "x+y+", "acme.v1+acme.v2", "=", "Acme"]


def t2_naming_options(ctx, r):
    """`Naming.build` (root package, namespace/name/version inference) and `Options.build` (the option multimap and the
    Options instance) against the model that runs the PINNED patterns through the regex engine"""
    import warnings
    from google.protobuf import descriptor_pb2
    from gapic.schema.naming import Naming
    from gapic.utils import Options
    ops, metas = [], []
    for i in range(ctx.n(150, 2500)):
        n = r.randint(1, 3)
        base = [r.pick(PKG_SEGS) for _ in range(r.randint(1, 4))]
        pkgs = []
        for _ in range(n):
            p = list(base)
            if r.maybe(0.4): p = p + [r.pick(PKG_SEGS)]
            if r.maybe(0.15) and len(p) > 1: p = p[:-1]
            if r.maybe(0.1): p[-1] = p[-1] + r.pick(["x", "1", "beta"])
            pkgs.append(".".join(p))
        try:
            nm = Naming.build(*[descriptor_pb2.FileDescriptorProto(name=f"f{k}.proto", package=p) for k, p in enumerate(pkgs)])
            impl = {"match": True, "ns": [x.lower() for x in nm.namespace], "name": nm.name.lower(), "version": nm.version, "versioned": nm.versioned_module_name,
                    "root": nm.proto_package, "raw_ns": list(nm.namespace), "raw_name": nm.name}
        except (ValueError, AttributeError, TypeError) as e:
            impl = {"match": False, "err": type(e).__name__}
        ops.append({"op": "c11.naming", "pkgs": pkgs}); metas.append(("naming", pkgs, impl))
    for i in range(ctx.n(150, 2500)):
        parts = []
        for _ in range(r.randint(0, 5)):
            k = r.pick(OPT_KEYS); v = r.pick(OPT_VALS)
            parts.append(k if v is None else f"{k}={v}")
            if r.maybe(0.1): parts[-1] = " " + parts[-1] + " "
        if r.maybe(0.3):
            # a single-valued key REPEATED with different values (which occurrence is read differs from key to key)
            k = r.pick(["python-gapic-name", "warehouse-package-name", "python-gapic-warehouse-package-name", "transport", "python-gapic-transport",
                        "autogen-snippets", "proto-plus-deps"])
            for v in r.sample(["grpc", "rest", "true", "false", "a_b", "x+y", "Shelf"], r.pick([2, 2, 3])):
                parts.insert(r.randint(0, len(parts)), f"{k}={v}")
        s = ",".join(parts)
        with warnings.catch_warnings(record=True) as w:
            warnings.simplefilter("always")
            try:
                o = Options.build(s)
                impl = {"name": o.name, "namespace": list(o.namespace), "warehouse": o.warehouse_package_name, "autogen": o.autogen_snippets, "lazy": o.lazy_import,
                        "old": o.old_naming, "iam": o.add_iam_methods, "metadata": o.metadata, "transport": list(o.transport), "numeric": o.rest_numeric_enums,
                        "deps": list(o.proto_plus_deps)}
            except Exception as e:
                impl = {"err": f"{type(e).__name__}: {e}"}
        if "err" not in impl:
            impl["unrecognised"] = [str(x.message).split("`python-gapic-", 1)[1].rstrip(".").rstrip("`") for x in w if "Unrecognized option" in str(x.message)]
            # model-free: a foreign key that contains the prefix in the middle, put in front or at the end, changes nothing Options.build returns
            fo = foreign_option(r)
            if "/nonexistent" not in fo:
                s2 = (fo + "," + s if r.maybe() else s + "," + fo) if s else fo
                with warnings.catch_warnings(record=True) as w2:
                    warnings.simplefilter("always")
                    try:
                        o2 = Options.build(s2)
                        impl2 = {"name": o2.name, "namespace": list(o2.namespace), "warehouse": o2.warehouse_package_name, "autogen": o2.autogen_snippets, "lazy": o2.lazy_import,
                                 "old": o2.old_naming, "iam": o2.add_iam_methods, "metadata": o2.metadata, "transport": list(o2.transport), "numeric": o2.rest_numeric_enums,
                                 "deps": list(o2.proto_plus_deps)}
                        impl2["unrecognised"] = [str(x.message).split("`python-gapic-", 1)[1].rstrip(".").rstrip("`") for x in w2 if "Unrecognized option" in str(x.message)]
                    except Exception as e:
                        impl2 = {"err": f"{type(e).__name__}: {e}"}
                if impl2 != impl:
                    ch = sorted(k for k in set(impl) | set(impl2) if impl.get(k) != impl2.get(k))
                    ctx.fail("foreign-prefixed-option-read", f"Options.build({s2!r}) differs from Options.build({s!r}) in {ch}: {[(k, impl.get(k), impl2.get(k)) for k in ch][:3]} — the key of "
                             f"{fo!r} only CONTAINS `python-gapic-`", {"opts_pair": [s, s2]})
        ops.append({"op": "c11.opts", "s": s}); metas.append(("opts", s, impl))
    for (kind, inp, impl), mo in zip(metas, ctx.driver.ask(ops)):
        ctx.case(distinct_key=[kind, json.dumps(inp)]); ctx.traces += 1
        if kind == "naming":
            ctx.count("naming", "match" if impl["match"] else "rejected:" + impl.get("err", ""))
            if impl["match"] != mo.get("match"):
                # an empty root package is a ValueError in both; anything else the model does not predict is a disagreement
                ctx.disagree("T2:c11.Naming.build", f"packages {inp}: model match={mo.get('match')} (root {mo.get('root')!r}) vs impl {impl}", {"op": {"op": "c11.naming", "pkgs": inp}})
                continue
            if impl["match"]:
                for k in ("ns", "name", "version", "versioned", "root"):
                    if mo.get(k) != impl[k]:
                        ctx.disagree("T2:c11.Naming.build", f"packages {inp}: {k}: model {mo.get(k)!r} vs impl {impl[k]!r}", {"op": {"op": "c11.naming", "pkgs": inp}})
                        break
                # the package root every output path hangs under is non-empty and has no separators
                if not impl["name"] or "/" in impl["versioned"] or any((not x) or "/" in x for x in impl["ns"]):
                    ctx.fail("naming-gives-bad-root", f"packages {inp}: namespace {impl['raw_ns']} name {impl['raw_name']!r} version {impl['version']!r}", {"pkgs": inp})
        else:
            if "err" in impl:
                ctx.fail("options-raise", f"Options.build({inp!r}) raises {impl['err']}", {"opts": inp})
                continue
            ctx.count("options", "with-unrecognised" if impl["unrecognised"] else "clean")
            for k, v in impl.items():
                if mo.get(k) != v:
                    ctx.disagree("T2:c11.Options.build", f"option string {inp!r}: {k}: model {mo.get(k)!r} vs impl {v!r}", {"op": {"op": "c11.opts", "s": inp}})
                    break


NS_VALUE_SEGS = ["google", "cloud", "ads", "foo", "bar", "a1", "x_y", "Zed", "ACME"]
NAME_VALUES = ["my_lib", "shelf", "pub sub", "pub_sub_2", "ai", "My_Api"]


def naming_with_overrides(pkgs, params):
    """`Naming.build(*files, opts=Options.build(params))` -> the observables of the package root"""
    import warnings
    from google.protobuf import descriptor_pb2
    from gapic.schema.naming import Naming
    from gapic.utils import Options
    with warnings.catch_warnings():
        warnings.simplefilter("ignore")
        opts = Options.build(params)
    nm = Naming.build(*[descriptor_pb2.FileDescriptorProto(name=f"f{k}.proto", package=p) for k, p in enumerate(pkgs)], opts=opts)
    return {"nsWith": [x.lower() for x in nm.namespace], "module": nm.module_name, "versionedModule": nm.versioned_module_name,
            "module_namespace": list(nm.module_namespace), "version": nm.version,
            "transport": list(opts.transport), "warehouse": opts.warehouse_package_name}


def t2_naming_overrides(ctx, r):
    """the CLI overrides of `Naming.build`: the namespace key REPEATED 1..4 times, every value with 1..3 dotted components, the
    single-valued keys name (0..3 values, snake case / blanks), transport and warehouse-package-name (0..3 different values, bare
    and prefixed), unknown options in between, given as an option STRING (Options.build -> Naming.build), against the model's
    `packageDir` of the same string (`lastValue`/`firstValue`, `nsWith`, `nameOverrideText` + the pinned `to_valid_module_name`):
    a wrong winner of a repeated key is the failure `override-winner`; and, model-free, the package root they yield"""
    ops, metas = [], []
    for i in range(ctx.n(200, 3000)):
        ns = [r.pick(NS_POOL) for _ in range(r.randint(0, 3))]
        ver = r.pick(VERSIONS)
        pkg = ".".join(ns + [r.pick(NAMES)] + ([ver] if ver else []))
        nvals = r.pick([0, 1, 1, 2, 2, 3, 4])
        vals = [".".join(r.pick(NS_VALUE_SEGS) for _ in range(r.pick([1, 1, 2, 3]))) for _ in range(nvals)]
        names = [r.pick(NAME_VALUES) for _ in range(r.pick([0, 0, 1, 1, 2, 2, 3]))]
        parts = ["python-gapic-namespace=" + v for v in vals]
        for nmv in names:
            parts.insert(r.randint(0, len(parts)), "python-gapic-name=" + nmv)
        # the other single-valued keys, repeated with different values (bare and prefixed spelling), and unknown options in between
        for v in r.sample(["grpc", "rest", "grpc+rest", "rest+grpc"], r.pick([0, 0, 1, 2, 3])):
            parts.insert(r.randint(0, len(parts)), r.pick(["transport=", "python-gapic-transport="]) + v)
        for v in r.sample(["a-b", "acme-lib", "x"], r.pick([0, 0, 1, 2, 3])):
            parts.insert(r.randint(0, len(parts)), r.pick(["warehouse-package-name=", "python-gapic-warehouse-package-name="]) + v)
        for _ in range(r.randint(0, 2)):
            parts.insert(r.randint(0, len(parts)), r.pick(["metadata", "zzz=1", "python-gapic-foo=x.y", "name=bare_is_not_read", "some-other-plugin-opt=1"]))
        params = ",".join(parts)
        inp = {"pkgs": [pkg], "params": params}
        try:
            impl = naming_with_overrides([pkg], params)
        except Exception as e:
            ctx.fail("naming-override-raises", f"Naming.build for package {pkg!r} with options {params!r} raises {type(e).__name__}: {e}", {"naming": inp})
            continue
        # the model gets the option STRING: which occurrence of a repeated key is read is its business (`lastValue` / `firstValue`)
        op = {"op": "c11.root", "pkgs": [pkg], "s": params}
        ops.append(op); metas.append((inp, vals, names, impl, op))
    for (inp, vals, names, impl, op), mo in zip(metas, ctx.driver.ask(ops)):
        ctx.case(distinct_key=["override", json.dumps(inp, sort_keys=True)]); ctx.traces += 1
        ctx.count("namespace-override", f"{len(vals)} values, {'dotted' if any('.' in v for v in vals) else 'plain'}" if vals else "none")
        ctx.count("repeated-single-valued", f"name x{len(set(mo.get('names', [])))} transport x{len(set(mo.get('transports', [])))}")
        check_override_root(ctx, inp, vals, impl)
        check_override_winner(ctx, inp, impl, mo, op)


def check_override_winner(ctx, inp, impl, mo, op):
    """the package directory and the transports under REPEATED single-valued keys, against the model of Options.build
    (`name`, `warehouse-package-name`: last occurrence; `transport`: first occurrence) + Naming.build"""
    payload = {"naming": inp, "op": op}
    if not mo.get("match"):
        ctx.disagree("T2:c11.Naming.build+overrides", f"{inp}: the model infers no naming", payload)
        return
    got_dir = impl["nsWith"] + [impl["versionedModule"]]
    if got_dir != mo["dir"]:
        if len(set(mo["names"])) > 1 and impl["nsWith"] == mo["dir"][:-1]:
            # the namespace part agrees, the module part does not, and the name key was given with different values
            ctx.fail("override-winner", f"{inp}: `name` given as {mo['names']}: Options.build reads the LAST value {mo['name']!r}, so the package directory is "
                     f"{'/'.join(mo['dir'])!r}; the implementation places it under {'/'.join(got_dir)!r}", payload)
        else:
            ctx.disagree("T2:c11.Naming.build+overrides", f"{inp}: package directory: model {mo['dir']} vs impl {got_dir}", payload)
    elif mo["module"] != impl["module"]:
        ctx.disagree("T2:c11.Naming.build+overrides", f"{inp}: module: model {mo['module']!r} vs impl {impl['module']!r}", payload)
    if mo["transport"] != impl["transport"]:
        if len(set(mo["transports"])) > 1:
            ctx.fail("override-winner", f"{inp}: `transport` given as {mo['transports']}: Options.build reads the FIRST value, so the transports (which decide the "
                     f"transport files emitted) are {mo['transport']}; the implementation uses {impl['transport']}", payload)
        else:
            ctx.disagree("T2:c11.Options.build", f"{inp}: transport: model {mo['transport']} vs impl {impl['transport']}", payload)
    if mo["warehouse"] != impl["warehouse"]:
        # not a file NAME (it is the distribution name inside setup.py): outside the statement of C11, a model/impl difference only
        ctx.disagree("T2:c11.Options.build", f"{inp}: warehouse-package-name: model {mo['warehouse']!r} vs impl {impl['warehouse']!r}", payload)


def check_override_root(ctx, inp, vals, impl):
    """the package root under a namespace override, stated on the implementation alone: one directory per dotted component of
    every value (in order), each a plain path segment — so that the directory path is the import path the emitted modules use"""
    if vals:
        want = [seg.lower() for v in vals for seg in v.split(".")]
        if impl["nsWith"] != want:
            ctx.fail("package-root:namespace-override", f"{inp}: namespace directories {impl['nsWith']} for the override values {vals} (expected {want})", {"naming": inp})
    if any((not x) or "/" in x or "." in x for x in impl["nsWith"]) or any("." in x for x in impl["module_namespace"]) \
            or not impl["module"] or "/" in impl["versionedModule"]:
        ctx.fail("naming-gives-bad-root", f"{inp}: namespace {impl['nsWith']} (modules {impl['module_namespace']}) module {impl['versionedModule']!r}", {"naming": inp})


def run_case(ctx, case, label):
    files, targets = build_files(case)
    payload = {"case": case}
    params = ",".join(case["opts"])
    req = apigen.request(files, params, targets=targets)
    res, err = genrun.try_generate(req)
    if err:
        ctx.fail("generation:" + err[0], f"generator raised {err[0]}: {err[1]}", payload)
        return
    # the winners of repeated single-valued keys and the package directory, from the MODEL of Options.build + Naming.build
    mroot = ctx.driver.ask([{"op": "c11.root", "pkgs": sorted({fd["pkg"] for fd in case["files"]}), "s": params}])[0]
    oracle(ctx, case, res, files, targets, payload, mroot)
    # unknown / repeated options are ignored
    before = case.get("unknown_before") or []
    res2, err2 = genrun.try_generate(apigen.request(files, ",".join(before + case["opts"] + case["unknown"]), targets=targets))
    foreign = [u for u in before + case["unknown"] if "python-gapic-" in u.split("=", 1)[0] and not u.strip().startswith("python-gapic-")]
    if err2:
        key = "option-with-two-equals" if any(u.count("=") > 1 for u in case["unknown"]) else ("foreign-prefixed-option-read" if foreign else "unknown-option-raises")
        ctx.fail(key, f"unknown options {before + case['unknown']} make the generator raise {err2[0]}: {err2[1]}", payload)
    elif res2.SerializeToString(deterministic=True) != res.SerializeToString(deterministic=True):
        diff = [a.name for a, b in zip(res.file, res2.file) if a != b][:3]
        only2 = sorted(set(f.name for f in res2.file) - set(f.name for f in res.file))[:3]
        if foreign:
            # is it the foreign keys? generate once more with them alone
            res3, err3 = genrun.try_generate(apigen.request(files, ",".join([u for u in before if u in foreign] + case["opts"] + [u for u in case["unknown"] if u in foreign]), targets=targets))
            if err3 or res3.SerializeToString(deterministic=True) != res.SerializeToString(deterministic=True):
                ctx.fail("foreign-prefixed-option-read", f"options of another plugin whose key only CONTAINS `python-gapic-` ({foreign}; before the genuine options: "
                         f"{[u for u in before if u in foreign]}) change the response: {('raises ' + err3[0]) if err3 else ''} files that differ {diff}, new names {only2}", payload)
                return
        first_tr = [o for o in case["opts"] if o.startswith("transport=")][:1]
        later_tr = [u for u in case["unknown"] if u.startswith("transport=") and u not in first_tr]
        if first_tr and later_tr:
            ctx.fail("override-winner", f"{first_tr[0]} followed later by {later_tr}: `transport` is read at its FIRST occurrence, yet the later one changes the "
                     f"response (e.g. {diff}; all appended options: {case['unknown']})", payload)
        else:
            ctx.fail("unknown-option-changes-output", f"unknown options {case['unknown']} change the response (e.g. {diff})", payload)
    # T3: file-name set vs the model
    api, opts = genrun.build_api(req)
    ex = api.all_library_settings[api.naming.proto_package].python_settings.experimental_features
    op = {"op": "c11.renders", "templates": "default", "layout": layout_of(api),
          "opts": {"transport": mroot["transport"] if mroot.get("match") else list(opts.transport), "metadata": bool(opts.metadata), "restAsync": bool(ex.rest_async_io_enabled),
                   "unversionedDisabled": bool(ex.unversioned_package_disabled)}}
    mo = ctx.driver.ask([op])[0]
    got = sorted(f.name for f in res.file if not f.name.startswith("samples/"))      # WITH multiplicity: the model's names are unique
    model = sorted(mo["files"])
    if len(set(model)) != len(model):
        ctx.disagree("T3:c11.file-set", "the model's response names are not unique", payload)
    ctx.traces += 1
    extra = [n for n in got if n not in model] + [n for n in set(got) if got.count(n) > 1]
    missing = [n for n in model if n not in got]
    # the empty-module rule: a model file may be absent iff its module would be empty (only pagers.py can be, when no method is paged)
    # (pagers.py when no method is paged) or it is a macro-only template (feature_fragments, test_macros)
    unexplained = [n for n in missing if not (n.endswith("/pagers.py") or n == "examples/feature_fragments" or n.endswith("/test_macros"))]
    if extra or unexplained:
        ctx.disagree("T3:c11.file-set", f"emitted but not in model: {extra[:4]}; in model but not emitted: {unexplained[:4]}", payload)
    ctx.count("files", len(got) // 10 * 10); ctx.count("subpackage", bool(case["sub"])); ctx.count("version", case["version"] or "none")


CORPUS = [
    # a dependency-only file in `acme.lib.v1beta` next to the API package `acme.lib.v1` (open finding)
    {"pkg": "acme.lib.v1", "ns": ["acme"], "name": "lib", "version": "v1", "deps": False, "sub": None, "override_name": None, "override_ns": None, "prefix_dep": True,
     "files": [{"base": "lib", "pkg": "acme.lib.v1", "messages": 1, "enum": False, "services": 1}],
     "opts": ["transport=grpc", "autogen-snippets=false"], "unknown": ["zzz=1"]},
    # two target files whose names sanitise to one module name, the dotted one second
    {"pkg": "acme.lib.v1", "ns": ["acme"], "name": "lib", "version": "v1", "deps": False, "sub": None, "override_name": None, "override_ns": None,
     "files": [{"base": "lib", "pkg": "acme.lib.v1", "messages": 1, "enum": False, "services": 1},
               {"base": "shelf_types", "pkg": "acme.lib.v1", "messages": 1, "enum": False, "services": 0},
               {"base": "shelf.types", "pkg": "acme.lib.v1", "messages": 1, "enum": True, "services": 0}],
     "opts": ["transport=grpc", "autogen-snippets=false"], "unknown": ["zzz=1"]},
    # §9-F13: an option value containing two '='
    {"pkg": "acme.lib.v1", "ns": ["acme"], "name": "lib", "version": "v1", "deps": False, "sub": None, "override_name": None, "override_ns": None,
     "files": [{"base": "lib", "pkg": "acme.lib.v1", "messages": 1, "enum": False, "services": 1}],
     "opts": ["transport=grpc", "autogen-snippets=false"], "unknown": ["foo=a=b"]},
    # nesting below an EMPTY intermediate package (`acme.lib.v1` + `acme.lib.v1.admin.audit`; nothing in `.admin`), messages only
    {"pkg": "acme.lib.v1", "ns": ["acme"], "name": "lib", "version": "v1", "deps": False, "sub": ["admin.audit"], "override_name": None, "override_ns": None,
     "files": [{"base": "lib", "pkg": "acme.lib.v1", "messages": 1, "enum": False, "services": 1},
               {"base": "log", "pkg": "acme.lib.v1.admin.audit", "messages": 2, "enum": True, "services": 0}],
     "opts": ["transport=grpc", "autogen-snippets=false"], "unknown": ["zzz=1"]},
    # three levels, two empty intermediate packages, a service at the bottom, and a second populated branch
    {"pkg": "acme.lib.v1", "ns": ["acme"], "name": "lib", "version": "v1", "deps": True, "sub": ["s.t.u", "s.admin", "s.admin.admin"], "override_name": None, "override_ns": None,
     "files": [{"base": "lib", "pkg": "acme.lib.v1", "messages": 1, "enum": False, "services": 1},
               {"base": "leaves", "pkg": "acme.lib.v1.s.t.u", "messages": 1, "enum": False, "services": 1},
               {"base": "ops", "pkg": "acme.lib.v1.s.admin", "messages": 1, "enum": False, "services": 0},
               {"base": "more", "pkg": "acme.lib.v1.s.admin.admin", "messages": 1, "enum": False, "services": 1}],
     "opts": ["transport=grpc+rest", "autogen-snippets=false", "metadata"], "unknown": ["unknown"]},
    # `python-gapic-name` given three times with different values between other options: the LAST one names the package
    {"pkg": "acme.lib.v1", "ns": ["acme"], "name": "lib", "version": "v1", "deps": False, "sub": None, "override_name": ["a", "shelf", "book_shelf"], "override_ns": ["org.acme"],
     "files": [{"base": "lib", "pkg": "acme.lib.v1", "messages": 1, "enum": False, "services": 1}],
     "opts": ["python-gapic-name=a", "transport=grpc", "python-gapic-name=shelf", "autogen-snippets=false", "python-gapic-namespace=org.acme", "some-other-plugin-opt=1",
              "python-gapic-name=book_shelf", "warehouse-package-name=first", "python-gapic-warehouse-package-name=second"],
     "unknown": ["zzz=1", "transport=rest", "python-gapic-name=book_shelf"]},
    # target proto files whose names start with underscores (one defines the service, one sits in a sub-package): each keeps its types
    # module `types/_internal.py`, `types/__private.py` — the "private" rule is about TEMPLATE names
    {"pkg": "acme.lib.v1", "ns": ["acme"], "name": "lib", "version": "v1", "deps": False, "sub": ["admin"], "override_name": None, "override_ns": None,
     "files": [{"base": "_internal", "pkg": "acme.lib.v1", "messages": 1, "enum": False, "services": 1},
               {"base": "lib", "pkg": "acme.lib.v1", "messages": 1, "enum": True, "services": 0},
               {"base": "_", "pkg": "acme.lib.v1", "messages": 1, "enum": False, "services": 0},
               {"base": "__private", "pkg": "acme.lib.v1.admin", "messages": 2, "enum": False, "services": 1}],
     "opts": ["transport=grpc+rest", "autogen-snippets=false"], "unknown": ["zzz=1"]},
    # a SHORT target package importing a dependency-only file with a LONGER package (`lib.v1` <- `google.iam.v1` <- `google.iam.v1.deeper.v3`):
    # the extra segments of the dependency's package are no sub-package of the API, no directory is emitted for them
    {"pkg": "lib.v1", "ns": [], "name": "lib", "version": "v1", "deps": True, "dep_pkg": "google.iam.v1", "dep2": True, "sub": None, "override_name": None, "override_ns": None,
     "files": [{"base": "lib", "pkg": "lib.v1", "messages": 1, "enum": False, "services": 1}],
     "opts": ["transport=grpc", "autogen-snippets=false"], "unknown": ["zzz=1"]},
    # likewise unversioned (`library` <- `google.cloud.location`) and with a real sub-package next to it
    {"pkg": "library", "ns": [], "name": "library", "version": "", "deps": True, "dep_pkg": "google.cloud.location", "sub": None, "override_name": None, "override_ns": None,
     "files": [{"base": "lib", "pkg": "library", "messages": 1, "enum": False, "services": 1}],
     "opts": ["transport=rest", "autogen-snippets=false"], "unknown": ["unknown"]},
    {"pkg": "acme.v1", "ns": [], "name": "acme", "version": "v1", "deps": True, "dep_pkg": "other.common.v1.admin", "sub": ["admin"], "override_name": None, "override_ns": None,
     "files": [{"base": "lib", "pkg": "acme.v1", "messages": 1, "enum": False, "services": 1},
               {"base": "ops", "pkg": "acme.v1.admin", "messages": 1, "enum": False, "services": 0}],
     "opts": ["transport=grpc+rest", "autogen-snippets=false"], "unknown": ["zzz=1"]},
    # a package without namespace segments (setup.py.j2 crashed before the C11 fix: commit)
    {"pkg": "lib.v1", "ns": [], "name": "lib", "version": "v1", "deps": False, "sub": None, "override_name": None, "override_ns": None,
     "files": [{"base": "lib", "pkg": "lib.v1", "messages": 1, "enum": False, "services": 1}],
     "opts": ["transport=rest", "autogen-snippets=false"], "unknown": ["unknown"]},
]


INIT_PROTO_CASE = {"pkg": "acme.lib.v1", "ns": ["acme"], "name": "lib", "version": "v1", "deps": False, "sub": None, "override_name": None, "override_ns": None,
                   "init_proto": True,
                   "files": [{"base": "lib", "pkg": "acme.lib.v1", "messages": 1, "enum": False, "services": 1},
                             {"base": "__init__", "pkg": "acme.lib.v1", "messages": 1, "enum": False, "services": 0}],
                   "opts": ["transport=grpc", "autogen-snippets=false"], "unknown": ["zzz=1"]}


def run_init_proto(ctx, case):
    """a target file named `__init__.proto` (open finding, corpus/C11/init_proto.json): its module name is `__init__`, so its types
    module and the types package's own `__init__.py` are ONE response name; reported under its own key, apart from the general oracle"""
    files, targets = build_files(case)
    payload = {"case": case}
    res, err = genrun.try_generate(apigen.request(files, ",".join(case["opts"]), targets=targets))
    if err:
        ctx.fail("generation:" + err[0], f"generator raised {err[0]}: {err[1]}", payload)
        return
    k = 0
    for fd in case["files"]:
        mine = [f"Msg{j}" for j in range(k, k + fd["messages"])]; k += fd["messages"]
        if fd["base"] != "__init__":
            continue
        tdir = expected_root(case)[0] + "/types/"
        holders = [f.name for f in res.file if f.name.startswith(tdir) and f.name != tdir + "__init__.py" and all(f"class {m}(" in f.content for m in mine)]
        if len(holders) != 1:
            init = next((f.content for f in res.file if f.name == tdir + "__init__.py"), "")
            ctx.fail("types-module-lost:__init__.proto", f"messages {mine} of __init__.proto are classes of no types module under {tdir} "
                     f"({sorted(f.name for f in res.file if f.name.startswith(tdir))}); {tdir}__init__.py "
                     f"{'imports from itself (`from .__init__ import`)' if 'from .__init__ import' in init else 'does not mention them'}", payload)
    ctx.traces += 1


def run(ctx):
    ctx.rule = ("layout profile: 0..3 namespace segments x versions {v1, v1beta1, v1p1beta1, v2alpha, none} x 1..3 target files with names needing "
                "sanitising or starting/ending with underscores, with digits and upper case x optional dependency file(s) whose package has 1..5(+2) "
                "segments (shorter / as long as / LONGER than the target package) x optional sub-package tree (1..3 levels, 1..2 branches, intermediate packages with and "
                "without files, services/messages at any level) x option strings (known, unknown, foreign keys containing `python-gapic-<known suffix>` in the middle before/after the genuine ones, repeated keys, "
                "name override as 1..3 repeated keys with different values, repeated transport / warehouse-package-name, namespace override as "
                "1..3 repeated keys each with 1..3 dotted components, interleaved); Naming.build under override option strings (0..4 namespace "
                "values, 0..3 name / transport / warehouse values) x packages; _get_filename: every template of both template sets x random namings; distinct by case")
    ctx.assume("no RANDOM target file is named `__init__.proto` (its types module would be the types package's __init__.py: open finding, replayed from the corpus)")
    ctx.assume("sub-package segments are not `types`/`services` (they would share a directory with the types/services packages of the parent)")
    ctx.assume("namespace/name override values are made of [A-Za-z0-9_] components separated by '.' (names also by blanks), no empty component")
    r = ctx.rng("layout")
    t2_filenames(ctx, r)
    t2_naming_options(ctx, r)
    t2_naming_overrides(ctx, r)
    run_init_proto(ctx, INIT_PROTO_CASE)
    ctx.case({"case": "acme.lib.v1", "files": ["lib", "__init__"]}, distinct_key=["case", json.dumps(INIT_PROTO_CASE, sort_keys=True)])
    for c in CORPUS:
        run_case(ctx, c, "corpus")
        ctx.case({"case": c["pkg"], "unknown": c["unknown"]}, distinct_key=["case", json.dumps(c, sort_keys=True)])
    for i in range(ctx.n(24, 400)):
        case = gen_case(r, i)
        run_case(ctx, case, f"case{i}")
        ctx.case({"pkg": case["pkg"], "files": [f["base"] for f in case["files"]], "opts": case["opts"], "unknown": case["unknown"]} if i < 3 else None,
                 distinct_key=["case", json.dumps(case, sort_keys=True)])


def search(ctx):
    r = ctx.rng("search")
    t2_naming_overrides(ctx, r)
    for i in range(150):
        run_case(ctx, gen_case(r, i), f"search{i}")


def replay(ctx, payload):
    import leanio
    ctx.driver = leanio.Driver()
    if "case" in payload and payload["case"].get("init_proto"):
        run_init_proto(ctx, payload["case"])
    elif "case" in payload:
        run_case(ctx, payload["case"], "replay")
    if "opts_pair" in payload:
        import warnings
        from gapic.utils import Options
        def ob(x):
            with warnings.catch_warnings():
                warnings.simplefilter("ignore")
                o = Options.build(x)
            return (o.name, tuple(o.namespace), o.warehouse_package_name, o.autogen_snippets, o.lazy_import, o.old_naming, o.add_iam_methods, o.metadata,
                    tuple(o.transport), o.rest_numeric_enums, tuple(o.proto_plus_deps))
        a, b = payload["opts_pair"]
        if ob(a) != ob(b):
            ctx.fail("foreign-prefixed-option-read", f"Options.build({b!r}) differs from Options.build({a!r})", payload)
    if "naming" in payload:
        inp = payload["naming"]
        vals = [p.strip().split("=", 1)[1] for p in inp["params"].split(",") if p.strip().startswith("python-gapic-namespace=")]
        try:
            impl = naming_with_overrides(inp["pkgs"], inp["params"])
            check_override_root(ctx, inp, vals, impl)
            op = {"op": "c11.root", "pkgs": inp["pkgs"], "s": inp["params"]}
            check_override_winner(ctx, inp, impl, ctx.driver.ask([op])[0], op)
        except Exception as e:
            ctx.fail("naming-override-raises", f"{inp}: {type(e).__name__}: {e}", payload)
    for f in ctx.failures:
        print("  failure:", f["key"], "-", f["what"])
    return not ctx.failures


CLAIM = dict(
    text="Lean 4 proofs on a segment-wise model of Generator._get_filename/_render_template, instantiated by `decide` on the bridged "
         "template lists of BOTH template sets: every output segment is normalised for every clean naming (names_relative_normalised), "
         "library sources sit under <namespace>/<name>_<version>/ (python_under_package_root), substitution is a segment-wise "
         "homomorphism, __init__.py closure at template level, __init__ templates are never gated, private templates and the metadata "
         "file are skipped as stated. Tie: T1 bridge of template lists/regexes/tables; T2 the real string-level _get_filename vs the "
         "model on every template x random namings, Naming.build under name/namespace override option strings (repeated and dotted "
         "namespace keys: nsOverride_eq_flatMap, nsOverride_spelling, nsOverride_segments_clean) vs the model; T3 the response's file-name set vs the model's `renders` on generated layouts; "
         "model-independent oracle for every clause (uniqueness, normalisation, root, closure, counts, dependency files, private/empty "
         "modules, unknown options byte-identical, proto3-optional flag).",
    technique="Lean 4 theorems + `decide` over translator-bridged template tables; differential T2/T3 of file names; direct oracle",
    design="7.11",
    note="The lift of template-level __init__ closure to every emitted tree, Naming.build and Options.build are not proved (oracle + T3 only). "
         "Sub-packages nest to any depth in the model (Layout.viewsOf: prefix closure; proto_file_under_own_subpackage, "
         "service_file_under_own_subpackage, per_view_file_on_every_prefix); the ORDER in which the views are visited is not modelled.",
)
