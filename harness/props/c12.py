"""C12 — reserved-word and colliding names are disambiguated without altering the wire (DESIGN §7.12)."""
from __future__ import annotations
import json, keyword, re
import apigen, genrun, libhost, rpc

PKG = "acme.lib.v1"


def tables():
    from gapic.utils.reserved_names import RESERVED_NAMES
    return sorted(RESERVED_NAMES), sorted(keyword.kwlist)


def words():
    res, kw = tables()
    extra = ["match", "case", "title", "display_name"]
    out = []
    for w in res + kw + extra:
        if w not in out:
            out.append(w)
    return out


def cap(w):
    return w[:1].upper() + w[1:]


def json_name(w):
    return apigen.json_name(w)


def attr(w):
    res, _ = tables()
    return w + "_" if w in res else w


def file_base_ok(w):
    return re.fullmatch(r"[a-z][a-z0-9_]*", w) is not None


ALL_POS = ("get", "create", "update", "route", "query", "rpc", "file")


def coll(w):
    return w + "s"


def build_safe_api(w, include=ALL_POS):
    """API-A: the word in every position of the property that is expected to work"""
    fname = f"acme/lib/v1/{w}.proto" if (file_base_ok(w) and "file" in include) else "acme/lib/v1/lib.proto"
    f = apigen.File(fname, PKG)
    inner = f.msg("Inner"); inner.field(w, "string", 1)
    thing = f.msg("Thing"); thing.field("name", "string", 1)
    if w != "name":
        thing.field(w, "string", 2)
    thing.field("inner", "message", 3, type_name=inner)
    g = f.msg("GetThingRequest"); g.field(w, "string", 1); g.field("other", "string", 2)
    c = f.msg("CreateThingRequest"); c.field("parent", "string", 1); c.field(w, "message", 2, type_name=thing)
    u = f.msg("UpdateThingRequest"); u.field("thing", "message", 1, type_name=thing)
    r = f.msg("RouteRequest"); r.field(w, "string", 1)
    s = f.service("Library")
    if "get" in include:
        # the collection id CONTAINS the word (`{license=licenses/*}`): renaming the variable must not touch the literal segment
        s.method("GetThing", g, thing, http=("get", "/v1/{%s=%s/*}" % (w, coll(w))), sigs=[w])
    if "create" in include:
        s.method("CreateThing", c, thing, http=("post", "/v1/{parent=shelves/*}/things"), body=w, sigs=[f"parent,{w}"])
        # the body field on URIs WITHOUT any path variable: as the primary binding (collection-level custom verb) and as an additional binding
        s.method("SearchThings2", c, thing, http=("post", "/v1/things:search"), body=w)
        s.method("ImportThing", c, thing, http=("post", "/v1/{parent=shelves/*}/things:import"), body=w, bindings=[("post", "/v1/things:import", w)])
    if "update" in include:
        s.method("UpdateThing", u, thing, http=("patch", "/v1/{thing.name=things/*}"), body="thing", sigs=[f"thing.{w}"])
    if "route" in include:
        s.method("Route", r, thing, routing=[(w, "{rk=**}")])
        # routing parameters WITHOUT a path template: the key on the wire is the proto field path itself (top-level and nested)
        rb = f.msg("RouteBareRequest"); rb.field(w, "string", 1); rb.field("scope", "message", 2, type_name=inner)
        s.method("RouteBare", rb, thing, routing=[(w, None), ("scope." + w, None)])
    if "query" in include:
        # the word as a REST QUERY parameter: top-level (annotated REQUIRED: the transport keeps a table of such fields, keyed by
        # their JSON names, to send unset ones with their default), nested (`scope.<word>`), and next to a body field
        q = f.msg("ListThingsRequest"); q.field("parent", "string", 1); q.field(w, "string", 2, required=True)
        q.field("scope", "message", 3, type_name=inner); q.field("page_size", "int32", 4, required=True)
        s.method("ListThings", q, thing, http=("get", "/v1/{parent=shelves/*}/things"))
        sr = f.msg("SearchThingsRequest"); sr.field("parent", "string", 1); sr.field("thing", "message", 2, type_name=thing)
        sr.field(w, "string", 3); sr.field("scope", "message", 4, type_name=inner, required=True)
        s.method("SearchThings", sr, thing, http=("post", "/v1/{parent=shelves/*}/things:search"), body="thing")
    rpc_name = cap(w) if (re.fullmatch(r"[A-Za-z][A-Za-z0-9]*", w) and "rpc" in include) else None
    if rpc_name:
        s.method(rpc_name, g, thing)
    if not s.pb.method:
        s.method("Ping", g, thing)
    return f, rpc_name


POS_LABEL = {"get": "top-level field, http path variable, flattened parameter", "create": "nested field, http body",
             "update": "dotted flattened parameter (terminal)", "route": "explicit routing field",
             "query": "http query parameter (required, nested, beside a body)", "rpc": "rpc name", "file": "proto file name"}


def emitted_ok(f):
    """does the library for this API generate and import? -> None | (kind, detail)"""
    req = apigen.request([f], "transport=grpc+rest,autogen-snippets=false")
    res, err = genrun.try_generate(req)
    if err:
        return ("generation", f"{err[0]}: {err[1]}")
    api, _ = genrun.build_api(req)
    loc = rpc.py_locations(api, api.services[f"{PKG}.Library"])
    root = genrun.materialise(res)
    try:
        imp = libhost.run(root, [{"op": "import_all", "package": loc["package"]}])[0]
    finally:
        genrun.cleanup(root)
    if "child_error" in imp or imp.get("errors"):
        return ("import", str(imp.get("errors") or imp)[:200])
    return None


CALL_POS = ("get", "create", "update", "route", "query", "rpc")


def working_positions(ctx, w):
    """all positions if the combined API imports; otherwise test each position alone and report the broken ones.
    The proto-file-name position is always tested in an API of its own (a module `class_` and the transport
    property of an RPC `Class` would otherwise meet in one class body: not a combination the property lists)."""
    if file_base_ok(w):
        f, _ = build_safe_api(w, ("file",))
        bad = emitted_ok(f)
        ctx.count("position", "proto file name")
        if bad is not None:
            ctx.fail(f"position:proto file name:{bad[0]}", f"proto file {w}.proto: library fails at {bad[0]}: {bad[1]}", {"word": w, "api": "safe-positions", "position": "file"})
    f, _ = build_safe_api(w, CALL_POS)
    if emitted_ok(f) is None:
        return CALL_POS
    good = []
    for p in CALL_POS:
        f, _ = build_safe_api(w, (p,))
        bad = emitted_ok(f)
        ctx.count("position-alone", p)
        if bad is None:
            good.append(p)
        else:
            key = {"route": "reserved-explicit-routing-field"}.get(p, f"position:{POS_LABEL[p]}:{bad[0]}")
            ctx.fail(key, f"word {w!r} as {POS_LABEL[p]}: library fails at {bad[0]}: {bad[1]}", {"word": w, "api": "safe-positions", "position": p})
    return tuple(good)


def check_grpc_calls(ctx, w, kind, sess, calls, payload, codec):
    """oracle for one gRPC session (sync or asyncio client): every position reachable, wire names original"""
    if "calls" not in sess:
        ctx.fail("safe-positions:session", f"word {w!r}: {kind} gRPC session failed: {str(sess)[-300:]}", payload)
        return False
    for c, r_ in zip(calls, sess["calls"]):
        ctx.count("position", c["tag"] + ":" + kind)
        pl = {**payload, "position": c["tag"], "client": kind}
        if "ok" not in r_:
            ctx.fail(f"position:{c['tag']}", f"word {w!r} as {c['tag']} ({kind}): call raised {r_.get('raised')}: {r_.get('msg', '')[:160]}", pl)
            continue
        srv = r_["server"]
        if len(srv) != 1:
            ctx.fail(f"position:{c['tag']}", f"word {w!r} as {c['tag']} ({kind}): {len(srv)} server calls", pl)
            continue
        full, want = c["expect"]
        got = codec.decode(full, srv[0]["requests"][0])
        if got != codec.normal(full, want):
            key = f"wire:{c['tag']}"
            if w.startswith("_") and c.get("mode") == "kwargs":
                # proto-plus keeps `msg._x = v` as a plain Python attribute (Message.__setattr__: key[0] == "_"), so the emitted
                # `request.<attr> = <param>` of a field whose name starts with an underscore never reaches the message
                key = "flattened-leading-underscore-field-dropped"
            ctx.fail(key, f"word {w!r} as {c['tag']} ({kind}): server decoded {got}, caller meant {want}", pl)
        md = dict(srv[0]["metadata"])
        if c["tag"] == "top-level field + http path variable":
            if md.get("x-goog-request-params") != f"{w}={coll(w)}/t1":
                ctx.fail("wire:routing-key", f"word {w!r} ({kind}): implicit routing header {md.get('x-goog-request-params')!r}, expected key {w!r}", pl)
        if c.get("header") and md.get("x-goog-request-params") != c["header"]:
            ctx.fail("wire:routing-key", f"word {w!r} ({kind}): explicit routing header {md.get('x-goog-request-params')!r}, expected {c['header']!r}", pl)
        if c.get("path") and srv[0]["path"] != c["path"]:
            ctx.fail("wire:rpc-path", f"word {w!r} ({kind}): rpc path {srv[0]['path']!r}, expected {c['path']!r}", pl)
    return True


def _tmpl_match(tmpl, path):
    """bind the variables of an http path template (original proto field paths) on a literal request path -> {var: value} | None"""
    rx, i, names = "", 0, []
    for m in re.finditer(r"\{([^}=]+)(?:=([^}]*))?\}", tmpl):
        rx += re.escape(tmpl[i:m.start()])
        segs = (m.group(2) or "*").split("/")
        rx += "(%s)" % "/".join(".+" if x == "**" else "[^/]+" if x == "*" else re.escape(x) for x in segs)
        names.append(m.group(1)); i = m.end()
    rx += re.escape(tmpl[i:])
    m = re.fullmatch(rx, path)
    return dict(zip(names, m.groups())) if m else None


def _resolve(desc, dotted):
    """a dotted key of ORIGINAL names (proto or JSON spelling, per segment) -> list of proto names; None when a segment names no field"""
    out = []
    for seg in dotted.split("."):
        fd = next((x for x in desc.fields if seg in (x.name, x.json_name)), None) if desc is not None else None
        if fd is None:
            return None
        out.append(fd.name); desc = fd.message_type
    return out


def rest_wire_request(codec, full, rec, tmpl, body):
    """what a server reads from one recorded HTTP request under the rpc's http rule: path variables + query parameters + body,
    every key resolved under the INPUT descriptor by its original proto/JSON name -> (request JSON by proto names | None, [(kind, text)])"""
    import urllib.parse
    desc = codec.pool.FindMessageTypeByName(full)
    problems, merged = [], {}

    def put(names, v):
        d = merged
        for n in names[:-1]:
            d = d.setdefault(n, {})
        d[names[-1]] = v
    if body and (rec["body"] or body != "*"):
        try:
            bj = json.loads(rec["body"] or "null")
        except ValueError:
            bj = None
        if not isinstance(bj, dict):
            problems.append(("http-body", f"body {rec['body'][:80]!r} is not a JSON object"))
        elif body == "*":
            merged.update(bj)
        else:
            merged[_resolve(desc, body)[0]] = bj
    bound = _tmpl_match(tmpl, urllib.parse.unquote(rec["path"]))
    if bound is None:
        problems.append(("http-path", f"path {rec['path']!r} does not match {tmpl!r}"))
    for var, val in (bound or {}).items():
        put(_resolve(desc, var), val)
    for k, v in urllib.parse.parse_qsl(rec["query"], keep_blank_values=True):
        if k.startswith("$"):
            continue                      # system parameters ($alt)
        names = _resolve(desc, k)
        if names is None:
            low = [x.name for x in desc.fields if x.json_name.lower() == k.lower() and x.json_name != k]
            problems.append(("http-query-case" if low else "http-query", f"query parameter {k!r} (of {rec['query']!r}) names no field of {full}"))
            continue
        put(names, v)
    try:
        return codec.normal(full, merged), problems
    except Exception as e:  # json_format.ParseError: a name that is not a field of the message (body), a value of the wrong kind
        problems.append(("http-request", f"{type(e).__name__}: {str(e)[:160]}"))
        return None, problems


def check_safe(ctx, w, quick=False):
    from gapic.utils import to_snake_case
    include = working_positions(ctx, w)
    f, rpc_name = build_safe_api(w, include)
    req = apigen.request([f], "transport=grpc+rest,autogen-snippets=false")
    payload = {"word": w, "api": "safe-positions"}
    res, err = genrun.try_generate(req)
    if err:
        ctx.fail(f"safe-positions:generation:{err[0]}", f"word {w!r}: generator raised {err[0]}: {err[1]}", payload)
        return
    api, _ = genrun.build_api(req)
    svc = api.services[f"{PKG}.Library"]
    loc = rpc.py_locations(api, svc)
    codec = rpc.Codec([f])
    a = attr(w)
    T = lambda m: rpc.py_type(svc.methods[m].input) if m in svc.methods else None
    thing_val = {"name": "things/n1", "inner": {w: "iv"}}
    if w != "name":
        thing_val[w] = "tv"
    kw_name = to_snake_case(cap(w) + "_") if (rpc_name and rpc_name.lower() in keyword.kwlist) else (to_snake_case(rpc_name) if rpc_name else None)
    calls = [
        {"tag": "top-level field + http path variable", "method": "get_thing", "mode": "request-instance", "py_request": T("GetThing"),
         "request_b64": codec.encode_b64(f"{PKG}.GetThingRequest", {w: coll(w) + "/t1", "other": "o"}), "expect": (f"{PKG}.GetThingRequest", {w: coll(w) + "/t1", "other": "o"})},
        {"tag": "flattened parameter", "method": "get_thing", "mode": "kwargs", "py_request": T("GetThing"),
         "request_b64": codec.encode_b64(f"{PKG}.GetThingRequest", {w: coll(w) + "/t2"}), "kwargs": [[a, a]], "expect": (f"{PKG}.GetThingRequest", {w: coll(w) + "/t2"})},
        {"tag": "nested field + http body", "method": "create_thing", "mode": "request-instance", "py_request": T("CreateThing"),
         "request_b64": codec.encode_b64(f"{PKG}.CreateThingRequest", {"parent": "shelves/s", w: thing_val}), "expect": (f"{PKG}.CreateThingRequest", {"parent": "shelves/s", w: thing_val})},
        {"tag": "flattened message parameter", "method": "create_thing", "mode": "kwargs", "py_request": T("CreateThing"),
         "request_b64": codec.encode_b64(f"{PKG}.CreateThingRequest", {"parent": "shelves/s", w: thing_val}), "kwargs": [["parent", "parent"], [a, a]],
         "expect": (f"{PKG}.CreateThingRequest", {"parent": "shelves/s", w: thing_val})},
        {"tag": "routing field", "method": "route", "mode": "request-instance", "py_request": T("Route"),
         "request_b64": codec.encode_b64(f"{PKG}.RouteRequest", {w: "abc/def"}), "expect": (f"{PKG}.RouteRequest", {w: "abc/def"}), "header": "rk=abc/def"},
        {"tag": "routing field without template", "method": "route_bare", "mode": "request-instance", "py_request": T("RouteBare"),
         "request_b64": codec.encode_b64(f"{PKG}.RouteBareRequest", {w: "gold", "scope": {w: "wide"}}),
         "expect": (f"{PKG}.RouteBareRequest", {w: "gold", "scope": {w: "wide"}}), "header": f"{w}=gold&scope.{w}=wide"},
    ]
    if w != "name" and "update" in include:
        calls.append({"tag": "dotted flattened parameter (terminal)", "method": "update_thing", "mode": "kwargs", "py_request": T("UpdateThing"),
                      "request_b64": codec.encode_b64(f"{PKG}.UpdateThingRequest", {"thing": {w: "uv"}}), "kwargs": [[a, "thing." + a]],
                      "expect": (f"{PKG}.UpdateThingRequest", {"thing": {w: "uv"}})})
    if rpc_name:
        calls.append({"tag": "rpc name", "method": kw_name, "mode": "request-instance", "py_request": T(rpc_name),
                      "request_b64": codec.encode_b64(f"{PKG}.GetThingRequest", {w: "x"}), "expect": (f"{PKG}.GetThingRequest", {w: "x"}),
                      "path": f"/{PKG}.Library/{rpc_name}"})
    lt, st_ = f"{PKG}.ListThingsRequest", f"{PKG}.SearchThingsRequest"
    ok200 = [{"status": 200, "body": "{}"}]
    R = lambda tag, meth, m, full, val, tmpl, body=None: {
        "tag": tag, "method": meth, "mode": "request-instance", "py_request": T(m), "request_b64": codec.encode_b64(full, val),
        "script": ok200, "expect": (full, val), "http": (tmpl, body)}
    rest_calls = [
        R("REST path variable", "get_thing", "GetThing", f"{PKG}.GetThingRequest", {w: coll(w) + "/t1", "other": "o"}, "/v1/{%s=%s/*}" % (w, coll(w))),
        R("REST body", "create_thing", "CreateThing", f"{PKG}.CreateThingRequest", {"parent": "shelves/s", w: thing_val}, "/v1/{parent=shelves/*}/things", w),
        R("REST body on a URI without variables", "search_things2", "SearchThings2", f"{PKG}.CreateThingRequest", {"parent": "shelves/s", w: thing_val}, "/v1/things:search", w),
        R("REST body on a URI without variables (body only)", "search_things2", "SearchThings2", f"{PKG}.CreateThingRequest", {w: thing_val}, "/v1/things:search", w),
        R("REST body, primary binding of two", "import_thing", "ImportThing", f"{PKG}.CreateThingRequest", {"parent": "shelves/s", w: thing_val},
          "/v1/{parent=shelves/*}/things:import", w),
        R("REST body on an additional binding without variables", "import_thing", "ImportThing", f"{PKG}.CreateThingRequest", {w: thing_val}, "/v1/things:import", w),
        # the word as a query parameter: required and set / required and left unset (the transport sends it with its default) /
        # nested / beside a body
        R("REST query parameter (required, set)", "list_things", "ListThings", lt, {"parent": "shelves/s", w: "q v&1", "scope": {w: "sq"}, "page_size": 3},
          "/v1/{parent=shelves/*}/things"),
        R("REST query parameter (required, unset)", "list_things", "ListThings", lt, {"parent": "shelves/s"}, "/v1/{parent=shelves/*}/things"),
        R("REST query parameter (nested only)", "list_things", "ListThings", lt, {"parent": "shelves/s", "scope": {w: "sq"}, "page_size": 1},
          "/v1/{parent=shelves/*}/things"),
        R("REST query parameter beside a body", "search_things", "SearchThings", st_, {"parent": "shelves/s", "thing": thing_val, w: "qv", "scope": {w: "sq"}},
          "/v1/{parent=shelves/*}/things:search", "thing"),
        R("REST query parameter beside a body (unset)", "search_things", "SearchThings", st_, {"parent": "shelves/s", "thing": thing_val},
          "/v1/{parent=shelves/*}/things:search", "thing"),
    ]
    need = {"get_thing": "get", "create_thing": "create", "update_thing": "update", "route": "route", "route_bare": "route",
            "list_things": "query", "search_things": "query", "search_things2": "create", "import_thing": "create"}
    calls = [c for c in calls if need.get(c["method"], "rpc") in include]
    rest_calls = [c for c in rest_calls if need.get(c["method"], "rpc") in include]
    root = genrun.materialise(res)
    try:
        clean = lambda cs: [{k: v for k, v in c.items() if k not in ("tag", "expect", "header", "path", "http")} for c in cs]
        out = libhost.run(root, [
            {"op": "import_all", "package": loc["package"]},
            {"op": "grpc_session", "client": loc["client"], "transport": loc["grpc"], "async": False, "calls": clean(calls)},
            {"op": "rest_session", "client": loc["client"], "transport": loc["rest"], "calls": clean(rest_calls)},
            {"op": "grpc_session", "client": loc["async_client"], "transport": loc["grpc_asyncio"], "async": True, "calls": clean(calls)},
        ], timeout=300)
    finally:
        genrun.cleanup(root)
    imp = out[0]
    if "child_error" in imp or imp.get("errors"):
        ctx.fail("safe-positions:import", f"word {w!r}: library does not import: {str(imp.get('errors') or imp)[:300]}", payload)
        return
    if False:
        from gapic.schema import api as api_mod
        invalid = set(keyword.kwlist) | {"metadata", "retry", "timeout", "request"}
        want_mod = f"{loc['package']}.types.{w + '_' if w in invalid else w}"
        if want_mod not in imp["modules"]:
            ctx.fail("file-name", f"proto file {w}.proto: module {want_mod} not importable; modules: {[m for m in imp['modules'] if '.types.' in m]}", payload)
    for kind, sess in (("sync", out[1]), ("asyncio", out[3])):
        if not check_grpc_calls(ctx, w, kind, sess, calls, payload, codec):
            return
    rs = out[2]
    if "calls" not in rs:
        ctx.fail("safe-positions:session", f"word {w!r}: REST session failed: {str(rs)[-300:]}", payload)
        return
    for c, r_ in zip(rest_calls, rs["calls"]):
        ctx.count("position", c["tag"])
        pl = {**payload, "position": c["tag"]}
        if "ok" not in r_ or len(r_["server"]) != 1:
            ctx.fail(f"position:{c['tag']}", f"word {w!r} as {c['tag']}: {r_.get('raised')}: {r_.get('msg', '')[:160]}", pl)
            continue
        rec = r_["server"][0]
        # the whole request as a server reads it: every path variable, query parameter and body member must be addressed by an
        # ORIGINAL proto/JSON name of the input message, and together they must say what the caller meant
        full, want = c["expect"]
        got, problems = rest_wire_request(codec, full, rec, *c["http"])
        for kind, text in problems:
            key = "rest-required-query-key-lowercased" if kind == "http-query-case" else f"wire:{kind}"
            ctx.fail(key, f"word {w!r} as {c['tag']}: {text}", pl)
        if got is not None and got != codec.normal(full, want):
            ctx.fail("wire:http-request", f"word {w!r} as {c['tag']}: {rec['verb']} {rec['path']}?{rec['query']} body {rec['body'][:120]!r} reads as "
                                          f"{got}, caller meant {codec.normal(full, want)}", pl)
        if c["tag"] == "REST path variable":
            if rec["path"] != f"/v1/{coll(w)}/t1":
                ctx.fail("wire:http-path", f"word {w!r}: REST path {rec['path']!r}", pl)
            if "other=o" not in rec["query"]:
                ctx.fail("wire:http-query", f"word {w!r}: REST query {rec['query']!r}", pl)
        elif c["tag"] == "REST body":
            body = json.loads(rec["body"] or "{}")
            want = codec.normal(f"{PKG}.Thing", thing_val)
            want_json = {json_name(k): ({json_name(kk): vv for kk, vv in v.items()} if isinstance(v, dict) else v) for k, v in want.items()}
            if body != want_json:
                ctx.fail("wire:http-body", f"word {w!r}: REST body {body}, expected proto JSON names {want_json}", pl)


# ---------------------------------------------------------------- proto file named by a keyword / control parameter: a whole API in it

OP_FULL = "google.longrunning.Operation"


def kwfile_words(w, o):
    """the two field words of the keyword-file API: `p` = the FILE's own word when it is a reserved word as a field too (every keyword;
    `metadata`, `retry`, `timeout`, `request` are invalid module names only, DESIGN §16), else `o`; `q` = another reserved word"""
    res, _ = tables()
    p = w if w in res else o
    q = o if o != p else next(x for x in ("format", "type") if x != p)
    return p, q


def build_kwfile_api(w, o):
    """API-C: `acme/lib/v1/<w>.proto` (module `<w>_`) holds EVERYTHING: request, response, LRO response and metadata types of methods whose
    flattened parameters, path variables (top-level and dotted) and body fields are named by the same word and by another reserved word.
    No RPC is named by the word (a module `class_` meeting the transport property of an RPC `Class` is excluded, DESIGN §16)."""
    p, q = kwfile_words(w, o)
    f = apigen.File(f"acme/lib/v1/{w}.proto", PKG)
    item = f.msg("Item"); item.field("name", "string", 1); item.field(p, "string", 2); item.field(q, "string", 3)
    c = f.msg("CreateItemRequest"); c.field("parent", "string", 1); c.field(p, "message", 2, type_name=item)
    g = f.msg("GetItemRequest"); g.field(p, "string", 1); g.field(q, "string", 2)
    u = f.msg("UpdateItemRequest"); u.field(q, "message", 1, type_name=item); u.field(p, "string", 2)
    e = f.msg("ExportItemsRequest"); e.field(p, "string", 1); e.field(q, "string", 2)
    er = f.msg("ExportItemsResponse"); er.field(p, "string", 1)
    em = f.msg("ExportItemsMetadata"); em.field(q, "string", 1)
    s = f.service("Library")
    s.method("CreateItem", c, item, http=("post", "/v1/{parent=shelves/*}/items"), body=p, sigs=[f"parent,{p}"])
    s.method("GetItem", g, item, http=("get", "/v1/{%s=items/*}" % p), sigs=[p, f"{p},{q}"])
    s.method("UpdateItem", u, item, http=("patch", "/v1/{%s.name=items/*}" % q), body=q, sigs=[f"{q},{p}"])
    s.method("ExportItems", e, "." + OP_FULL, http=("post", "/v1/{%s=items/*}:export" % p), body="*", sigs=[f"{p},{q}"],
             lro=("ExportItemsResponse", "ExportItemsMetadata"))
    return f


def check_kwfile(ctx, w, o):
    """every method of API-C called flattened and with `request=`, by the sync and the asyncio client over gRPC and by the REST client:
    the call goes through, the server reads what the caller meant under the original names, LRO results come back in the file's types"""
    import base64
    from google.longrunning import operations_pb2
    from google.protobuf import json_format
    p, q = kwfile_words(w, o)
    f = build_kwfile_api(w, o)
    payload = {"word": w, "other": o, "api": "keyword-file"}
    req = apigen.request([f], "transport=grpc+rest,autogen-snippets=false")
    res, err = genrun.try_generate(req)
    if err:
        ctx.fail(f"keyword-file:generation:{err[0]}", f"file {w}.proto with fields {p!r}, {q!r}: generator raised {err[0]}: {err[1]}", payload)
        return
    api, _ = genrun.build_api(req)
    svc = api.services[f"{PKG}.Library"]
    loc = rpc.py_locations(api, svc)
    codec = rpc.Codec([f])
    ap, aq = attr(p), attr(q)
    T = lambda m: rpc.py_type(svc.methods[m].input)
    # T2: is the file's module aliased in each method's context? (`Service.with_context` -> `Method.with_context` -> `Address.module_alias`)
    from google.api import client_pb2
    ms = list(svc.methods.values())
    fields = [[x.strip().split(".") for sg in m.options.Extensions[client_pb2.method_signature] for x in sg.split(",") if x.strip()] for m in ms]
    mo = ctx.driver.ask([{"op": "c12.alias", "names": sorted(svc.names), "fields": fl, "module": m.input.ident.module} for m, fl in zip(ms, fields)])
    for m, fl, a_ in zip(ms, fields, mo):
        ctx.traces += 1
        types = [("input", m.input)] + ([("lro response", m.lro.response_type), ("lro metadata", m.lro.metadata_type)] if getattr(m, "lro", None) else [("output", m.output)])
        for role, t in types:
            if t.ident.module == m.input.ident.module and bool(t.ident.module_alias) != a_["aliased"]:
                ctx.disagree("T2:c12.module-alias", f"file {w}.proto, {m.name} ({role} type, flattened {fl}): module {t.ident.module!r} aliased as "
                                                    f"{t.ident.module_alias!r}, model says aliased={a_['aliased']} under {a_['collisions']}", payload)
    item = {"name": "items/i1", p: "pv", q: "qv"}
    # the operation the server answers ExportItems with: done, response and metadata of the file's own types
    op = operations_pb2.Operation(name="operations/o1", done=True)
    op.response.type_url = f"type.googleapis.com/{PKG}.ExportItemsResponse"; op.response.value = codec.encode(f"{PKG}.ExportItemsResponse", {p: "exported"})
    op.metadata.type_url = f"type.googleapis.com/{PKG}.ExportItemsMetadata"; op.metadata.value = codec.encode(f"{PKG}.ExportItemsMetadata", {q: "meta"})
    op_b64 = base64.b64encode(op.SerializeToString()).decode()
    op_json = json.dumps({"name": "operations/o1", "done": True,
                          "response": {"@type": op.response.type_url, json_name(p): "exported"},
                          "metadata": {"@type": op.metadata.type_url, json_name(q): "meta"}})

    def C(tag, meth, m, val, kwargs, header, http, lro=False):
        full = f"{PKG}.{m}Request"
        c = {"tag": tag, "method": meth, "mode": "kwargs" if kwargs else "request-instance", "py_request": T(m),
             "request_b64": codec.encode_b64(full, val), "expect": (full, val), "header": header, "http": http,
             "path": f"/{PKG}.Library/{m}"}
        if kwargs:
            c["kwargs"] = kwargs
        if lro:
            c["consume"] = "lro"; c["lro"] = True
        return c
    calls = []
    for flat in (True, False):
        how = "flattened" if flat else "request="
        calls += [
            C(f"keyword file: body field + flattened message parameter ({how})", "create_item", "CreateItem", {"parent": "shelves/s", p: item},
              [["parent", "parent"], [ap, ap]] if flat else None, "parent=shelves/s", ("/v1/{parent=shelves/*}/items", p)),
            C(f"keyword file: path variable + flattened parameter ({how})", "get_item", "GetItem", {p: "items/i1", q: "qv"},
              [[ap, ap], [aq, aq]] if flat else None, f"{p}=items/i1", ("/v1/{%s=items/*}" % p, None)),
            C(f"keyword file: dotted path variable + body ({how})", "update_item", "UpdateItem", {q: item, p: "pv2"},
              [[aq, aq], [ap, ap]] if flat else None, f"{q}.name=items/i1", ("/v1/{%s.name=items/*}" % q, q)),
            C(f"keyword file: LRO with response and metadata types of the file ({how})", "export_items", "ExportItems", {p: "items/i1", q: "qv"},
              [[ap, ap], [aq, aq]] if flat else None, f"{p}=items/i1", ("/v1/{%s=items/*}:export" % p, "*"), lro=True),
        ]
    calls.insert(2, C("keyword file: path variable + one flattened parameter", "get_item", "GetItem", {p: "items/i2"}, [[ap, ap]], f"{p}=items/i2",
                      ("/v1/{%s=items/*}" % p, None)))
    hidden = ("tag", "expect", "header", "path", "http", "lro")
    gcalls = [dict({k: v for k, v in c.items() if k not in hidden}, **({"script": {c["path"]: [{"code": "OK", "replies": [op_b64]}]}} if c.get("lro") else {}))
              for c in calls]
    rcalls = [dict({k: v for k, v in c.items() if k not in hidden}, script=[{"status": 200, "body": op_json if c.get("lro") else "{}"}]) for c in calls]
    root = genrun.materialise(res)
    try:
        out = libhost.run(root, [
            {"op": "import_all", "package": loc["package"]},
            {"op": "grpc_session", "client": loc["client"], "transport": loc["grpc"], "async": False, "calls": gcalls},
            {"op": "rest_session", "client": loc["client"], "transport": loc["rest"], "calls": rcalls},
            {"op": "grpc_session", "client": loc["async_client"], "transport": loc["grpc_asyncio"], "async": True, "calls": gcalls},
        ], timeout=300)
    finally:
        genrun.cleanup(root)
    imp = out[0]
    if "child_error" in imp or imp.get("errors"):
        ctx.fail("keyword-file:import", f"file {w}.proto with fields {p!r}, {q!r}: library does not import: {str(imp.get('errors') or imp)[:300]}", payload)
        return

    def lro_ok(c, r_, kind, pl):
        if not c.get("lro") or "ok" not in r_:
            return
        got = (r_["ok"] or {}).get("result") or {}
        if got.get("type") != f"{PKG}.ExportItemsResponse" or codec.decode(got["type"], got["b64"]) != {p: "exported"}:
            ctx.fail("keyword-file:lro-result", f"file {w}.proto, {c['tag']} ({kind}): operation result {str(got)[:200]}, expected ExportItemsResponse {{{p!r}: 'exported'}}", pl)
    for kind, sess in (("sync", out[1]), ("asyncio", out[3])):
        if not check_grpc_calls(ctx, w, kind, sess, calls, payload, codec):
            return
        for c, r_ in zip(calls, sess["calls"]):
            lro_ok(c, r_, kind, {**payload, "position": c["tag"], "client": kind})
    rs = out[2]
    if "calls" not in rs:
        ctx.fail("keyword-file:session", f"file {w}.proto: REST session failed: {str(rs)[-300:]}", payload)
        return
    for c, r_ in zip(calls, rs["calls"]):
        ctx.count("position", c["tag"] + ":rest")
        pl = {**payload, "position": c["tag"], "client": "rest"}
        if "ok" not in r_ or len(r_["server"]) != 1:
            ctx.fail(f"position:{c['tag']}", f"word {w!r} as {c['tag']} (rest): {r_.get('raised')}: {r_.get('msg', '')[:160]}; {len(r_['server'])} server calls", pl)
            continue
        rec = r_["server"][0]
        full, want = c["expect"]
        got, problems = rest_wire_request(codec, full, rec, *c["http"])
        for k, text in problems:
            ctx.fail("rest-required-query-key-lowercased" if k == "http-query-case" else f"wire:{k}", f"word {w!r} as {c['tag']} (rest): {text}", pl)
        if got is not None and got != codec.normal(full, want):
            ctx.fail("wire:http-request", f"word {w!r} as {c['tag']} (rest): {rec['verb']} {rec['path']}?{rec['query']} body {rec['body'][:120]!r} reads as "
                                          f"{got}, caller meant {codec.normal(full, want)}", pl)
        lro_ok(c, r_, "rest", pl)


# ---------------------------------------------------------------- a proto module against a module the generated service code itself imports

WRAPPER_MODULES = ("operation", "operation_async", "pagers", "extended_operation")
# `google.api_core.operation` / `operation_async` (LRO futures), the service's own `pagers`, `google.api_core.extended_operation`: the wrapper
# python types of `Method.client_output(_async)`; `Service.names` counts them as modules, so a types module of the same base name gets its
# package-derived alias. (Names the TEMPLATES bind — retries, logging, re, grpc, ... — are findings/C01.json, not this class.)


def build_wrapper_collision_api(name, shape):
    """API-D: `acme/lib/v1/<name>.proto` next to `lib.proto` with the service (one plain, one paginated, one long-running method).
    shape "metadata": only the LRO metadata type lives in `<name>.proto` (the realistic `operation.proto`);
    shape "everything": request, response, page item, LRO response and LRO metadata types all live there."""
    f1 = apigen.File(f"acme/lib/v1/{name}.proto", PKG)
    f = apigen.File("acme/lib/v1/lib.proto", PKG).dep(f1.name)
    every = shape == "everything"
    home = f1 if every else f
    meta = f1.msg("MoveBookMetadata"); meta.field("stage", "string", 1)
    book = home.msg("Book"); book.field("name", "string", 1); book.field("title", "string", 2)
    g = home.msg("GetBookRequest"); g.field("name", "string", 1)
    mr = home.msg("MoveBookResponse"); mr.field("shelf", "string", 1)
    lq = f.msg("ListBooksRequest"); lq.field("parent", "string", 1); lq.field("page_size", "int32", 2); lq.field("page_token", "string", 3)
    lr = f.msg("ListBooksResponse"); lr.field("books", "message", 1, repeated=True, type_name=book); lr.field("next_page_token", "string", 2)
    mq = f.msg("MoveBookRequest"); mq.field("name", "string", 1); mq.field("shelf", "string", 2)
    s = f.service("Library")
    s.method("GetBook", g, book, http=("get", "/v1/{name=books/*}"), sigs=["name"])
    s.method("ListBooks", lq, lr, http=("get", "/v1/{parent=shelves/*}/books"), sigs=["parent"])
    s.method("MoveBook", mq, "." + OP_FULL, http=("post", "/v1/{name=books/*}:move"), body="*", sigs=["name,shelf"],
             lro=("MoveBookResponse", "MoveBookMetadata"))
    return [f1, f]


def check_wrapper_collision(ctx, name, shape, transport="grpc+rest"):
    """the library imports; the plain call, the pager and the long-running call work for real with the sync and the asyncio client (and REST):
    the pager yields the typed items, the operation completes and yields the typed result and metadata; the wire is the original"""
    import base64
    from google.longrunning import operations_pb2
    files = build_wrapper_collision_api(name, shape)
    payload = {"api": "wrapper-module-collision", "module": name, "shape": shape, "transport": transport}
    ctx.count("position", f"types module named like an imported wrapper module: {name} ({shape})")
    req = apigen.request(files, f"transport={transport},autogen-snippets=false")
    res, err = genrun.try_generate(req)
    if err:
        ctx.fail(f"wrapper-collision:generation:{err[0]}", f"{name}.proto ({shape}): generator raised {err[0]}: {err[1]}", payload)
        return
    api, _ = genrun.build_api(req)
    svc = api.services[f"{PKG}.Library"]
    loc = rpc.py_locations(api, svc)
    codec = rpc.Codec(files)
    # T2: `Service.names` = own names + every module name the methods' ref_types (proto types and wrapper python types) take from two packages
    ms = list(svc.methods.values())
    own = sorted({svc.name, svc.client_name, svc.async_client_name})
    from gapic.utils import to_snake_case
    refs = [[t.ident.module, ".".join(t.ident.package)] for m in ms for t in m.ref_types]
    mo = ctx.driver.ask([{"op": "c12.svcnames", "own": own, "methods": [to_snake_case(m.name) for m in ms], "refs": refs, "module": name}])[0]
    ctx.traces += 1
    if sorted(set(mo["names"])) != sorted(svc.names):
        ctx.disagree("T2:c12.service-names", f"{name}.proto ({shape}): Service.names {sorted(svc.names)} vs model {sorted(set(mo['names']))}", payload)
    for m in ms:
        for t in m.ref_types:
            if t.ident.module == name and bool(t.ident.module_alias) != mo["aliased"]:
                ctx.disagree("T2:c12.module-alias", f"{name}.proto ({shape}), {m.name}: {'.'.join(t.ident.package)}.{name} aliased as {t.ident.module_alias!r}, "
                                                    f"model says aliased={mo['aliased']}", payload)
    enc = lambda full, d: base64.b64encode(codec.encode(full, d)).decode()
    op = operations_pb2.Operation(name="operations/o1", done=True)
    op.response.type_url = f"type.googleapis.com/{PKG}.MoveBookResponse"; op.response.value = codec.encode(f"{PKG}.MoveBookResponse", {"shelf": "shelves/s2"})
    op.metadata.type_url = f"type.googleapis.com/{PKG}.MoveBookMetadata"; op.metadata.value = codec.encode(f"{PKG}.MoveBookMetadata", {"stage": "moved"})
    op_json = json.dumps({"name": "operations/o1", "done": True, "response": {"@type": op.response.type_url, "shelf": "shelves/s2"},
                          "metadata": {"@type": op.metadata.type_url, "stage": "moved"}})
    books = [{"name": "books/b1", "title": "one"}, {"name": "books/b2", "title": "two"}, {"name": "books/b3", "title": "three"}]
    pages = [{"books": books[:2], "next_page_token": "t2"}, {"books": books[2:]}]
    jpage = lambda pg: json.dumps({json_name(k): v for k, v in pg.items()})
    T = lambda m: rpc.py_type(svc.methods[m].input)
    P = lambda m: f"/{PKG}.Library/{m}"
    calls = []
    for flat in (False, True):
        how = "flattened" if flat else "request="
        mode = "kwargs" if flat else "request-instance"
        calls += [
            {"tag": f"plain call ({how})", "method": "get_book", "mode": mode, "py_request": T("GetBook"), "kwargs": [["name", "name"]],
             "expect": (f"{PKG}.GetBookRequest", {"name": "books/b1"}), "path": P("GetBook"), "http": ("/v1/{name=books/*}", None),
             "replies": [enc(f"{PKG}.Book", books[0])], "rest_bodies": [json.dumps(books[0])], "consume": "value", "result": ("value", f"{PKG}.Book", books[0])},
            {"tag": f"pager ({how})", "method": "list_books", "mode": mode, "py_request": T("ListBooks"), "kwargs": [["parent", "parent"]],
             "expect": (f"{PKG}.ListBooksRequest", {"parent": "shelves/s1"}), "path": P("ListBooks"), "http": ("/v1/{parent=shelves/*}/books", None),
             "replies": [enc(f"{PKG}.ListBooksResponse", pg) for pg in pages], "rest_bodies": [jpage(pg) for pg in pages], "consume": "pager",
             "result": ("pager", f"{PKG}.Book", books)},
            {"tag": f"long-running call ({how})", "method": "move_book", "mode": mode, "py_request": T("MoveBook"), "kwargs": [["name", "name"], ["shelf", "shelf"]],
             "expect": (f"{PKG}.MoveBookRequest", {"name": "books/b1", "shelf": "shelves/s2"}), "path": P("MoveBook"), "http": ("/v1/{name=books/*}:move", "*"),
             "replies": [base64.b64encode(op.SerializeToString()).decode()], "rest_bodies": [op_json], "consume": "lro",
             "result": ("lro", f"{PKG}.MoveBookResponse", {"shelf": "shelves/s2"}, f"{PKG}.MoveBookMetadata", {"stage": "moved"})},
        ]
    for c in calls:
        c["request_b64"] = codec.encode_b64(*c["expect"])
    keep = ("method", "mode", "py_request", "kwargs", "request_b64", "consume")
    gcalls = [dict({k: c[k] for k in keep}, script={c["path"]: [{"code": "OK", "replies": [r_]} for r_ in c["replies"]]}) for c in calls]
    rcalls = [dict({k: c[k] for k in keep}, script=[{"status": 200, "body": b_} for b_ in c["rest_bodies"]]) for c in calls]
    ops = [{"op": "import_all", "package": loc["package"]},
           {"op": "grpc_session", "client": loc["client"], "transport": loc["grpc"], "async": False, "calls": gcalls},
           {"op": "grpc_session", "client": loc["async_client"], "transport": loc["grpc_asyncio"], "async": True, "calls": gcalls}]
    if "rest" in transport:
        ops.append({"op": "rest_session", "client": loc["client"], "transport": loc["rest"], "calls": rcalls})
    root = genrun.materialise(res)
    try:
        out = libhost.run(root, ops, timeout=300)
    finally:
        genrun.cleanup(root)
    imp = out[0]
    if "child_error" in imp or imp.get("errors"):
        ctx.fail("wrapper-collision:import", f"{name}.proto ({shape}): library does not import: {str(imp.get('errors') or imp)[:300]}", payload)
        return

    def msg_is(x, full, want):
        return isinstance(x, dict) and x.get("type") == full and codec.decode(full, x["b64"]) == codec.normal(full, want)
    for kind, sess in zip(("sync", "asyncio", "rest"), out[1:]):
        if "calls" not in sess:
            ctx.fail("wrapper-collision:session", f"{name}.proto ({shape}): {kind} session failed: {str(sess)[-300:]}", payload)
            continue
        for c, r_ in zip(calls, sess["calls"]):
            ctx.count("position", f"wrapper module collision: {c['tag']}:{kind}")
            pl = {**payload, "position": c["tag"], "client": kind}
            if "ok" not in r_:
                ctx.fail("wrapper-collision:call", f"{name}.proto ({shape}), {c['tag']} ({kind}): call raised {r_.get('raised')}: {r_.get('msg', '')[:200]}", pl)
                continue
            srv = r_["server"]
            full, want = c["expect"]
            if kind == "rest":
                got, problems = rest_wire_request(codec, full, srv[0], *c["http"]) if srv else (None, [("http-request", "no request reached the server")])
                for k, text in problems:
                    ctx.fail(f"wire:{k}", f"{name}.proto ({shape}), {c['tag']} (rest): {text}", pl)
                if got is not None and {k: v for k, v in got.items() if k not in ("page_token", "page_size")} != codec.normal(full, want):
                    ctx.fail("wire:http-request", f"{name}.proto ({shape}), {c['tag']} (rest): server read {got}, caller meant {want}", pl)
            else:
                if not srv or codec.decode(full, srv[0]["requests"][0]) != codec.normal(full, want):
                    ctx.fail("wrapper-collision:wire", f"{name}.proto ({shape}), {c['tag']} ({kind}): server decoded "
                                                       f"{codec.decode(full, srv[0]['requests'][0]) if srv else None}, caller meant {want}", pl)
                if srv and srv[0]["path"] != c["path"]:
                    ctx.fail("wire:rpc-path", f"{name}.proto ({shape}), {c['tag']} ({kind}): rpc path {srv[0]['path']!r}", pl)
            ok, want_r = r_["ok"], c["result"]
            if want_r[0] == "value":
                good = msg_is(ok, want_r[1], want_r[2])
            elif want_r[0] == "pager":
                items = (ok or {}).get("items") or []
                good = len(items) == len(want_r[2]) and all(msg_is(x, want_r[1], b) for x, b in zip(items, want_r[2]))
            else:
                good = msg_is((ok or {}).get("result"), want_r[1], want_r[2]) and msg_is((ok or {}).get("metadata"), want_r[3], want_r[4])
            if not good:
                ctx.fail("wrapper-collision:result", f"{name}.proto ({shape}), {c['tag']} ({kind}): the caller got {str(ok)[:260]}, expected {want_r}", pl)


# ---------------------------------------------------------------- proto-plus DEPENDENCY packages (`proto-plus-deps=`) whose modules need an alias

DEP, AUX = "acme.dep.v1", "acme.aux.v1"
PPDEPS_SCENARIOS = ("own-module", "two-deps", "reserved-module", "field-name", "plus-and-pb2", "dep-request")
PPDEPS_WORD_SCENARIOS = ("reserved-module", "keyword-dep-file", "keyword-pb2-file")     # parameterised by the file's base name


def build_ppdeps_api(scenario, word="type"):
    """API-E: the API `acme.lib.v1` uses message and enum types of dependency packages that are proto-plus libraries of their own.
    The dependency's module needs an alias because its base name is
      own-module      that of a module of the API itself (`common.proto` in both),
      two-deps        that of a module of ANOTHER proto-plus dependency (`acme.dep.v1` and `acme.aux.v1` both have `common.proto`),
      reserved-module a reserved word (`<word>.proto`),
      field-name      that of a flattened parameter of the method (`mark.proto`, parameter `mark`),
      plus-and-pb2    that of a plain `_pb2` dependency (`acme.aux.v1` is NOT declared proto-plus),
      dep-request     (as own-module, and) the dependency's type is the request and response type of an rpc.
    The dependency's FILE is named by a keyword or a client control parameter (`import.proto`, `request.proto`: its module is `<word>_`):
      keyword-dep-file the proto-plus dependency's file (its own library ships `types/<word>_.py`); when the word is a reserved word as a
                       field too, the API also has a field of that name and of the dependency's type, flattened (parameter `<word>_`),
      keyword-pb2-file the file of the plain `_pb2` dependency `acme.aux.v1` (protoc ships `<word>_pb2.py`).
      dep-subpackage   the referenced types live in `acme.dep.v1.sub`, a sub-package of the versioned dependency package (no alias needed).
    -> dict(dep_sets=[(package, [files])], api=[files], pb2=[files], plus=[packages], all=[files])"""
    base = {"reserved-module": word, "field-name": "mark", "keyword-dep-file": word}.get(scenario, "common")
    res_, _ = tables()
    d = apigen.File(f"acme/dep/v1/{base}.proto", DEP)
    kind = d.enum("Kind", ["KIND_UNSPECIFIED", "HARD", "SOFT"])
    mark = d.msg("Mark"); mark.field("class", "string", 1); mark.field("name", "string", 2); mark.field("kind", "enum", 3, type_name=kind)
    deps, own, pb2 = [(DEP, [d])], [], []
    plus_extra = []
    if scenario == "dep-subpackage":
        # the referenced types live in a SUB-package of the versioned dependency package; its library is `acme/dep_v1/sub/types/common.py`
        d = apigen.File("acme/dep/v1/sub/common.proto", DEP + ".sub")
        kind = d.enum("Kind", ["KIND_UNSPECIFIED", "HARD", "SOFT"])
        mark = d.msg("Mark"); mark.field("class", "string", 1); mark.field("name", "string", 2); mark.field("kind", "enum", 3, type_name=kind)
        droot = apigen.File("acme/dep/v1/marks.proto", DEP).dep(d.name)
        ds = droot.service("Marks", host="dep.example.com"); ds.method("GetMark", mark, mark)
        deps = [(DEP, [d, droot])]; plus_extra = [DEP + ".sub"]
    else:
        ds = d.service("Marks", host="dep.example.com"); ds.method("GetMark", mark, mark)
    if scenario in ("two-deps", "plus-and-pb2", "keyword-pb2-file"):
        a = apigen.File("acme/aux/v1/%s.proto" % (word if scenario == "keyword-pb2-file" else "common"), AUX)
        note = a.msg("Note"); note.field("import", "string", 1); note.field("text", "string", 2)
        if scenario == "two-deps":
            as_ = a.service("Notes", host="aux.example.com"); as_.method("GetNote", note, note)
            deps.append((AUX, [a]))
        else:
            pb2.append(a)
    else:
        a = note = None
    if scenario in ("own-module", "dep-request"):
        c = apigen.File("acme/lib/v1/common.proto", PKG)
        tag = c.msg("Tag"); tag.field("type", "string", 1); tag.field("name", "string", 2)
        own.append(c)
    else:
        tag = None
    f = apigen.File("acme/lib/v1/lib.proto", PKG).dep(d.name, *([a.name] if a else []), *[x.name for x in own])
    fields = [("name", "string", None), ("mark", "message", mark), ("kind", "enum", kind)]
    if tag:
        fields.append(("tag", "message", tag))
    if note:
        fields.append(("note", "message", note))
    if scenario == "keyword-dep-file" and word in res_:
        fields.append((word, "message", mark))
    book = f.msg("Book"); rq = f.msg("GetBookRequest")
    for m in (book, rq):
        for i, (n, t, tn) in enumerate(fields):
            m.field(n, t, i + 1, **({"type_name": tn} if tn else {}))
    book.field("marks", "message", 9, repeated=True, type_name=mark)
    s = f.service("Library")
    s.method("GetBook", rq, book, http=("get", "/v1/{name=books/*}"), sigs=[",".join(n for n, _, _ in fields)])
    s.method("CreateBook", rq, book, http=("post", "/v1/books"), body="mark", sigs=["name,mark"])
    if scenario == "dep-request":
        s.method("PutMark", mark, mark, http=("post", "/v1/marks"), body="*")
    alldeps = [fl for _, fls in deps for fl in fls]
    return dict(dep_sets=deps, api=own + [f], pb2=pb2, plus=[p for p, _ in deps] + plus_extra, all=alldeps + pb2 + own + [f], base=base)


def check_ppdeps(ctx, scenario, word="type"):
    """generate the dependency libraries and the API library (`proto-plus-deps=`) into one site directory, import everything in a fresh
    interpreter, call with requests that carry the dependency-typed values (request=, flattened; sync/asyncio gRPC, REST): the server reads
    what the caller meant, the response comes back in the API's and the dependency's types"""
    import base64
    spec = build_ppdeps_api(scenario, word)
    payload = {"api": "proto-plus-deps", "scenario": scenario, "word": word}
    label = f"proto-plus-deps/{scenario}" + (f"/{word}" if scenario in PPDEPS_WORD_SCENARIOS else "")
    ctx.count("position", f"proto-plus dependency module needing an alias: {scenario}")
    root, packages = None, []
    try:
        for pkg, files in spec["dep_sets"]:
            dreq = apigen.request(files, "transport=grpc,autogen-snippets=false")
            dres, err = genrun.try_generate(dreq)
            if err:
                ctx.assume(f"the dependency package of {label} generates as a library of its own")
                return
            root = genrun.materialise(dres, root=root)
            dapi, _ = genrun.build_api(dreq)
            packages.append(rpc.py_locations(dapi, list(dapi.services.values())[0])["package"])
        req = apigen.request(spec["all"], "transport=grpc+rest,autogen-snippets=false,proto-plus-deps=" + "+".join(spec["plus"]), targets=spec["api"])
        res, err = genrun.try_generate(req)
        if err:
            ctx.fail(f"proto-plus-deps:generation:{err[0]}", f"{label}: generator raised {err[0]}: {err[1]}", payload)
            return
        root = genrun.materialise(res, root=root)
        for fl in spec["pb2"]:
            genrun.materialise_pb2(root, fl.pb)
        api, _ = genrun.build_api(req)
        svc = api.services[f"{PKG}.Library"]
        loc = rpc.py_locations(api, svc)
        codec = rpc.Codec(spec["all"])
        # T2: for every type a method refers to, the name its import statement binds is the module name its references use
        ms = list(svc.methods.values())
        seen = {}
        for m in ms:
            for t in m.ref_types:
                a = t.ident
                if not a.module:
                    continue
                imp = a.python_import
                ref = str(a).split(".")[0]
                kind = ("python" if not a.api_naming else "own" if a.proto_package.startswith(a.api_naming.proto_package)
                        else "plus-dep" if a.is_proto_plus_type else "pb2")
                seen[(kind, a.module, ".".join(a.package), bool(a.module_alias))] = (imp.alias or imp.module, ref, a.module_alias, m.name)
        keys = list(seen)
        mo = ctx.driver.ask([{"op": "c12.import", "kind": k[0], "module": k[1], "alias": seen[k][2]} for k in keys])
        for k, a_ in zip(keys, mo):
            ctx.traces += 1
            bound, ref, alias, mname = seen[k]
            if a_["bound"] != bound or a_["reference"] != ref:
                ctx.disagree("T2:c12.python-import", f"{label}: {k[0]} module {k[2]}.{k[1]} (alias {alias!r}, method {mname}): import binds {bound!r}, references say "
                                                     f"{ref!r}; model: binds {a_['bound']!r}, references {a_['reference']!r}", payload)
        # T2: the module imported for each dependency file (own renaming of EVERY file descriptor, `_pb2` appended for plain dependencies)
        depfiles = [(fl, True) for _, fls in spec["dep_sets"] for fl in fls] + [(fl, False) for fl in spec["pb2"]]
        dm = ctx.driver.ask([{"op": "c12.depmodule", "name": fl.name.rsplit("/", 1)[1][:-len(".proto")], "plus": plus} for fl, plus in depfiles])
        for (fl, plus), a_ in zip(depfiles, dm):
            pkg_ = fl.pb.package
            got = sorted({t.ident.python_import.module for m in ms for t in m.ref_types
                          if t.ident.api_naming and ".".join(t.ident.package) == pkg_})
            ctx.traces += 1
            if got and got != [a_["imported"]]:
                ctx.disagree("T2:c12.dependency-module", f"{label}: types of {fl.name} are imported from module(s) {got}, model {a_['imported']!r} "
                                                         f"(the dependency ships {a_['shipped']!r})", payload)
        full = f"{PKG}.GetBookRequest"
        val = {"name": "books/b1", "mark": {"class": "c1", "name": "n2", "kind": "HARD"}, "kind": "SOFT"}
        fieldnames = [x.name for x in codec.pool.FindMessageTypeByName(full).fields]
        if "tag" in fieldnames:
            val["tag"] = {"type": "t1", "name": "n1"}
        if "note" in fieldnames:
            val["note"] = {"import": "i1", "text": "x"}
        if scenario == "keyword-dep-file" and word in fieldnames:
            val[word] = {"class": "c3", "kind": "SOFT"}
        reply = dict(val, marks=[{"class": "c2"}, {"name": "n3", "kind": "SOFT"}])
        enc = lambda fn, dct: base64.b64encode(codec.encode(fn, dct)).decode()
        jsonify = lambda fn, dct: json.dumps(__import__("google.protobuf.json_format", fromlist=["x"]).MessageToDict(
            __import__("google.protobuf.json_format", fromlist=["x"]).ParseDict(dct, codec.cls(fn)(), descriptor_pool=codec.pool)))
        T = lambda m: rpc.py_type(svc.methods[m].input)
        P = lambda m: f"/{PKG}.Library/{m}"
        calls = []
        for flat in (False, True):
            how = "flattened" if flat else "request="
            mode = "kwargs" if flat else "request-instance"
            calls += [
                {"tag": f"dependency-typed fields ({how})", "method": "get_book", "mode": mode, "py_request": T("GetBook"),
                 "kwargs": [[attr(n), attr(n)] for n in fieldnames], "expect": (full, val), "path": P("GetBook"), "http": ("/v1/{name=books/*}", None),
                 "reply": (f"{PKG}.Book", reply)},
                {"tag": f"dependency-typed body ({how})", "method": "create_book", "mode": mode, "py_request": T("CreateBook"),
                 "kwargs": [["name", "name"], ["mark", "mark"]], "expect": (full, {"name": val["name"], "mark": val["mark"]}), "path": P("CreateBook"),
                 "http": ("/v1/books", "mark"), "reply": (f"{PKG}.Book", reply)},
            ]
        if "PutMark" in svc.methods:
            calls.append({"tag": "dependency type as request and response (request=)", "method": "put_mark", "mode": "request-instance", "py_request": T("PutMark"),
                          "expect": (f"{DEP}.Mark", val["mark"]), "path": P("PutMark"), "http": ("/v1/marks", "*"), "reply": (f"{DEP}.Mark", {"class": "c9", "kind": "SOFT"})})
        for c in calls:
            c["request_b64"] = codec.encode_b64(*c["expect"])
        keep = ("method", "mode", "py_request", "kwargs", "request_b64")
        gcalls = [dict({k: c[k] for k in keep if k in c}, consume="value", script={c["path"]: [{"code": "OK", "replies": [enc(*c["reply"])]}]}) for c in calls]
        rcalls = [dict({k: c[k] for k in keep if k in c}, consume="value", script=[{"status": 200, "body": jsonify(*c["reply"])}]) for c in calls]
        out = libhost.run(root, [{"op": "import_all", "package": pk} for pk in packages] + [
            {"op": "import_all", "package": loc["package"]},
            {"op": "grpc_session", "client": loc["client"], "transport": loc["grpc"], "async": False, "calls": gcalls},
            {"op": "grpc_session", "client": loc["async_client"], "transport": loc["grpc_asyncio"], "async": True, "calls": gcalls},
            {"op": "rest_session", "client": loc["client"], "transport": loc["rest"], "calls": rcalls}], timeout=300)
    finally:
        if root:
            genrun.cleanup(root)
    n = len(packages)
    for pk, imp in zip(packages, out[:n]):
        if "child_error" in imp or imp.get("errors"):
            ctx.assume(f"the dependency library of {label} imports on its own")
            return
    imp = out[n]
    if "child_error" in imp or imp.get("errors"):
        # trigger of the known finding, decided from the input: a referenced proto-plus dependency package whose version segment is not its last
        subv = any(re.match(r"^v\d[^/]*$", seg) for pk_ in spec["plus"] for seg in pk_.split(".")[:-1])
        key = ("pb2-dependency-file-named-by-invalid-module-name:import" if scenario == "keyword-pb2-file"
               else "proto-plus-dep:sub-package-of-versioned" if subv and "ModuleNotFoundError" in str(imp.get("errors")) else "proto-plus-deps:import")
        ctx.fail(key, f"{label}: library does not import: {str(imp.get('errors') or imp)[:300]}", payload)
        return
    for kind, sess in zip(("sync", "asyncio", "rest"), out[n + 1:]):
        if "calls" not in sess:
            ctx.fail("proto-plus-deps:session", f"{label}: {kind} session failed: {str(sess)[-300:]}", payload)
            continue
        for c, r_ in zip(calls, sess["calls"]):
            ctx.count("position", f"proto-plus dependency: {c['tag']}:{kind}")
            pl = {**payload, "position": c["tag"], "client": kind}
            if "ok" not in r_:
                ctx.fail("proto-plus-deps:call", f"{label}, {c['tag']} ({kind}): call raised {r_.get('raised')}: {r_.get('msg', '')[:200]}", pl)
                continue
            srv = r_["server"]
            fn, want = c["expect"]
            if kind == "rest":
                got, problems = rest_wire_request(codec, fn, srv[0], *c["http"]) if srv else (None, [("http-request", "no request reached the server")])
                for k, text in problems:
                    ctx.fail(f"wire:{k}", f"{label}, {c['tag']} (rest): {text}", pl)
                if got is not None and got != codec.normal(fn, want):
                    ctx.fail("wire:http-request", f"{label}, {c['tag']} (rest): server read {got}, caller meant {codec.normal(fn, want)}", pl)
            else:
                got = codec.decode(fn, srv[0]["requests"][0]) if srv else None
                if got != codec.normal(fn, want):
                    ctx.fail("proto-plus-deps:wire", f"{label}, {c['tag']} ({kind}): server decoded {got}, caller meant {codec.normal(fn, want)}", pl)
                if srv and srv[0]["path"] != c["path"]:
                    ctx.fail("wire:rpc-path", f"{label}, {c['tag']} ({kind}): rpc path {srv[0]['path']!r}", pl)
            ok = r_["ok"]
            rfn, rwant = c["reply"]
            if not (isinstance(ok, dict) and ok.get("type") == rfn and codec.decode(rfn, ok["b64"]) == codec.normal(rfn, rwant)):
                ctx.fail("proto-plus-deps:result", f"{label}, {c['tag']} ({kind}): the caller got {str(ok)[:260]}, expected {rfn} {rwant}", pl)


def check_rpc_and_file(ctx, w, order=("kw", "other")):
    """an RPC named by a keyword whose types live in the file named by the SAME keyword (`rpc Import` in `import.proto`), next to another
    RPC with types of that file: the client method / transport property `import_` and the types module `import_` share a name, so the
    module needs its alias in the service modules. (Until round 9 excluded as a combination of two positions, DESIGN §16; the trigger —
    snake-cased RPC name + `_` equal to the renamed module of a file the service's transports refer to — is decided here from the input;
    on /repo 23a0705 it is the known finding `rpc-name-equals-renamed-types-module:import`.)"""
    from gapic.utils import to_snake_case
    f = apigen.File(f"acme/lib/v1/{w}.proto", PKG)
    kind = f.enum("Kind", ["KIND_UNSPECIFIED", "A", "B"])
    a = f.msg(cap(w) + "Request"); a.field("name", "string", 1); a.field("kind", "enum", 2, type_name=kind)
    b = f.msg("OtherRequest"); b.field("name", "string", 1); b.field("kind", "enum", 2, type_name=kind)
    thing = f.msg("Thing"); thing.field("name", "string", 1); thing.field("kind", "enum", 2, type_name=kind)
    s = f.service("Library")
    for which in order:
        if which == "kw":
            s.method(cap(w), a, thing, http=("get", "/v1/{name=things/*}"), sigs=["name"])
        else:
            s.method("Other", b, thing, http=("get", "/v1/{name=others/*}"), sigs=["name,kind"])
    payload = {"api": "rpc-and-file", "word": w, "order": list(order)}
    trigger = to_snake_case(cap(w)) + "_" == w + "_" and w in keyword.kwlist
    K = (lambda k: "rpc-name-equals-renamed-types-module:import") if trigger else (lambda k: k)
    label = f"rpc {cap(w)} with types in {w}.proto ({'first' if order[0] == 'kw' else 'after another rpc'})"
    ctx.count("position", "rpc name + proto file name by the same keyword")
    req = apigen.request([f], "transport=grpc+rest,autogen-snippets=false")
    res, err = genrun.try_generate(req)
    if err:
        ctx.fail(f"rpc-and-file:generation:{err[0]}", f"{label}: generator raised {err[0]}: {err[1]}", payload)
        return
    api, _ = genrun.build_api(req)
    svc = api.services[f"{PKG}.Library"]
    loc = rpc.py_locations(api, svc)
    codec = rpc.Codec([f])
    kwm = svc.methods[cap(w)]
    calls = [
        {"tag": "rpc named by the keyword (request=)", "method": to_snake_case(kwm.client_method_name), "mode": "request-instance", "py_request": rpc.py_type(kwm.input),
         "expect": (a.full, {"name": "things/t1", "kind": "B"}), "path": f"/{PKG}.Library/{cap(w)}", "header": "name=things/t1"},
        {"tag": "rpc named by the keyword (flattened)", "method": to_snake_case(kwm.client_method_name), "mode": "kwargs", "py_request": rpc.py_type(kwm.input),
         "kwargs": [["name", "name"]], "expect": (a.full, {"name": "things/t2"}), "path": f"/{PKG}.Library/{cap(w)}", "header": "name=things/t2"},
        {"tag": "other rpc with types of the file (flattened enum)", "method": "other", "mode": "kwargs", "py_request": rpc.py_type(svc.methods["Other"].input),
         "kwargs": [["name", "name"], ["kind", "kind"]], "expect": (b.full, {"name": "others/o1", "kind": "A"}), "path": f"/{PKG}.Library/Other", "header": "name=others/o1"},
    ]
    for c in calls:
        c["request_b64"] = codec.encode_b64(*c["expect"])
    clean = [{k: v for k, v in c.items() if k not in ("tag", "expect", "header", "path")} for c in calls]
    root = genrun.materialise(res)
    try:
        out = libhost.run(root, [{"op": "import_all", "package": loc["package"]},
                                 {"op": "grpc_session", "client": loc["client"], "transport": loc["grpc"], "async": False, "calls": clean},
                                 {"op": "grpc_session", "client": loc["async_client"], "transport": loc["grpc_asyncio"], "async": True, "calls": clean}], timeout=300)
    finally:
        genrun.cleanup(root)
    imp = out[0]
    if "child_error" in imp or imp.get("errors"):
        ctx.fail(K("rpc-and-file:import"), f"{label}: library does not import: {str(imp.get('errors') or imp)[:300]}", payload)
        return
    for kind_, sess in (("sync", out[1]), ("asyncio", out[2])):
        if not check_grpc_calls(ctx, w, kind_, sess, calls, payload, codec):
            return


def check_bad_positions(ctx, w):
    """API-B: dotted http path variable and flattened non-terminal segment with a reserved word. Both were
    wrong before the C12 fix: commits (DESIGN §9-F1/F2); kept as regression inputs: they must compile AND import."""
    for pos in ("dotted http path variable", "flattened non-terminal segment"):
        f = apigen.File("acme/lib/v1/lib.proto", PKG)
        thing = f.msg("Thing"); thing.field("name", "string", 1); thing.field(w, "string", 2) if w != "name" else None
        u = f.msg("UpdateThingRequest"); u.field("thing", "message", 1, type_name=thing); u.field(w, "message", 2, type_name=thing)
        s = f.service("Library")
        if pos == "dotted http path variable":
            s.method("UpdateThing", u, thing, http=("patch", "/v1/{thing.%s=things/*}" % w), body="thing")
        else:
            s.method("UpdateThing", u, thing, sigs=[f"{w}.name"])
        req = apigen.request([f], "transport=grpc,autogen-snippets=false")
        payload = {"word": w, "api": pos}
        ctx.count("position", pos)
        res, err = genrun.try_generate(req)
        if err:
            ctx.fail(f"{pos}:generation", f"word {w!r} as {pos}: generator raised {err[0]}", payload)
            continue
        bad = []
        for fl in res.file:
            if fl.name.endswith(".py") and "/tests/" not in fl.name and not fl.name.startswith("tests/"):
                try:
                    compile(fl.content, fl.name, "exec")
                except SyntaxError as e:
                    bad.append((fl.name, e.lineno, (fl.content.splitlines()[e.lineno - 1].strip() if e.lineno else "")[:80]))
        if bad:
            key = "reserved-in-dotted-path-var" if pos.startswith("dotted") else "reserved-in-flattened-non-terminal"
            ctx.fail(key, f"word {w!r} as {pos}: emitted code is not valid Python: {bad[0]}", payload)
            continue
        imp = emitted_ok(f)
        if imp is not None:
            ctx.fail(f"position:{pos}:{imp[0]}", f"word {w!r} as {pos}: library fails at {imp[0]}: {imp[1]}", payload)


def alias_initials(package, version="v1"):
    """the package-derived part of `Address.module_alias`: first character of every `_`-part of every package segment but the version"""
    return "".join(part[0] for seg in package.split(".") if seg != version for part in seg.split("_") if part)


SUBPACKAGE_PAIRS = (("shelf", "book"), ("admin", "billing"), ("admin", "audit"), ("big_query", "batch_queue"), ("big_query", "bigquery"))


def check_module_collisions(ctx, shape, subs=("shelf", "book")):
    """two imported types modules share a base name (`common.proto` in two sub-packages): the library must import and each
    field must be bound to ITS package's type. `shape`: which messages of the importing file use which module.
    `subs`: the two sub-packages; when their alias initials coincide (`admin`/`audit` -> `ala_common` twice) the failure is the known
    finding `alias-collision:same-initials` (trigger decided here, from the input)."""
    same_initials = alias_initials(f"{PKG}.{subs[0]}") == alias_initials(f"{PKG}.{subs[1]}")
    f1 = apigen.File(f"acme/lib/v1/{subs[0]}/common.proto", f"{PKG}.{subs[0]}")
    o1 = f1.msg("Options"); o1.field("aisle", "string", 1)
    f2 = apigen.File(f"acme/lib/v1/{subs[1]}/common.proto", f"{PKG}.{subs[1]}")
    # same message name in both modules (a wrong binding stays silent until a value is set) or, for the other pairs in the one-message
    # shape, different names (a wrong binding is an AttributeError when the module is imported)
    o2 = f2.msg("Settings" if (shape == "one-message" and tuple(subs) != ("shelf", "book")) else "Options")
    o2.field("pages", "int32", 1); o2.field("cover", "string", 2)
    f = apigen.File("acme/lib/v1/lib.proto", PKG, deps=[f1.name, f2.name])
    thing = f.msg("Thing"); thing.field("name", "string", 1)
    gs = f.msg("GetShelfRequest"); gs.field("name", "string", 1)
    gb = f.msg("GetBookRequest"); gb.field("name", "string", 1)
    if shape == "different-messages":
        gs.field("options", "message", 2, type_name=o1); gb.field("options", "message", 2, type_name=o2)
    elif shape == "one-message":
        gs.field("shelf_options", "message", 2, type_name=o1); gs.field("book_options", "message", 3, type_name=o2)
        gb.field("options", "message", 2, type_name=o2)
    else:       # "nested": the two uses sit in nested messages of two different top-level messages
        n1 = gs.nested("Detail"); n1.field("options", "message", 1, type_name=o1); gs.field("detail", "message", 2, type_name=n1)
        n2 = gb.nested("Detail"); n2.field("options", "message", 1, type_name=o2); gb.field("detail", "message", 2, type_name=n2)
    s = f.service("Library")
    s.method("GetShelf", gs, thing, http=("get", "/v1/{name=shelves/*}"))
    s.method("GetBook", gb, thing, http=("get", "/v1/{name=books/*}"))
    files = [f1, f2, f]
    payload = {"api": "module-collision", "shape": shape, "subs": list(subs)}
    K = (lambda k: "alias-collision:same-initials" if k.split(":")[1] in ("import", "wrong-type-bound", "wire") else k) if same_initials else (lambda k: k)
    shape_l = shape if tuple(subs) == ("shelf", "book") else f"{shape} in {subs[0]}/{subs[1]}"
    ctx.count("position", "colliding module names: " + shape + ("" if tuple(subs) == ("shelf", "book") else " (sub-packages with %s alias initials)" % ("equal" if same_initials else "different")))
    req = apigen.request(files, "transport=grpc,autogen-snippets=false")
    res, err = genrun.try_generate(req)
    if err:
        ctx.fail(K("module-collision:generation"), f"{shape_l}: generator raised {err[0]}: {err[1]}", payload)
        return
    api, _ = genrun.build_api(req)
    svc = api.services[f"{PKG}.Library"]
    loc = rpc.py_locations(api, svc)
    codec = rpc.Codec(files)
    sv = {"aisle": "A7"}; bv = {"pages": 321, "cover": "hard"}
    if shape == "different-messages":
        rq_s, rq_b = {"name": "shelves/s", "options": sv}, {"name": "books/b", "options": bv}
    elif shape == "one-message":
        rq_s, rq_b = {"name": "shelves/s", "shelf_options": sv, "book_options": bv}, {"name": "books/b", "options": bv}
    else:
        rq_s, rq_b = {"name": "shelves/s", "detail": {"options": sv}}, {"name": "books/b", "detail": {"options": bv}}
    calls = []
    for meth, mname, rq in (("get_shelf", "GetShelf", rq_s), ("get_book", "GetBook", rq_b)):
        full = f"{PKG}.{mname}Request"
        # the request is the literal dict a caller would write: built from bytes through the generated class, a field bound to
        # the wrong package's type would survive in the unknown-field set and the wire would look right
        calls.append({"method": meth, "mode": "request-literal-dict", "py_request": rpc.py_type(svc.methods[mname].input),
                      "request_literal": rq, "request_b64": codec.encode_b64(full, rq), "_expect": (full, rq)})
    root = genrun.materialise(res)
    try:
        out = libhost.run(root, [{"op": "import_all", "package": loc["package"]},
                                 {"op": "grpc_session", "client": loc["client"], "transport": loc["grpc"], "async": False,
                                  "calls": [{k: v for k, v in c.items() if not k.startswith("_")} for c in calls]}], timeout=300)
    finally:
        genrun.cleanup(root)
    imp = out[0]
    if "child_error" in imp or imp.get("errors"):
        ctx.fail(K("module-collision:import"), f"{shape_l}: library does not import: {str(imp.get('errors') or imp)[:300]}", payload)
        return
    sess = out[1]
    if "calls" not in sess:
        ctx.fail(K("module-collision:session"), f"{shape_l}: session failed: {str(sess)[-300:]}", payload)
        return
    for c, r_ in zip(calls, sess["calls"]):
        full, want = c["_expect"]
        if "ok" not in r_ or len(r_["server"]) != 1:
            ctx.fail(K("module-collision:wrong-type-bound"), f"{shape_l}: {c['method']} with {want}: {r_.get('raised')}: {r_.get('msg', '')[:200]}", payload)
            continue
        got = codec.decode(full, r_["server"][0]["requests"][0])
        if got != codec.normal(full, want):
            ctx.fail(K("module-collision:wire"), f"{shape_l}: {c['method']}: server decoded {got}, caller meant {want}", payload)


def t2(ctx):
    """function-level correspondence over the whole tables"""
    from gapic.utils import to_snake_case
    from gapic.utils.uri_conv import convert_uri_fieldnames
    from gapic.schema import wrappers
    ws = words()
    model = ctx.driver.ask([{"op": "c12.names", "word": w} for w in ws] + [{"op": "c12.names", "word": cap(w)} for w in ws])
    res, kw = tables()
    for w, mo in zip(ws + [cap(w) for w in ws], model):
        ctx.case(distinct_key=["names", w])
        ctx.traces += 1
        impl = {"reserved": w in res, "keyword": w in kw,
                "field_attr": w + "_" if w in res else w,
                "client_method_name": w + "_" if w.lower() in keyword.kwlist else w,
                "client_method_snake": to_snake_case(w + "_" if w.lower() in keyword.kwlist else w),
                "json_name": json_name(w), "json_name_suffixed": json_name(w + "_")}
        # real objects where a cheap constructor exists
        impl["header_single"] = wrappers.FieldHeader(w).disambiguated
        for k in ("reserved", "keyword", "field_attr", "client_method_name", "client_method_snake", "json_name", "json_name_suffixed"):
            if mo.get(k) != impl[k]:
                ctx.disagree("T2:c12.names", f"{k} of {w!r}: model {mo.get(k)!r} vs impl {impl[k]!r}", {"word": w})
        if impl["header_single"] != mo["field_attr"]:
            ctx.disagree("T2:c12.header", f"FieldHeader({w!r}).disambiguated = {impl['header_single']!r}, model {mo['field_attr']!r}", {"word": w})
        if keyword.iskeyword(impl["client_method_snake"]):
            ctx.fail("rpc-name-keyword", f"RPC {w!r}: emitted method name {impl['client_method_snake']!r} is a keyword", {"word": w})
    # dotted paths
    r = ctx.rng("paths")
    paths = [[w] for w in ws[:10]]
    for _ in range(ctx.n(120, 1500)):
        paths.append([r.pick(ws + ["book", "shelf", "name", "parent"]) for _ in range(r.randint(1, 4))])
    pm = ctx.driver.ask([{"op": "c12.path", "path": p} for p in paths])
    for p, mo in zip(paths, pm):
        ctx.case(distinct_key=["path", p]); ctx.traces += 1
        dotted = ".".join(p)
        # the variable's own template and the text around it repeat the words: only the NAME span may change
        tmpl = "/".join(x + "s/*" for x in p)
        uri = convert_uri_fieldnames("/v1/%s/{%s=%s}/%s:verb" % (p[0], dotted, tmpl, p[-1]))
        want_uri = "/v1/%s/{%s=%s}/%s:verb" % (p[0], ".".join(mo["uri"]), tmpl, p[-1])
        if uri != want_uri:
            ctx.disagree("T2:c12.uri", f"convert_uri_fieldnames on {dotted!r}: {uri!r} vs model {want_uri!r}", {"path": p})
        # direct oracle (no model): the variable of the converted URI is the ATTRIBUTE path of the request — every segment that is
        # in the generator's reserved list carries one trailing underscore, at any depth (seed13_C12: only the last two of three+)
        attr_path = ".".join(x + "_" if x in res else x for x in p)
        if "{%s=%s}" % (attr_path, tmpl) not in uri:
            ctx.fail("uri-variable-not-attribute-path", f"http path variable {dotted!r}: convert_uri_fieldnames gives {uri!r}, "
                     f"the request attribute path is {attr_path!r}", {"path": p})
        bare = convert_uri_fieldnames("/v1/{%s}/x/{%s=*}" % (dotted, dotted))
        if bare != "/v1/{%s}/x/{%s=*}" % (".".join(mo["uri"]), ".".join(mo["uri"])):
            ctx.disagree("T2:c12.uri", f"convert_uri_fieldnames on bare {dotted!r}: {bare!r}", {"path": p})
        hd = wrappers.FieldHeader(dotted).disambiguated.split(".")
        if hd != mo["header"]:
            ctx.disagree("T2:c12.header", f"FieldHeader({dotted!r}).disambiguated: {hd} vs model {mo['header']}", {"path": p})
    # snake case on generated identifiers
    idents = []
    parts = ["Get", "IAM", "Policy", "2FA", "V2", "Http", "URL", "x", "List", "3M", "Id", "OAuth2", "A", "B1", "_", "foo", "Bar9"]
    for _ in range(ctx.n(300, 5000)):
        idents.append("".join(r.pick(parts) for _ in range(r.randint(1, 5))))
    sm = ctx.driver.ask([{"op": "c12.snake", "s": s} for s in idents])
    for s, mo in zip(idents, sm):
        ctx.case(distinct_key=["snake", s]); ctx.traces += 1
        if mo["r"] != to_snake_case(s):
            ctx.disagree("T2:c12.to_snake_case", f"{s!r}: model {mo['r']!r} vs impl {to_snake_case(s)!r}", {"ident": s})
    # camel case (the `camel_case` filter keys the REST transport's table of REQUIRED query fields by the ATTRIBUTE name of the field):
    # every word as attribute and bare, multi-word names with the suffix, separators at either end, generated identifiers
    from gapic.utils import to_camel_case
    cam = [attr(w) for w in ws] + ws + [attr(w) + "_" for w in ws[:8]] + ["page_size", "display_name_", "_x", "x__y", "a-b", "a_-b_", "-", "_", ""]
    for _ in range(ctx.n(150, 2500)):
        k = r.randint(1, 4)
        cam.append(r.pick(["", "", "_"]) + "_".join(r.pick(ws + ["page", "size", "v2", "id", "x"]) for _ in range(k)) + r.pick(["", "", "_", "__"]))
    cam += idents[: ctx.n(100, 1500)]
    cm = ctx.driver.ask([{"op": "c12.camel", "s": s} for s in cam])
    for s, mo in zip(cam, cm):
        ctx.case(distinct_key=["camel", s]); ctx.traces += 1
        if mo["r"] != to_camel_case(s):
            ctx.disagree("T2:c12.to_camel_case", f"{s!r}: model {mo['r']!r} vs impl {to_camel_case(s)!r}", {"ident": s})
        if mo["json_name"] != json_name(s):
            ctx.disagree("T2:c12.json_name", f"{s!r}: model {mo['json_name']!r} vs ToJsonName {json_name(s)!r}", {"ident": s})
    # proto file names: through API.build
    invalid = sorted(set(keyword.kwlist) | {"metadata", "retry", "timeout", "request"})
    cases = [[w] for w in invalid if file_base_ok(w)][: ctx.n(8, 100)] + [["class", "class_"], ["class_", "class"], ["a.b", "a_b"], ["import", "import_", "import__"]]
    for names in cases:
        files = []
        for i, n in enumerate(names):
            f = apigen.File(f"acme/lib/v1/{n}.proto", PKG, deps=[])
            f.msg(f"M{i}").field("x")
            files.append(f)
        svcf = apigen.File("acme/lib/v1/zz_service.proto", PKG).dep(*[f.name for f in files])
        s = svcf.service("Library"); s.method("Get", ".acme.lib.v1.M0", ".acme.lib.v1.M0")
        try:
            api, _ = genrun.build_api(apigen.request(files + [svcf], "transport=grpc,autogen-snippets=false"))
        except Exception as e:
            ctx.fail("file-name:generation", f"files {names}: {type(e).__name__}: {e}", {"files": names})
            continue
        visited, mops = [], []
        impl_names = []
        for proto in list(api.protos.values())[: len(names)]:     # API.build renames fd.name in place; order is the request's
            impl_names.append(proto.module_name)
        for n in names:
            mo = ctx.driver.ask([{"op": "c12.file", "visited": visited, "name": n.replace(".", "_")}])[0]
            mops.append(mo["r"]); visited.append(mo["r"])
        ctx.case({"files": names, "modules": impl_names}, distinct_key=["files", names]); ctx.traces += 1
        if mops != impl_names:
            ctx.disagree("T2:c12.file-name", f"files {names}: model {mops} vs impl {impl_names}", {"files": names})
        if len(set(impl_names)) != len(impl_names) or any(keyword.iskeyword(m) or m in ("metadata", "retry", "timeout", "request") for m in impl_names):
            ctx.fail("file-name", f"files {names} -> modules {impl_names}: not distinct valid module names", {"files": names})


def run(ctx):
    ctx.rule = ("finite space: every word of RESERVED_NAMES ∪ keyword.kwlist (+ soft keywords and control-parameter names) x positions "
                "{top-level field, nested field, flattened parameter (top-level, dotted terminal, dotted non-terminal), http path variable "
                "(top-level, dotted), http body (URI with and without path variables, primary and additional binding), http query parameter (REQUIRED set/unset, nested, beside a body), routing field, rpc name, proto file name}; "
                "a proto file named by each keyword / control parameter holding a whole API (request, response, LRO types; the same and another reserved "
                "word as flattened parameter, path variable, body field; flattened and request=, sync/asyncio gRPC and REST); "
                "a types module named like a wrapper module the service code imports (operation, operation_async, pagers, extended_operation) x "
                "{only LRO metadata there, everything there}: plain call, pager, LRO completed, sync/asyncio/REST; "
                "rpc and proto file named by the same keyword; same-base-name modules in sub-package pairs with equal / different alias initials; "
                "dependency files (proto-plus and _pb2) named by keywords / control parameters; "
                "proto-plus dependency packages (`proto-plus-deps=`) whose module needs an alias {own module, other dependency (proto-plus / _pb2), reserved "
                "word, flattened parameter, dependency type as request}: dependency and API libraries generated into one site directory, imported, called; "
                "every REST request is read back whole (path variables + query + body under the input descriptor); quick samples words, thorough enumerates all; "
                "distinct by (word, position)")
    t2(ctx)
    ws = words()
    res, kw = tables()
    r = ctx.rng("words")
    if ctx.quick:
        sample = ["class", "import", "format", "__peg_parser__", "None"] + [r.pick(ws) for _ in range(2)]     # `__peg_parser__`, `None`: findings/C12.json
    else:
        sample = ws
        ctx.exhaustive = True
    for w in (["metadata", "request"] if ctx.quick else ["metadata", "retry", "timeout", "request"]):
        f, _ = build_safe_api(w, ("file",))
        bad = emitted_ok(f)
        ctx.case({"word": w, "api": "file-name"}, distinct_key=["file", w]); ctx.count("position", "proto file name")
        if bad is not None:
            ctx.fail(f"position:proto file name:{bad[0]}", f"proto file {w}.proto: library fails at {bad[0]}: {bad[1]}", {"word": w, "api": "safe-positions", "position": "file"})
    for w in dict.fromkeys(sample):
        check_safe(ctx, w)
        ctx.case({"word": w, "api": "safe-positions"}, distinct_key=["safe", w])
    # a proto file named by a keyword / control parameter that holds a whole API (requests, responses, LRO types; the same and another
    # reserved word as flattened parameter, path variable, body field)
    invalid = [x for x in sorted(set(kw) | {"metadata", "retry", "timeout", "request"}) if file_base_ok(x)]
    rk = ctx.rng("keyword-files")
    fres = [x for x in res if x.islower() and re.fullmatch(r"[a-z][a-z0-9_]*", x)]
    kfiles = (["class", "import", "request"] + [rk.pick(invalid) for _ in range(3)]) if ctx.quick else invalid
    for w in dict.fromkeys(kfiles):
        for o in dict.fromkeys([rk.pick(fres) for _ in range(1 if ctx.quick else 3)]):
            check_kwfile(ctx, w, o)
            ctx.case({"word": w, "other": o, "api": "keyword-file"}, distinct_key=["kwfile", w, o])
    # a types module named like a module the generated service code imports for its wrapper types (+ one name that collides with nothing)
    for name in WRAPPER_MODULES + ("catalog",):
        for shape in ("metadata", "everything"):
            for tr in (("grpc+rest",) if ctx.quick else ("grpc+rest", "grpc")):
                check_wrapper_collision(ctx, name, shape, tr)
                ctx.case({"api": "wrapper-module-collision", "module": name, "shape": shape, "transport": tr}, distinct_key=["wrapcol", name, shape, tr])
    # proto-plus dependency packages (`proto-plus-deps=`) whose module needs an alias: collision with the API's own module, with another
    # dependency's module (proto-plus or _pb2), with a reserved word, with a flattened parameter; dependency type as request type
    rp = ctx.rng("proto-plus-deps")
    modwords = [x for x in res if x not in kw and re.fullmatch(r"[a-z][a-z0-9_]*", x)]
    for sc in PPDEPS_SCENARIOS:
        for wd in (dict.fromkeys(["type", rp.pick(modwords)] if ctx.quick else modwords) if sc == "reserved-module" else ["type"]):
            check_ppdeps(ctx, sc, wd)
            ctx.case({"api": "proto-plus-deps", "scenario": sc, "word": wd}, distinct_key=["ppdeps", sc, wd])
    check_ppdeps(ctx, "dep-subpackage")      # referenced types in a sub-package of the versioned dependency package (findings/C12.json)
    ctx.case({"api": "proto-plus-deps", "scenario": "dep-subpackage", "word": "type"}, distinct_key=["ppdeps", "dep-subpackage"])
    # ... and whose FILE is named by a keyword / control parameter (module `<word>_` in the dependency's own library), proto-plus and _pb2
    for sc, first in (("keyword-dep-file", ["import", "request"]), ("keyword-pb2-file", ["metadata"])):
        for wd in dict.fromkeys(first + [rp.pick(invalid)] if ctx.quick else invalid):
            check_ppdeps(ctx, sc, wd)
            ctx.case({"api": "proto-plus-deps", "scenario": sc, "word": wd}, distinct_key=["ppdeps", sc, wd])
    for shape in ("different-messages", "one-message", "nested"):
        check_module_collisions(ctx, shape)
        ctx.case({"api": "module-collision", "shape": shape}, distinct_key=["modcol", shape])
    # an RPC and the proto file of its types named by the same keyword (method / transport property `import_` vs module `import_`)
    kws = [x for x in kw if file_base_ok(x) and re.fullmatch(r"[a-z]+", x)]
    for w in (dict.fromkeys(["import", r.pick(kws)]) if ctx.quick else kws):
        for order in (("kw", "other"), ("other", "kw")):
            check_rpc_and_file(ctx, w, order)
            ctx.case({"api": "rpc-and-file", "word": w, "order": list(order)}, distinct_key=["rpcfile", w, order])
    # the same with other pairs of sub-packages: different alias initials (must hold) and equal ones (findings/C12.json)
    for subs in SUBPACKAGE_PAIRS[1:]:
        for shape in (("one-message",) if ctx.quick else ("different-messages", "one-message", "nested")):
            check_module_collisions(ctx, shape, subs)
            ctx.case({"api": "module-collision", "shape": shape, "subs": list(subs)}, distinct_key=["modcol", shape, subs])
    for w in (["class", "import"] if ctx.quick else [x for x in ws if x in res]):
        check_bad_positions(ctx, w)
        ctx.case({"word": w, "api": "bad-positions"}, distinct_key=["bad", w])


def search(ctx):
    for w in words():
        check_safe(ctx, w)
    res, kw = tables()
    for w in sorted(set(kw) | {"metadata", "retry", "timeout", "request"}):
        if file_base_ok(w):
            check_kwfile(ctx, w, "type")
    for name in WRAPPER_MODULES:
        for shape in ("metadata", "everything"):
            check_wrapper_collision(ctx, name, shape, "grpc+rest")
    for sc in PPDEPS_SCENARIOS:
        check_ppdeps(ctx, sc, "type")
    for wd in ("import", "request", "class", "metadata"):
        check_ppdeps(ctx, "keyword-dep-file", wd)


def replay(ctx, payload):
    import leanio
    ctx.driver = leanio.Driver()
    w = payload.get("word", "class")
    if payload.get("api") == "module-collision":
        check_module_collisions(ctx, payload.get("shape", "different-messages"), tuple(payload.get("subs") or ("shelf", "book")))
    elif payload.get("api") == "wrapper-module-collision":
        check_wrapper_collision(ctx, payload.get("module", "operation"), payload.get("shape", "metadata"), payload.get("transport", "grpc+rest"))
    elif payload.get("api") == "rpc-and-file":
        check_rpc_and_file(ctx, w, tuple(payload.get("order") or ("kw", "other")))
    elif payload.get("api") == "proto-plus-deps":
        check_ppdeps(ctx, payload.get("scenario", "own-module"), payload.get("word", "type"))
    elif payload.get("api") == "keyword-file":
        check_kwfile(ctx, w, payload.get("other", "type"))
    elif payload.get("api") == "safe-positions":
        check_safe(ctx, w)
    else:
        check_bad_positions(ctx, w)
    for f in ctx.failures:
        print("  failure:", f["key"], "-", f["what"])
    return not ctx.failures


CLAIM = dict(
    text="Lean 4 proofs over the WHOLE bridged tables (decide) and for all names/paths: the attribute of a field is never a keyword, "
         "carries exactly one underscore exactly for reserved words, suffixing is stable and injective (under a stated hypothesis with "
         "counterexample), URI variables resolve at any depth, implicit-header and flattened keys resolve exactly under stated conditions "
         "(counterexample theorems for the rest), JSON names ignore the suffix, keyword RPC names and invalid proto file names get one "
         "underscore, the REST required-field key `camel_case(attribute)` is the JSON name for every reserved word without a capital (counterexample: `None`), the module of a keyword-named file is aliased in the context of every method that flattens the same keyword "
         "(`Service.with_context` collision set = service names + suffixed flattened keys). Tie: T1 bridge of the four tables and the snake_case regexes; T2 of every naming function over the whole tables; "
         "T3 per word: generate, import, call over loopback gRPC/HTTP and check attribute names and wire names, REST requests reassembled from path, "
         "query string and body under the original proto/JSON names (exhaustive in thorough).",
    technique="Lean 4 theorems + `decide` over translator-bridged finite tables; differential T2; exhaustive T3 enumeration word x position",
    design="7.12",
    note="Module-alias collisions between two proto modules: T3 (three shapes) and T3 of C01/C02 profiles, no theorem; between a proto module and a "
         "wrapper module of the service code (`Service.names` over `ref_types`): theorems + T2 (`c12.svcnames`) + T3 (extended LRO itself is not "
         "generated: `extended_operation.proto` only as a file name); names bound by the templates (retries, logging, re, ...) are findings/C01.json; the import of an aliased module binds the name its references use (`Address.python_import` vs `Address.__str__`, all four "
         "branches incl. proto-plus dependencies): theorem + T2 (`c12.import`) + T3; alias of a keyword-named file's module "
         "against a flattened parameter of the same word: theorem + T2 (`c12.alias`) + T3. A module `class_` meeting the transport property of an "
         "RPC `Class` is tested in an API of its own since round 9 (`check_rpc_and_file`; known finding rpc-name-equals-renamed-types-module:import). "
         "Dependency FILES named by a keyword / control parameter: proto-plus dependency imports the module its library ships (theorem + T2 "
         "`c12.depmodule` + T3), `_pb2` dependency does not (counterexample theorem; finding). Same-base-name modules in sub-packages with equal "
         "alias initials share one alias (translated counterexample theorem; finding alias-collision:same-initials). Dotted http path variables with a "
         "reserved segment and reserved non-terminal flattened segments are wrong at HEAD (counterexample theorems; findings).",
)
