"""C13 — the unit-test suite emitted with a library passes against that library (DESIGN §7.13, §8)."""
from __future__ import annotations
import json, os, re, shutil, subprocess, tempfile
from concurrent.futures import ThreadPoolExecutor
import xml.etree.ElementTree as ET
import apigen, genrun
from google.api import field_behavior_pb2

PKG = "acme.lib.v1"
PY = "/venv/bin/python"

FEATURES = ["custom_lro", "server_stream", "bidi_stream", "client_stream", "scalars", "single_enum", "nested", "recursive_optional",
            "map_field", "oneof_flat", "proto3_optional", "reserved_field", "required_scalars_query", "required_message_query",
            "uuid4", "routing", "additional_bindings", "multi_seg_var", "two_path_vars", "int_path_var", "body_star", "paged_wrapper",
            "paged_scalar", "paged_map", "delete_void", "keyword_rpc", "second_service", "resource_second", "repeated_scalars", "toplevel_collection", "no_http_methods"]


def gen_case(r: apigen.Rng):
    feats = sorted(set(r.sample(FEATURES, r.randint(3, 10))))
    tr = r.pick(["grpc", "rest", "grpc+rest", "grpc+rest"])
    opts = [f"transport={tr}"]
    if r.maybe(0.3): opts.append("rest-numeric-enums")
    if r.maybe(0.2): opts.append("metadata")
    mixins = r.sample(["operations", "iam", "locations"], r.randint(0, 3)) if r.maybe(0.45) else []
    legacy_iam = r.maybe(0.12) and "iam" not in mixins
    if legacy_iam: opts.append("add-iam-methods")
    ads = r.maybe(0.1)
    if ads:
        opts += ["python-gapic-templates=ads-templates", "old-naming"]
        mixins, legacy_iam = [], False
        opts = [o for o in opts if o != "add-iam-methods"]
    # the async-REST experiment (service yaml, publishing settings); it only changes the surface when rest is requested
    rest_async = (not ads) and "rest" in tr and r.maybe(0.3)
    return {"features": feats, "opts": opts, "mixins": sorted(mixins), "ads": ads, "rest_async": rest_async}


def build(case):
    F = set(case["features"])
    f = apigen.File("acme/lib/v1/lib.proto", PKG)
    genre = f.enum("Genre", ["GENRE_UNSPECIFIED", "FICTION", "POETRY"])
    book = f.msg("Book").resource("lib.example.com/Book", "shelves/{shelf}/books/{book}")
    book.field("name"); book.field("title"); book.field("pages", "int32"); book.field("genre", "enum", type_name=genre)
    book.field("tags", "string", repeated=True)
    if "scalars" in F:
        for i, t in enumerate(["double", "float", "int64", "uint64", "fixed64", "fixed32", "bool", "bytes", "uint32", "sfixed32", "sfixed64", "sint32", "sint64"]):
            book.field(f"f_{t}", t)
    if "repeated_scalars" in F:      # repeated fields of every scalar kind (and of the enum) at the top level of the resource/response message
        for t in ["double", "float", "int64", "uint64", "int32", "fixed64", "fixed32", "bool", "string", "bytes", "uint32", "sfixed32", "sfixed64", "sint32", "sint64"]:
            book.field(f"r_{t}", t, repeated=True)
        book.field("r_genre", "enum", repeated=True, type_name=genre)
    if "single_enum" in F:
        only = f.enum("Only", ["ONLY_UNSPECIFIED"]); book.field("only", "enum", type_name=only)
    if "nested" in F:
        ch = book.nested("Chapter"); ch.field("title"); ch.field("sub", "message", repeated=True, type_name=ch)
        book.field("chapters", "message", repeated=True, type_name=ch)
    if "recursive_optional" in F:
        book.field("sequel", "message", type_name=book)
    if "map_field" in F:
        book.map_field("labels", "string", "string")
    if "oneof_flat" in F:
        book.field("paper", "string", oneof="format"); book.field("ebook_bytes", "int32", oneof="format")
    if "proto3_optional" in F:
        book.field("nick", "string", optional=True)
    if "reserved_field" in F:
        book.field("class", "string")
    g = f.msg("GetBookRequest"); g.field("name", required=True, ref="lib.example.com/Book")
    l = f.msg("ListBooksRequest"); l.field("parent", required=True)
    if "paged_wrapper" in F:
        l.field("max_results", "message", type_name=".google.protobuf.UInt32Value")
    else:
        l.field("page_size", "int32")
    l.field("page_token"); l.field("filter")
    if "required_scalars_query" in F:
        l.field("limit", "int32", required=True); l.field("ratio", "double", required=True); l.field("flag", "bool", required=True)
        l.field("big", "int64", required=True); l.field("kind", "enum", type_name=genre, required=True); l.field("raw", "bytes", required=True)
    if "required_message_query" in F:
        l.field("mask", "message", type_name=".google.protobuf.FieldMask", required=True)
    lr = f.msg("ListBooksResponse")
    if "paged_scalar" in F:
        lr.field("books", "string", repeated=True)
    elif "paged_map" in F:
        lr.map_field("books", "string", "message", vtype_name=book)
    else:
        lr.field("books", "message", repeated=True, type_name=book)
    lr.field("next_page_token")
    c = f.msg("CreateBookRequest"); c.field("parent", required=True); c.field("book", "message", type_name=book, required=True); c.field("book_id")
    if "uuid4" in F:
        c.field("request_id", "string", uuid4=True)
    if "oneof_flat" in F:
        c.field("from_url", "string", oneof="src"); c.field("from_text", "string", oneof="src")
    u = f.msg("UpdateBookRequest"); u.field("book", "message", type_name=book, required=True); u.field("update_mask", "message", type_name=".google.protobuf.FieldMask")
    d = f.msg("DeleteBookRequest"); d.field("name", required=True)
    mv = f.msg("MoveBookRequest"); mv.field("name", required=True); mv.field("other_shelf")
    md = f.msg("MoveMeta"); md.field("progress", "int32")
    st = f.msg("StreamReq"); st.field("name")
    if "int_path_var" in F:
        st.field("num", "int32")
    s = f.service("Library")
    get_uri = "/v1/{name=shelves/*/books/**}" if "multi_seg_var" in F else "/v1/{name=shelves/*/books/*}"
    bindings = [("get", "/v1/{name=archives/*/books/*}", None)] if "additional_bindings" in F else []
    s.method("GetBook", g, book, http=("get", get_uri), sigs=["name"], bindings=bindings,
             routing=[("name", "{shelf=shelves/*}/**"), ("name", None)] if "routing" in F else None)
    s.method("ListBooks", l, lr, http=("get", "/v1/{parent=shelves/*}/books"), sigs=["parent"])
    csig = "parent,from_url,from_text" if "oneof_flat" in F else "parent,book,book_id"
    s.method("CreateBook", c, book, http=("post", "/v1/{parent=shelves/*}/books"), body="*" if "body_star" in F else "book", sigs=[csig])
    s.method("UpdateBook", u, book, http=("patch", "/v1/{book.name=shelves/*/books/*}"), body="book", sigs=["book,update_mask"])
    if "delete_void" in F:
        s.method("DeleteBook", d, ".google.protobuf.Empty", http=("delete", "/v1/{name=shelves/*/books/*}"), sigs=["name"])
    if "custom_lro" in F:
        uri = "/v1/{name=shelves/*/books/*}/to/{other_shelf=shelves/*}" if "two_path_vars" in F else "/v1/{name=shelves/*/books/*}:move"
        s.method("MoveBook", mv, ".google.longrunning.Operation", http=("post", uri), body="*", sigs=["name,other_shelf"], lro=("Book", "MoveMeta"))
    if "server_stream" in F:
        s.method("StreamBooks", st, book, http=("get", "/v1/{name=shelves/*}/n/{num}:stream" if "int_path_var" in F else "/v1/{name=shelves/*}:stream"), ss=True)
    if "bidi_stream" in F:
        s.method("Chat", st, book, cs=True, ss=True)
    if "client_stream" in F:
        s.method("Upload", st, book, cs=True)
    if "keyword_rpc" in F:
        s.method("Import", g, book, http=("get", "/v1/{name=shelves/*/books/*}:import"))
    if "resource_second" in F:
        shelf = f.msg("Shelf").resource("lib.example.com/Shelf", "shelves/{shelf}"); shelf.field("name")
        gs = f.msg("GetShelfRequest"); gs.field("name", required=True, ref="lib.example.com/Shelf")
        s.method("GetShelf", gs, shelf, http=("get", "/v1/{name=shelves/*}"), sigs=["name"])
    if "toplevel_collection" in F:
        # top-level collections: a paged List, a Get-by-query and a Create whose URIs have NO path variable (no implicit routing header)
        shelf2 = f.msg("Rack").resource("lib.example.com/Rack", "racks/{rack}"); shelf2.field("name"); shelf2.field("size", "int32")
        lsr = f.msg("ListRacksRequest"); lsr.field("page_size", "int32"); lsr.field("page_token"); lsr.field("filter")
        lsp = f.msg("ListRacksResponse"); lsp.field("racks", "message", repeated=True, type_name=shelf2); lsp.field("next_page_token")
        s.method("ListRacks", lsr, lsp, http=("get", "/v1/racks"))
        crr = f.msg("CreateRackRequest"); crr.field("rack", "message", type_name=shelf2, required=True)
        s.method("CreateRack", crr, shelf2, http=("post", "/v1/racks"), body="rack", sigs=["rack"])
    if "no_http_methods" in F:
        # gRPC-only methods (no google.api.http): unary and paged
        pq = f.msg("PingRequest"); pq.field("note")
        s.method("Ping", pq, pq)
        lpr = f.msg("ListPingsRequest"); lpr.field("page_size", "int32"); lpr.field("page_token")
        lpp = f.msg("ListPingsResponse"); lpp.field("pings", "string", repeated=True); lpp.field("next_page_token")
        s.method("ListPings", lpr, lpp)
    if "second_service" in F:
        s2 = f.service("Catalog")
        s2.method("GetBook", g, book, http=("get", "/v1/catalog/{name=shelves/*/books/*}"), sigs=["name"])
    return f


def service_yaml(case):
    apis, rules = ["acme.lib.v1.Library"], []
    if "operations" in case["mixins"]:
        apis.append("google.longrunning.Operations")
        rules += [("google.longrunning.Operations.GetOperation", "get", "/v1/{name=operations/*}", None),
                  ("google.longrunning.Operations.ListOperations", "get", "/v1/{name=operations}", None),
                  ("google.longrunning.Operations.CancelOperation", "post", "/v1/{name=operations/*}:cancel", "*"),
                  ("google.longrunning.Operations.DeleteOperation", "delete", "/v1/{name=operations/*}", None)]
    if "iam" in case["mixins"]:
        apis.append("google.iam.v1.IAMPolicy")
        rules += [("google.iam.v1.IAMPolicy.GetIamPolicy", "post", "/v1/{resource=shelves/*}:getIamPolicy", "*"),
                  ("google.iam.v1.IAMPolicy.SetIamPolicy", "post", "/v1/{resource=shelves/*}:setIamPolicy", "*"),
                  ("google.iam.v1.IAMPolicy.TestIamPermissions", "post", "/v1/{resource=shelves/*}:testIamPermissions", "*")]
    if "locations" in case["mixins"]:
        apis.append("google.cloud.location.Locations")
        rules += [("google.cloud.location.Locations.GetLocation", "get", "/v1/{name=projects/*/locations/*}", None),
                  ("google.cloud.location.Locations.ListLocations", "get", "/v1/{name=projects/*}/locations", None)]
    y = "type: google.api.Service\nconfig_version: 3\nname: lib.example.com\ntitle: Library API\napis:\n"
    y += "".join(f"- name: {a}\n" for a in apis)
    if rules:
        y += "http:\n  rules:\n"
        for sel, verb, uri, body in rules:
            y += f"  - selector: {sel}\n    {verb}: '{uri}'\n" + (f"    body: '{body}'\n" if body else "")
    return y


def run_pytest(root, workers=4, timeout=900):
    junit = os.path.join(root, "junit.xml")
    p = subprocess.run([PY, "-m", "pytest", "-q", "-p", "no:cacheprovider", "tests/unit", "-n", str(workers), "--no-header",
                        f"--junitxml={junit}", "-o", "junit_family=xunit1"], cwd=root, capture_output=True, text=True, timeout=timeout,
                       env={**os.environ, "PYTHONDONTWRITEBYTECODE": "1"})
    total, bad = 0, []
    try:
        for tc in ET.parse(junit).getroot().iter("testcase"):
            total += 1
            for ch in tc:
                if ch.tag in ("failure", "error"):
                    bad.append((tc.get("name"), (ch.get("message") or "")[:160]))
    except Exception:
        bad.append(("<collection>", (p.stdout + p.stderr)[-400:]))
    return p.returncode, total, bad


def one(case):
    f = build(case)
    ydir = None
    opts = list(case["opts"])
    try:
        if case["mixins"] or case.get("rest_async"):
            ydir = tempfile.mkdtemp(prefix="gapicverif_yaml_", dir=genrun.SCRATCH)
            yp = os.path.join(ydir, "service.yaml")
            ytext = service_yaml(case)
            if case.get("rest_async"):
                ytext += ("publishing:\n  library_settings:\n  - version: %s\n    python_settings:\n      experimental_features:\n"
                          "        rest_async_io_enabled: true\n" % PKG)
            open(yp, "w").write(ytext)
            opts.append("service-yaml=" + yp)
        req = apigen.request([f], ",".join(opts))
        res, err = genrun.try_generate(req)
        if err:
            return {"stage": "generation", "err": err}
        root = genrun.materialise(res)
        try:
            rc, total, bad = run_pytest(root)
            return {"stage": "pytest", "rc": rc, "total": total, "bad": bad}
        finally:
            genrun.cleanup(root)
    finally:
        if ydir:
            shutil.rmtree(ydir, ignore_errors=True)


def norm_test(name):
    return re.sub(r"\[.*$", "", name or "")


def judge(ctx, case, out):
    payload = {"case": case}
    if out["stage"] == "generation":
        ctx.fail("generation:" + out["err"][0], f"generator raised {out['err'][0]}: {out['err'][1]}", payload)
        return
    ctx.count("tests_per_library", out["total"] // 50 * 50)
    ctx.notes["emitted_tests_run"] = ctx.notes.get("emitted_tests_run", 0) + out["total"]
    if out["bad"] or out["rc"] != 0:
        names = sorted(set(norm_test(n) for n, _ in out["bad"]))
        key = "emitted-tests-fail:" + (names[0] if names else "collection")
        if case.get("rest_async") and not any(o.startswith("transport=") and "grpc" in o for o in case["opts"]) \
                and names and all("rest_asyncio" in n or "async" in n for n in names):
            key = "emitted-tests-fail:async-rest-without-grpc"      # findings/C13.json (same root cause as the C01 finding)
        ctx.fail(key,
                 f"{len(out['bad'])} of {out['total']} emitted tests fail, e.g. {out['bad'][:2]}", {**payload, "failing": names[:20]})


def t2_samples(ctx, r):
    from gapic.utils import uri_sample
    from google.api_core import path_template
    tmpls = []
    for _ in range(ctx.n(300, 4000)):
        segs = []
        for k in range(r.randint(1, 6)):
            segs.append(r.pick(["*", "*", "**", "shelves", "books", "v1", "a-b", "x.y"]))
        tmpls.append("/".join(segs))
    model = ctx.driver.ask([{"op": "c13.sample", "template": t, "k": 0} for t in tmpls])
    for t, mo in zip(tmpls, model):
        ctx.case(distinct_key=["tmpl", t]); ctx.traces += 1
        impl = uri_sample.sample_from_path_fields([("f", t)])["f"]
        if mo["value"] != impl:
            ctx.disagree("T2:c13.sample_from_path_fields", f"{t!r}: model {mo['value']!r} vs impl {impl!r}", {"template": t})
        # the external meaning of `Matches`: api-core's own validator, with `**` only in last position (its grammar)
        if "**" not in t.split("/")[:-1]:
            if not path_template.validate(t, impl):
                ctx.fail("sample-does-not-match-template", f"sample {impl!r} does not match {t!r}", {"template": t})


ALL_BUT_PAGING_VARIANTS = [f for f in FEATURES if f not in ("paged_scalar", "paged_map", "paged_wrapper", "keyword_rpc")]
CORPUS = [
    {"features": ["custom_lro", "paged_wrapper", "server_stream", "scalars", "uuid4", "routing"], "opts": ["transport=grpc+rest"], "mixins": ["operations"], "ads": False, "rest_async": True},
    {"features": ["scalars"], "opts": ["transport=rest"], "mixins": [], "ads": False, "rest_async": True},
    # every feature of the profile at once (so that no single-feature regression of the test templates can hide), per transport
    {"features": ALL_BUT_PAGING_VARIANTS + ["paged_wrapper"], "opts": ["transport=grpc+rest"], "mixins": ["iam", "locations", "operations"], "ads": False},
    {"features": ALL_BUT_PAGING_VARIANTS + ["paged_scalar", "keyword_rpc"], "opts": ["transport=rest", "rest-numeric-enums"], "mixins": [], "ads": False},
    {"features": ALL_BUT_PAGING_VARIANTS + ["paged_map"], "opts": ["transport=grpc", "metadata"], "mixins": ["operations"], "ads": False},
    {"features": ["custom_lro", "server_stream", "int_path_var", "delete_void", "map_field", "nested", "two_path_vars", "additional_bindings"],
     "opts": ["transport=grpc+rest", "python-gapic-templates=ads-templates", "old-naming"], "mixins": [], "ads": True},
]


def run(ctx):
    ctx.rule = ("conventional profile of DESIGN §8.1: CRUD + custom/LRO + streaming methods, resources, scalar/enum/message/map/repeated/oneof/"
                "optional/reserved-word fields, required query fields, routing, additional bindings, paging variants x option sets (transports, "
                "mixins via service-yaml, numeric enums, add-iam-methods, metadata, ads templates); each case = one generated library whose "
                "emitted tests/unit suite is run with pytest; distinct by (features, options)")
    ctx.assume("excluded shapes E1-E5 of DESIGN §8.2 are not generated; async REST cannot be enabled through options at this commit")
    r = ctx.rng("conventional")
    t2_samples(ctx, r)
    cases = list(CORPUS) + [gen_case(r) for _ in range(ctx.n(8, 160))]
    with ThreadPoolExecutor(max_workers=4) as ex:
        outs = list(ex.map(one, cases))
    for case, out in zip(cases, outs):
        ctx.case({"features": case["features"], "opts": case["opts"], "mixins": case["mixins"], "tests": out.get("total")},
                 distinct_key=["case", json.dumps(case, sort_keys=True)])
        for ft in case["features"]:
            ctx.count("feature", ft)
        ctx.count("transport", case["opts"][0]); ctx.count("mixins", ",".join(case["mixins"]) or "none")
        judge(ctx, case, out)


def search(ctx):
    r = ctx.rng("search")
    cases = [gen_case(r) for _ in range(24)]
    with ThreadPoolExecutor(max_workers=4) as ex:
        outs = list(ex.map(one, cases))
    for case, out in zip(cases, outs):
        judge(ctx, case, out)


def replay(ctx, payload):
    out = one(payload["case"])
    judge(ctx, payload["case"], out)
    for f in ctx.failures:
        print("  failure:", f["key"], "-", f["what"])
    return not ctx.failures


CLAIM = dict(
    text="PARTIAL by nature: `the emitted suite passes` is the agreement of two template families under pytest and is decided by EXECUTION "
         "(pytest on the emitted tests/unit of every generated library of the conventional profile, all option sets that change the surface). "
         "What is logic is proved in Lean 4: the sample requests the emitted tests rely on instantiate their path templates for every "
         "template (sample_matches_template) with fresh consecutive values per wildcard (sample_names_fresh). Tie: T2 of "
         "uri_sample.sample_from_path_fields vs the model and api-core's own path_template.validate on the samples.",
    technique="generate-and-run exploration of the emitted test suite + Lean 4 theorems about the sample-request logic (induction on template tokens)",
    design="7.13 and 8",
    note="No executable model short of re-implementing ~6k lines of templates expresses `the suite passes`; the Lean part covers supporting logic only.",
)
