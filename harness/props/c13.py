"""C13 — the unit-test suite emitted with a library passes against that library (DESIGN §7.13, §8)."""
from __future__ import annotations
import json, os, re, shutil, subprocess, tempfile
from concurrent.futures import ThreadPoolExecutor
import xml.etree.ElementTree as ET
import apigen, genrun
from google.api import field_behavior_pb2

PKG = "acme.lib.v1"
PY = "/venv/bin/python"

FEATURES = ["custom_lro", "server_stream", "bidi_stream", "client_stream", "scalars", "single_enum", "nested", "recursive_optional",
            "map_field", "oneof_flat", "proto3_optional", "reserved_field", "required_scalars_query", "required_message_query",
            "uuid4", "routing", "additional_bindings", "multi_seg_var", "two_path_vars", "int_path_var", "body_star", "paged_wrapper",
            "paged_scalar", "paged_map", "delete_void", "keyword_rpc", "second_service", "resource_second", "repeated_scalars", "toplevel_collection", "no_http_methods",
            # deepening round 2: shapes the mock-value logic treats specially, and layouts
            "tree_map", "wkt_flattened", "any_struct_fields", "nested_enum", "second_file", "put_verb", "lro_empty", "deprecated_method",
            "oneof_message", "enum_late_nonzero",
            # round 10: request and response of DIFFERENT flavour (proto-plus message of the API vs plain pb2 message of a dependency)
            "pb2_response", "pb2_request"]
# NOT drawn at random while the finding is open (the generator raises RecursionError): only replayed from the corpus
FINDING_FEATURES = ["tree_map_first"]


def gen_case(r: apigen.Rng):
    feats = sorted(set(r.sample(FEATURES, r.randint(3, 10))))
    tr = r.pick(["grpc", "rest", "grpc+rest", "grpc+rest"])
    opts = [f"transport={tr}"]
    if r.maybe(0.3): opts.append("rest-numeric-enums")
    if r.maybe(0.2): opts.append("metadata")
    mixins = r.sample(["operations", "iam", "locations"], r.randint(0, 3)) if r.maybe(0.5) else []
    legacy_iam = r.maybe(0.12) and "iam" not in mixins
    if legacy_iam: opts.append("add-iam-methods")
    ads = r.maybe(0.1)
    if ads:
        opts += ["python-gapic-templates=ads-templates", "old-naming"]
        mixins, legacy_iam = [], False
        opts = [o for o in opts if o != "add-iam-methods"]
    # the async-REST experiment (service yaml, publishing settings); it only changes the surface when rest is requested
    rest_async = (not ads) and "rest" in tr and r.maybe(0.3)
    # naming overrides move every emitted module (imports in the emitted tests must follow); lazy-import changes the package __init__
    if not ads and r.maybe(0.2):
        opts += r.sample(["python-gapic-namespace=Acme", "python-gapic-name=libra", "warehouse-package-name=acme-libra"], r.randint(1, 3))
    if not ads and r.maybe(0.1):
        opts.append("lazy-import")
    case = {"features": feats, "opts": opts, "mixins": sorted(mixins), "ads": ads, "rest_async": rest_async}
    # PARTIAL mixins: a mixin declared under `apis` with ANY subset (none, one, several, all) of its RPCs bound in http.rules; the
    # emitted transports carry exactly the bound ones and the emitted tests must mirror that per method
    if mixins and r.maybe(0.65):
        case["mixin_rules"] = {m: sorted(r.sample([n for n, *_ in MIXIN_RULES[m]], r.randint(0, len(MIXIN_RULES[m])))) for m in sorted(mixins)}
    return case


def build(case):
    fs = build_files(case)
    return fs[0] if len(fs) == 1 else fs


def build_files(case):
    F = set(case["features"])
    f = apigen.File("acme/lib/v1/lib.proto", PKG)
    extra_files = []
    genre = f.enum("Genre", ["GENRE_UNSPECIFIED", "FICTION", "POETRY"])
    book = f.msg("Book").resource("lib.example.com/Book", "shelves/{shelf}/books/{book}")
    book.field("name"); book.field("title"); book.field("pages", "int32"); book.field("genre", "enum", type_name=genre)
    book.field("tags", "string", repeated=True)
    if "scalars" in F:
        for i, t in enumerate(["double", "float", "int64", "uint64", "fixed64", "fixed32", "bool", "bytes", "uint32", "sfixed32", "sfixed64", "sint32", "sint64"]):
            book.field(f"f_{t}", t)
    if "repeated_scalars" in F:      # repeated fields of every scalar kind (and of the enum) at the top level of the resource/response message
        for t in ["double", "float", "int64", "uint64", "int32", "fixed64", "fixed32", "bool", "string", "bytes", "uint32", "sfixed32", "sfixed64", "sint32", "sint64"]:
            book.field(f"r_{t}", t, repeated=True)
        book.field("r_genre", "enum", repeated=True, type_name=genre)
    if "single_enum" in F:
        only = f.enum("Only", ["ONLY_UNSPECIFIED"]); book.field("only", "enum", type_name=only)
    if "nested" in F:
        ch = book.nested("Chapter"); ch.field("title"); ch.field("sub", "message", repeated=True, type_name=ch)
        book.field("chapters", "message", repeated=True, type_name=ch)
    if "recursive_optional" in F:
        book.field("sequel", "message", type_name=book)
    if "map_field" in F:
        book.map_field("labels", "string", "string")
    if "oneof_flat" in F:
        book.field("paper", "string", oneof="format"); book.field("ebook_bytes", "int32", oneof="format")
    if "proto3_optional" in F:
        book.field("nick", "string", optional=True)
    if "reserved_field" in F:
        book.field("class", "string")
    g = f.msg("GetBookRequest"); g.field("name", required=True, ref="lib.example.com/Book")
    l = f.msg("ListBooksRequest"); l.field("parent", required=True)
    if "paged_wrapper" in F:
        l.field("max_results", "message", type_name=".google.protobuf.UInt32Value")
    else:
        l.field("page_size", "int32")
    l.field("page_token"); l.field("filter")
    if "required_scalars_query" in F:
        l.field("limit", "int32", required=True); l.field("ratio", "double", required=True); l.field("flag", "bool", required=True)
        l.field("big", "int64", required=True); l.field("kind", "enum", type_name=genre, required=True); l.field("raw", "bytes", required=True)
    if "required_message_query" in F:
        l.field("mask", "message", type_name=".google.protobuf.FieldMask", required=True)
    lr = f.msg("ListBooksResponse")
    if "paged_scalar" in F:
        lr.field("books", "string", repeated=True)
    elif "paged_map" in F:
        lr.map_field("books", "string", "message", vtype_name=book)
    else:
        lr.field("books", "message", repeated=True, type_name=book)
    lr.field("next_page_token")
    c = f.msg("CreateBookRequest"); c.field("parent", required=True); c.field("book", "message", type_name=book, required=True); c.field("book_id")
    if "uuid4" in F:
        c.field("request_id", "string", uuid4=True)
    if "oneof_flat" in F:
        c.field("from_url", "string", oneof="src"); c.field("from_text", "string", oneof="src")
    u = f.msg("UpdateBookRequest"); u.field("book", "message", type_name=book, required=True); u.field("update_mask", "message", type_name=".google.protobuf.FieldMask")
    d = f.msg("DeleteBookRequest"); d.field("name", required=True)
    mv = f.msg("MoveBookRequest"); mv.field("name", required=True); mv.field("other_shelf")
    md = f.msg("MoveMeta"); md.field("progress", "int32")
    st = f.msg("StreamReq"); st.field("name")
    if "int_path_var" in F:
        st.field("num", "int32")
    s = f.service("Library")
    get_uri = "/v1/{name=shelves/*/books/**}" if "multi_seg_var" in F else "/v1/{name=shelves/*/books/*}"
    bindings = [("get", "/v1/{name=archives/*/books/*}", None)] if "additional_bindings" in F else []
    s.method("GetBook", g, book, http=("get", get_uri), sigs=["name"], bindings=bindings,
             routing=[("name", "{shelf=shelves/*}/**"), ("name", None)] if "routing" in F else None)
    s.method("ListBooks", l, lr, http=("get", "/v1/{parent=shelves/*}/books"), sigs=["parent"])
    csig = "parent,from_url,from_text" if "oneof_flat" in F else "parent,book,book_id"
    s.method("CreateBook", c, book, http=("post", "/v1/{parent=shelves/*}/books"), body="*" if "body_star" in F else "book", sigs=[csig])
    s.method("UpdateBook", u, book, http=("patch", "/v1/{book.name=shelves/*/books/*}"), body="book", sigs=["book,update_mask"])
    if "delete_void" in F:
        s.method("DeleteBook", d, ".google.protobuf.Empty", http=("delete", "/v1/{name=shelves/*/books/*}"), sigs=["name"])
    if "custom_lro" in F:
        uri = "/v1/{name=shelves/*/books/*}/to/{other_shelf=shelves/*}" if "two_path_vars" in F else "/v1/{name=shelves/*/books/*}:move"
        s.method("MoveBook", mv, ".google.longrunning.Operation", http=("post", uri), body="*", sigs=["name,other_shelf"], lro=("Book", "MoveMeta"))
    if "server_stream" in F:
        s.method("StreamBooks", st, book, http=("get", "/v1/{name=shelves/*}/n/{num}:stream" if "int_path_var" in F else "/v1/{name=shelves/*}:stream"), ss=True)
    if "bidi_stream" in F:
        s.method("Chat", st, book, cs=True, ss=True)
    if "client_stream" in F:
        s.method("Upload", st, book, cs=True)
    if "keyword_rpc" in F:
        s.method("Import", g, book, http=("get", "/v1/{name=shelves/*/books/*}:import"))
    if "resource_second" in F:
        shelf = f.msg("Shelf").resource("lib.example.com/Shelf", "shelves/{shelf}"); shelf.field("name")
        gs = f.msg("GetShelfRequest"); gs.field("name", required=True, ref="lib.example.com/Shelf")
        s.method("GetShelf", gs, shelf, http=("get", "/v1/{name=shelves/*}"), sigs=["name"])
    if "toplevel_collection" in F:
        # top-level collections: a paged List, a Get-by-query and a Create whose URIs have NO path variable (no implicit routing header)
        shelf2 = f.msg("Rack").resource("lib.example.com/Rack", "racks/{rack}"); shelf2.field("name"); shelf2.field("size", "int32")
        lsr = f.msg("ListRacksRequest"); lsr.field("page_size", "int32"); lsr.field("page_token"); lsr.field("filter")
        lsp = f.msg("ListRacksResponse"); lsp.field("racks", "message", repeated=True, type_name=shelf2); lsp.field("next_page_token")
        s.method("ListRacks", lsr, lsp, http=("get", "/v1/racks"))
        crr = f.msg("CreateRackRequest"); crr.field("rack", "message", type_name=shelf2, required=True)
        s.method("CreateRack", crr, shelf2, http=("post", "/v1/racks"), body="rack", sigs=["rack"])
    if "no_http_methods" in F:
        # gRPC-only methods (no google.api.http): unary and paged
        pq = f.msg("PingRequest"); pq.field("note")
        s.method("Ping", pq, pq)
        lpr = f.msg("ListPingsRequest"); lpr.field("page_size", "int32"); lpr.field("page_token")
        lpp = f.msg("ListPingsResponse"); lpp.field("pings", "string", repeated=True); lpp.field("next_page_token")
        s.method("ListPings", lpr, lpp)
    if "second_service" in F:
        s2 = f.service("Catalog")
        s2.method("GetBook", g, book, http=("get", "/v1/catalog/{name=shelves/*/books/*}"), sigs=["name"])
    if "tree_map" in F or "tree_map_first" in F:
        # a tree resource: map<string, Node> back to the message.  With the map as FIRST field `Field.mock_value` of the flattened
        # `node` never ends (finding generation:RecursionError@mock_value:map-value-cycle-in-flattened-field)
        node = f.msg("Node").resource("lib.example.com/Node", "nodes/{node}")
        if "tree_map_first" in F:
            node.map_field("children", "string", "message", vtype_name=node); node.field("name")
        else:
            node.field("name"); node.map_field("children", "string", "message", vtype_name=node)
        node.field("parent_node", "message", type_name=node)
        cn = f.msg("CreateNodeRequest"); cn.field("parent", required=True); cn.field("node", "message", type_name=node, required=True)
        gn = f.msg("GetNodeRequest"); gn.field("name", required=True)
        s.method("GetNode", gn, node, http=("get", "/v1/{name=nodes/*}"), sigs=["name"])
        s.method("CreateNode", cn, node, http=("post", "/v1/{parent=nodes/*}/nodes"), body="node", sigs=["parent,node"])
    if "wkt_flattened" in F:
        # flattened well-known types: the emitted flattened tests have a branch per kind (Timestamp / Duration / wrappers)
        rn = f.msg("RenewBookRequest"); rn.field("name", required=True)
        rn.field("until", "message", type_name=".google.protobuf.Timestamp"); rn.field("grace", "message", type_name=".google.protobuf.Duration")
        rn.field("copies", "message", type_name=".google.protobuf.UInt32Value"); rn.field("mask", "message", type_name=".google.protobuf.FieldMask")
        s.method("RenewBook", rn, book, http=("post", "/v1/{name=shelves/*/books/*}:renew"), body="*", sigs=["name,until,grace", "name,mask"])
    if "any_struct_fields" in F:
        book.field("payload", "message", type_name=".google.protobuf.Any"); book.field("extras", "message", type_name=".google.protobuf.Struct")
        book.field("created", "message", type_name=".google.protobuf.Timestamp"); book.field("attachments", "message", repeated=True, type_name=".google.protobuf.Any")
    if "nested_enum" in F:
        st_e = book.nested_enum("State", ["STATE_UNSPECIFIED", "ON_SHELF", "LENT"]); book.field("state", "enum", type_name=st_e)
        book.field("past_states", "enum", repeated=True, type_name=st_e)
    if "enum_late_nonzero" in F:
        # aliased zero first, first non-zero value late (a NEGATIVE number would make the types module un-importable: proto-plus
        # sorts the values and protobuf wants 0 first — a C01/C02 matter, kept out of this profile)
        late = f.enum("Late", [("LATE_UNSPECIFIED", 0), ("ALSO_ZERO", 0), ("TEN", 10), ("DIX", 10)]); late.pb.options.allow_alias = True
        book.field("late", "enum", type_name=late)
    if "oneof_message" in F:
        cov = f.msg("Cover"); cov.field("material"); cov.field("thickness", "float")
        book.field("hard", "message", type_name=cov, oneof="binding"); book.field("soft", "message", type_name=cov, oneof="binding")
    if "put_verb" in F:
        rp = f.msg("ReplaceBookRequest"); rp.field("book", "message", type_name=book, required=True)
        s.method("ReplaceBook", rp, book, http=("put", "/v1/{book.name=shelves/*/books/*}"), body="book", sigs=["book"])
    if "lro_empty" in F:
        pg = f.msg("PurgeBooksRequest"); pg.field("parent", required=True); pg.field("force", "bool")
        s.method("PurgeBooks", pg, ".google.longrunning.Operation", http=("post", "/v1/{parent=shelves/*}/books:purge"), body="*",
                 sigs=["parent"], lro=("google.protobuf.Empty", "MoveMeta"))
    if "deprecated_method" in F:
        s.method("OldGetBook", g, book, http=("get", "/v1/old/{name=shelves/*/books/*}"), sigs=["name"], deprecated=True)
    if "pb2_response" in F:
        # API-owned request with REQUIRED fields, response = a dependency's plain protobuf message (not Empty, not an LRO): the REST
        # transport and every emitted REST test decide `.pb()` unwrapping per message, request and response separately
        f.dep("google/iam/v1/policy.proto", "google/rpc/status.proto")
        gp = f.msg("GetBookPolicyRequest"); gp.field("name", required=True); gp.field("version", "int32", required=True)
        s.method("GetBookPolicy", gp, ".google.iam.v1.Policy", http=("get", "/v1/{name=shelves/*/books/*}:policy"), sigs=["name"])
        xp = f.msg("ExportBookRequest"); xp.field("name", required=True); xp.field("format", required=True); xp.field("pretty", "bool")
        s.method("ExportBook", xp, ".google.protobuf.Struct", http=("get", "/v1/{name=shelves/*/books/*}:export"), sigs=["name,format"])
        tp = f.msg("TouchBookRequest"); tp.field("name", required=True); tp.field("reason", required=True)
        s.method("TouchBook", tp, ".google.protobuf.Timestamp", http=("post", "/v1/{name=shelves/*/books/*}:touch"), body="*", sigs=["name"])
        kp = f.msg("CheckBookRequest"); kp.field("parent", required=True); kp.field("book", "message", type_name=book, required=True)
        s.method("CheckBook", kp, ".google.rpc.Status", http=("post", "/v1/{parent=shelves/*}/books:check"), body="book", sigs=["parent,book"])
    if "pb2_request" in F:
        # the reverse: the request is a dependency's pb2 message (its own REQUIRED annotations), the response is API-owned; the API
        # declares GetIamPolicy itself when nothing else provides IAM methods
        f.dep("google/iam/v1/policy.proto", "google/iam/v1/iam_policy.proto")
        iam_free = "iam" not in case.get("mixins", []) and "add-iam-methods" not in case.get("opts", [])
        # (the ads templates used to emit invalid Python for a FLATTENED pb2 request: repaired by e34ff2c, the combination is generated again)
        flat = True
        s.method("GetIamPolicy" if iam_free else "LookupBook", ".google.iam.v1.GetIamPolicyRequest", book,
                 http=("get", "/v1/{resource=shelves/*/books/*}:lookup"), sigs=["resource"] if flat else [])
        s.method("AuditBook", ".google.iam.v1.TestIamPermissionsRequest", book, http=("post", "/v1/{resource=shelves/*/books/*}:audit"), body="*",
                 sigs=["resource,permissions"] if flat else [])
        s.method("ReadPolicy", ".google.iam.v1.GetIamPolicyRequest", ".google.iam.v1.Policy", http=("post", "/v1/{resource=shelves/*}:readPolicy"), body="*")
    if "second_file" in F:
        # a second proto file of the same package holding messages the service file uses (cross-file types, two types modules)
        f2 = apigen.File("acme/lib/v1/common.proto", PKG)
        pub = f2.msg("Publisher"); pub.field("name"); pub.field("country"); pub.field("founded", "int32")
        era = f2.enum("Era", ["ERA_UNSPECIFIED", "MODERN"])
        f.dep("acme/lib/v1/common.proto")
        book.field("publisher", "message", type_name=pub); book.field("era", "enum", type_name=era)
        sp = f.msg("SetPublisherRequest"); sp.field("name", required=True); sp.field("publisher", "message", type_name=pub, required=True)
        s.method("SetPublisher", sp, book, http=("post", "/v1/{name=shelves/*/books/*}:setPublisher"), body="publisher", sigs=["name,publisher"])
        extra_files.append(f2)
    return extra_files + [f]


MIXIN_API = {"operations": "google.longrunning.Operations", "iam": "google.iam.v1.IAMPolicy", "locations": "google.cloud.location.Locations"}
MIXIN_RULES = {
    "operations": [("GetOperation", "get", "/v1/{name=operations/*}", None), ("ListOperations", "get", "/v1/{name=operations}", None),
                   ("CancelOperation", "post", "/v1/{name=operations/*}:cancel", "*"), ("DeleteOperation", "delete", "/v1/{name=operations/*}", None)],
    "iam": [("GetIamPolicy", "post", "/v1/{resource=shelves/*}:getIamPolicy", "*"), ("SetIamPolicy", "post", "/v1/{resource=shelves/*}:setIamPolicy", "*"),
            ("TestIamPermissions", "post", "/v1/{resource=shelves/*}:testIamPermissions", "*")],
    "locations": [("GetLocation", "get", "/v1/{name=projects/*/locations/*}", None), ("ListLocations", "get", "/v1/{name=projects/*}/locations", None)],
}


def mixin_rule_names(case, mixin):
    """the RPCs of a declared mixin that get an `http.rules` entry: `case["mixin_rules"][mixin]` (ANY subset, incl. none), default all"""
    chosen = (case.get("mixin_rules") or {}).get(mixin)
    return [n for n, *_ in MIXIN_RULES[mixin]] if chosen is None else list(chosen)


def service_yaml(case):
    apis, rules = ["acme.lib.v1.Library"], []
    for mixin in ("operations", "iam", "locations"):
        if mixin in case["mixins"]:
            apis.append(MIXIN_API[mixin])
            keep = set(mixin_rule_names(case, mixin))
            rules += [(f"{MIXIN_API[mixin]}.{n}", verb, uri, body) for n, verb, uri, body in MIXIN_RULES[mixin] if n in keep]
    y = "type: google.api.Service\nconfig_version: 3\nname: lib.example.com\ntitle: Library API\napis:\n"
    y += "".join(f"- name: {a}\n" for a in apis)
    if rules:
        y += "http:\n  rules:\n"
        for sel, verb, uri, body in rules:
            y += f"  - selector: {sel}\n    {verb}: '{uri}'\n" + (f"    body: '{body}'\n" if body else "")
    return y


def run_pytest(root, workers=4, timeout=900):
    junit = os.path.join(root, "junit.xml")
    p = subprocess.run([PY, "-m", "pytest", "-q", "-p", "no:cacheprovider", "tests/unit", "-n", str(workers), "--no-header",
                        f"--junitxml={junit}", "-o", "junit_family=xunit1"], cwd=root, capture_output=True, text=True, timeout=timeout,
                       env={**os.environ, "PYTHONDONTWRITEBYTECODE": "1"})
    total, bad = 0, []
    try:
        for tc in ET.parse(junit).getroot().iter("testcase"):
            total += 1
            for ch in tc:
                if ch.tag in ("failure", "error"):
                    bad.append((tc.get("name"), (ch.get("message") or "")[:160]))
    except Exception:
        bad.append(("<collection>", (p.stdout + p.stderr)[-400:]))
    return p.returncode, total, bad


def one(case):
    files = build_files(case)
    ydir = None
    opts = list(case["opts"])
    try:
        if case["mixins"] or case.get("rest_async"):
            ydir = tempfile.mkdtemp(prefix="gapicverif_yaml_", dir=genrun.SCRATCH)
            yp = os.path.join(ydir, "service.yaml")
            ytext = service_yaml(case)
            if case.get("rest_async"):
                ytext += ("publishing:\n  library_settings:\n  - version: %s\n    python_settings:\n      experimental_features:\n"
                          "        rest_async_io_enabled: true\n" % PKG)
            open(yp, "w").write(ytext)
            opts.append("service-yaml=" + yp)
        req = apigen.request(files, ",".join(opts))
        res, err = genrun.try_generate(req)
        if err:
            out = {"stage": "generation", "err": err}
            if err[0].startswith("RecursionError@"):
                hits = map_value_cycle_flattened(files)
                out["mv_cycle"] = probe_flattened_mock_value(req, hits) if hits else []
            return out
        root = genrun.materialise(res)
        try:
            rc, total, bad = run_pytest(root)
            return {"stage": "pytest", "rc": rc, "total": total, "bad": bad}
        finally:
            genrun.cleanup(root)
    finally:
        if ydir:
            shutil.rmtree(ydir, ignore_errors=True)


def norm_test(name):
    return re.sub(r"\[.*$", "", name or "")


def _all_msgs(files):
    out = {}
    def walk(prefix, m):
        full = f"{prefix}.{m.name}"
        out["." + full] = m
        for n in m.nested_type:
            walk(full, n)
    for f in files:
        pb = f.pb if hasattr(f, "pb") else f
        for m in pb.message_type:
            walk(pb.package, m)
    return out


def _mock_value_diverges(msgs, type_name, in_progress=frozenset()):
    """TRIGGER of finding `generation:RecursionError@mock_value:map-value-cycle-in-flattened-field`, decided from the descriptors alone:
    does `Field.mock_value` of a field of message type `type_name` re-enter the `mock_value` of a map entry's value field that is still
    being computed?  It follows the code: walk the chain of FIRST fields (cut where a message repeats); a map field ends the chain and
    asks for the fresh `mock_value` of its entry's value field."""
    seen, cur = set(), type_name
    while cur in msgs and cur not in seen:
        seen.add(cur)
        m = msgs[cur]
        if not m.field:
            return False
        f = m.field[0]
        if f.type != 11:
            return False
        entry = msgs.get(f.type_name)
        if entry is not None and entry.options.map_entry and f.label == 3:
            v = [x for x in entry.field if x.name == "value"]
            if not v or v[0].type != 11:
                return False
            if f.type_name in in_progress:
                return True
            return _mock_value_diverges(msgs, v[0].type_name, in_progress | {f.type_name})
        cur = f.type_name
    return False


def map_value_cycle_flattened(files):
    """[(method, signature entry)] whose flattened field has the trigger shape (message-typed, mock_value re-enters a map value)"""
    from google.api import client_pb2
    msgs, hits = _all_msgs(files), []
    for f in files:
        pb = f.pb if hasattr(f, "pb") else f
        for svc in pb.service:
            for meth in svc.method:
                for sig in meth.options.Extensions[client_pb2.method_signature]:
                    for ent in filter(None, sig.split(",")):
                        cur, fld = msgs.get(meth.input_type), None
                        for seg in ent.strip().split("."):
                            fld = next((x for x in cur.field if x.name == seg), None) if cur is not None else None
                            cur = msgs.get(fld.type_name) if fld is not None and fld.type == 11 else None
                        if fld is not None and fld.type == 11 and _mock_value_diverges(msgs, fld.type_name):
                            hits.append((meth.name, ent.strip()))
    return hits


def probe_flattened_mock_value(req, hits):
    """SITE of the same finding, observed directly: on the loaded schema `.mock_value` of exactly those flattened fields raises
    RecursionError (while their `mock_value_original_type` has a value)"""
    api, _ = genrun.build_api(req)
    confirmed = []
    for svc in api.services.values():
        for meth in svc.methods.values():
            for name, ent in hits:
                if meth.name != name:
                    continue
                fl = meth.input.get_field(*ent.split("."))
                try:
                    fl.mock_value
                except RecursionError:
                    fl.mock_value_original_type
                    confirmed.append(f"{name}.{ent}")
    return sorted(set(confirmed))


def pb2_request_http_methods(files):
    """snake-case names of the methods with an http rule whose REQUEST is a message of another package (a plain pb2 class, no
    proto-plus wrapper) — the trigger of finding `ads-rest-pb2-request-positional`, decided from the descriptors"""
    from google.api import annotations_pb2
    from gapic.utils import to_snake_case
    out = set()
    for f in files:
        pb = f.pb if hasattr(f, "pb") else f
        for svc in pb.service:
            for m in svc.method:
                rule = m.options.Extensions[annotations_pb2.http]
                if rule.WhichOneof("pattern") and not m.input_type.startswith(f".{pb.package}."):
                    out.add(to_snake_case(m.name))
    return out


ASYNC_REST_NAMEERROR = re.compile(r"^NameError: name '\w+AsyncClient' is not defined")


def judge(ctx, case, out):
    payload = {"case": case}
    if out["stage"] == "generation":
        sig = out["err"][0]
        # known finding only when the INPUT has the recorded trigger (a flattened message field whose `mock_value` re-enters the
        # `mock_value` of a map value: decided from the descriptors), the SITE is the recorded one (`.mock_value` of that very field
        # raises RecursionError on the loaded schema) and the symptom is a RecursionError inside schema/wrappers.py (the innermost
        # frame of a recursion overflow is arbitrary).  Any other RecursionError keeps its own (unlisted) key.
        if sig.startswith("RecursionError@schema/wrappers.py") and out.get("mv_cycle"):
            sig = "RecursionError@mock_value:map-value-cycle-in-flattened-field"
            payload = {**payload, "fields": out["mv_cycle"]}
        ctx.fail("generation:" + sig, f"generator raised {out['err'][0]}: {out['err'][1]}", payload)
        return
    ctx.count("tests_per_library", out["total"] // 50 * 50)
    ctx.notes["emitted_tests_run"] = ctx.notes.get("emitted_tests_run", 0) + out["total"]
    if out["bad"] or out["rc"] != 0:
        bad = list(out["bad"])
        # known finding `async-rest-without-grpc`: trigger = the async-REST experiment with a transport set that has rest and no grpc
        # (default templates); symptom = a `*_rest_asyncio*` test failing with NameError on `<Service>AsyncClient`.  Only THOSE tests
        # are put under the known key; every other failing test of such a library is reported under its own key.
        trig = (case.get("rest_async") and not case.get("ads")
                and any(o.startswith("transport=") and "rest" in o and "grpc" not in o for o in case["opts"]))
        known = [(n, m) for n, m in bad if trig and "rest_asyncio" in (n or "") and ASYNC_REST_NAMEERROR.match(m or "")]
        if known:
            ctx.fail("emitted-tests-fail:async-rest-without-grpc",
                     f"{len(known)} of {out['total']} emitted tests fail with NameError on the AsyncClient, e.g. {known[:2]}",
                     {**payload, "failing": sorted(set(norm_test(n) for n, _ in known))[:20]})
            bad = [x for x in bad if x not in known]
        # known finding `ads-rest-pb2-request-positional`: trigger = ads templates, rest among the transports, a method with an http
        # rule whose request is another package's pb2 message; symptom = THAT method's `test_<m>_rest` / `test_<m>_rest_bad_request`
        # failing with protobuf's "No positional arguments allowed" (the ads test template builds `request_type(request_init)`).
        if case.get("ads") and any(o.startswith("transport=") and "rest" in o for o in case["opts"]):
            trig_tests = {f"test_{m}_rest{sfx}" for m in pb2_request_http_methods(build_files(case)) for sfx in ("", "_bad_request")}
            known_pos = [(n, m) for n, m in bad if norm_test(n) in trig_tests and (m or "").startswith("TypeError: No positional arguments allowed")]
            if known_pos:
                ctx.fail("emitted-tests-fail:ads-rest-pb2-request-positional",
                         f"{len(known_pos)} of {out['total']} emitted tests fail: {known_pos[:2]}",
                         {**payload, "failing": sorted(set(norm_test(n) for n, _ in known_pos))})
                bad = [x for x in bad if x not in known_pos]
                known = known + known_pos
        if bad or (out["rc"] != 0 and not known):
            names = sorted(set(norm_test(n) for n, _ in bad))
            ctx.fail("emitted-tests-fail:" + (names[0] if names else "collection"),
                     f"{len(bad)} of {out['total']} emitted tests fail, e.g. {bad[:2]}", {**payload, "failing": names[:20]})


def t2_samples(ctx, r):
    from gapic.utils import uri_sample
    from google.api_core import path_template
    tmpls = []
    for _ in range(ctx.n(300, 4000)):
        segs = []
        for k in range(r.randint(1, 6)):
            segs.append(r.pick(["*", "*", "**", "shelves", "books", "v1", "a-b", "x.y"]))
        tmpls.append("/".join(segs))
    model = ctx.driver.ask([{"op": "c13.sample", "template": t, "k": 0} for t in tmpls])
    for t, mo in zip(tmpls, model):
        ctx.case(distinct_key=["tmpl", t]); ctx.traces += 1
        impl = uri_sample.sample_from_path_fields([("f", t)])["f"]
        if mo["value"] != impl:
            ctx.disagree("T2:c13.sample_from_path_fields", f"{t!r}: model {mo['value']!r} vs impl {impl!r}", {"template": t})
        # the external meaning of `Matches`: api-core's own validator, with `**` only in last position (its grammar)
        if "**" not in t.split("/")[:-1]:
            if not path_template.validate(t, impl):
                ctx.fail("sample-does-not-match-template", f"sample {impl!r} does not match {t!r}", {"template": t})


# ---------------------------------------------------------------------------------------------------------------------
# T2 of the mock-value / sample-request logic (Model/Mock.lean parts 2-4) against the real schema objects
# ---------------------------------------------------------------------------------------------------------------------
import ast as _ast
from decimal import Decimal as _Decimal

SCALARS = ["double", "float", "int64", "uint64", "int32", "fixed64", "fixed32", "bool", "string", "bytes", "uint32", "sfixed32",
           "sfixed64", "sint32", "sint64"]
WKT = [".google.protobuf.Timestamp", ".google.protobuf.Duration", ".google.protobuf.FieldMask", ".google.protobuf.Any",
       ".google.protobuf.Struct", ".google.protobuf.Value", ".google.protobuf.ListValue", ".google.protobuf.UInt32Value",
       ".google.protobuf.StringValue", ".google.protobuf.BoolValue", ".google.protobuf.Empty", ".google.protobuf.BytesValue",
       ".google.protobuf.DoubleValue"]


def to_model(v):
    """a Python mock value in the JSON shape of `pyValJson` (floats as the exact decimal of their repr)"""
    if v is None or isinstance(v, bool):
        return v
    if isinstance(v, str):
        return {"s": v}
    if isinstance(v, bytes):
        return {"b": list(v)}
    if isinstance(v, int):
        return {"i": v}
    if isinstance(v, float):
        sign, digits, exp = _Decimal(repr(v)).as_tuple()
        n = int("".join(map(str, digits)))
        return {"f": [n, -exp]} if exp <= 0 and not sign else {"f": [n * 10 ** exp, 0]}
    if isinstance(v, dict):
        return {"d": [[k, to_model(x)] for k, x in v.items()]}
    if isinstance(v, (list, tuple)):
        return {"l": [to_model(x) for x in v]}
    raise TypeError(type(v))


def same_val(m, v):
    """model JSON `m` (pyValJson) describes the Python value `v`"""
    if m is None:
        return v is None
    if isinstance(m, bool):
        return isinstance(v, bool) and v == m
    if not isinstance(m, dict):
        return False
    if "s" in m:
        return isinstance(v, str) and v == m["s"]
    if "b" in m:
        return isinstance(v, bytes) and list(v) == m["b"]
    if "i" in m:
        return isinstance(v, int) and not isinstance(v, bool) and v == m["i"]
    if "f" in m:
        n, d = m["f"]
        return isinstance(v, float) and abs(v - n / 10 ** d) <= 1e-12 * max(1.0, abs(v))
    if "d" in m:
        return isinstance(v, dict) and [k for k, _ in m["d"]] == list(v.keys()) and all(same_val(x, v[k]) for k, x in m["d"])
    if "l" in m:
        return isinstance(v, list) and len(v) == len(m["l"]) and all(same_val(a, b) for a, b in zip(m["l"], v))
    return False


def _dotted(node):
    parts = []
    while isinstance(node, _ast.Attribute):
        parts.append(node.attr); node = node.value
    if not isinstance(node, _ast.Name):
        raise ValueError("not a dotted name")
    parts.append(node.id)
    return ".".join(reversed(parts))


def same_expr(m, node):
    """model JSON `m` (mockExprJson) describes the parsed Python expression `node` (the text of `mock_value`)"""
    if m is None:
        return isinstance(node, _ast.Constant) and node.value is None
    if "lit" in m:
        return isinstance(node, _ast.Constant) and node.value is not None and same_val(m["lit"], node.value)
    if "enum" in m:
        ident, name = m["enum"]
        return isinstance(node, _ast.Attribute) and _dotted(node) == f"{ident}.{name}"
    if "ctor" in m:
        ident, sub, arg = m["ctor"]
        return (isinstance(node, _ast.Call) and _dotted(node.func) == ident and not node.args and len(node.keywords) == 1
                and node.keywords[0].arg == sub and same_expr(arg, node.keywords[0].value))
    if "map" in m:
        return isinstance(node, _ast.Dict) and len(node.keys) == 1 and same_expr(m["map"][0], node.keys[0]) and same_expr(m["map"][1], node.values[0])
    if "list" in m:
        return isinstance(node, _ast.List) and len(node.elts) == 1 and same_expr(m["list"], node.elts[0])
    return False


class EnvBuilder:
    """the OBJECT graph of MessageType / Field objects reachable from the messages handed in, as the model's `Env`: one entry per
    MessageType object (the loader keeps several copies of a recursive message), `cls` = the proto message it describes,
    `fid` = the identity of the Field object"""
    def __init__(self):
        self.ids, self.defs, self.cls, self.fids, self.keep = {}, [], {}, {}, []

    def msg(self, m):
        if id(m) in self.ids:
            return self.ids[id(m)]
        self.keep.append(m)
        i = self.ids[id(m)] = len(self.defs)
        adr = m.meta.address
        d = {"ident": str(m.ident), "cls": self.cls.setdefault(adr.proto, len(self.cls)), "map": bool(m.map),
             "any": adr.name == "Any" and tuple(adr.package) == ("google", "protobuf"), "fields": []}
        self.defs.append(d)
        if len(self.defs) > 4000:
            raise OverflowError("object graph too large")
        d["fields"] = [self.field(f) for f in m.fields.values()]
        return i

    def field(self, f):
        self.keep.append(f)
        if f.message:
            ty = ["msg", self.msg(f.message)]
        elif f.enum:
            ty = ["enum", str(f.type.ident), [[v.name, v.number] for v in f.type.values]]
        else:
            ty = ["prim", f.type.python_type.__name__]
        return {"name": f.name, "fid": self.fids.setdefault(id(f), len(self.fids)), "repeated": bool(f.repeated), "ty": ty}


def zoo_file(r: apigen.Rng):
    """a message zoo: every scalar kind, odd enums, nesting, recursion (direct, mutual, through repeated fields and through map
    values — the last also as FIRST field, which the real `mock_value` cannot finish), well-known types, `type_url` names"""
    f = apigen.File("acme/zoo/v1/zoo.proto", "acme.zoo.v1")
    enums = [f.enum("Plain", ["PLAIN_UNSPECIFIED", "ONE", "TWO"]), f.enum("Lone", ["LONE_UNSPECIFIED"]),
             f.enum("Late", [("LATE_UNSPECIFIED", 0), ("ALIAS_ZERO", 0), ("NEG", -3), ("TEN", 10)]) if r.maybe(0.5) else f.enum("Late", [("LATE_UNSPECIFIED", 0), ("BIG", 2147483647)])]
    if enums[2].pb.value[1].number == 0:
        enums[2].pb.options.allow_alias = True
    n = r.randint(2, 7)
    msgs = [f.msg(f"M{i}") for i in range(n)]
    names = ["name", "title", "type_url", "value", "x", "a1", "long_field_name_with_parts", "zz", "id", "k9", "data", "count", "ratio", "flag", "kind", "child", "items", "meta"]
    for i, m in enumerate(msgs):
        used = set()
        for j in range(r.randint(0 if r.maybe(0.1) else 1, 6)):
            nm = r.pick([x for x in names if x not in used] or [f"f{j}"]); used.add(nm)
            roll = r.random()
            rep = r.maybe(0.3)
            if roll < 0.4:
                m.field(nm, r.pick(SCALARS), repeated=rep)
            elif roll < 0.5:
                m.field(nm, "enum", type_name=r.pick(enums), repeated=rep)
            elif roll < 0.75:
                m.field(nm, "message", type_name=r.pick(msgs), repeated=rep)       # includes self and forward/backward references
            elif roll < 0.85:
                m.field(nm, "message", type_name=r.pick(WKT), repeated=rep)
            elif roll < 0.93:
                vt = r.pick(["string", "int32", "bytes", "double", "bool"])
                m.map_field(nm, r.pick(["string", "int32", "int64", "bool"]), vt)
            else:
                m.map_field(nm, "string", "message", vtype_name=r.pick(msgs))       # map to a message: cyclic when it leads back here
    return f


def _mock_text(f):
    try:
        return ("ok", f.mock_value)
    except RecursionError:
        return ("error", "fuel")


def t2_mock_fields(ctx, api, label, payload):
    """mock_value_original_type / mock_value / primitive_mock / Field.type of every field of every message of the API"""
    eb = EnvBuilder()
    roots, fobjs = [], []
    for m in api.messages.values():
        i = eb.msg(m)
        for f, fj in zip(m.fields.values(), eb.defs[i]["fields"]):
            roots.append(fj); fobjs.append(f)
    if not roots:
        return
    ops = [{"op": "c13.mock_orig", "env": eb.defs, "fields": roots}, {"op": "c13.mock_value", "env": eb.defs, "fields": roots, "depth": 40}]
    prim = [(f, k) for f in fobjs if f.is_primitive for k in (0, 1, 2)]
    ops += [{"op": "c13.primitive", "py": f.type.python_type.__name__, "name": f.name, "suffix": k} for f, k in prim]
    ops += [{"op": "c13.proto_type", "type": f.field_pb.type} for f in fobjs]
    res = ctx.driver.ask(ops)
    origs, exprs = res[0]["values"], res[1]["values"]
    prim_res, type_res = res[2:2 + len(prim)], res[2 + len(prim):]
    for f, fj, mo, me in zip(fobjs, roots, origs, exprs):
        ctx.case(distinct_key=["mock", json.dumps(fj, sort_keys=True), len(eb.defs)]); ctx.traces += 1
        where = {**payload, "message": str(f.meta.address), "field": f.name}
        impl = f.mock_value_original_type
        if "ok" not in mo or not same_val(mo["ok"], impl):
            ctx.disagree("T2:c13.mock_value_original_type", f"{label} {f.name}: model {mo} vs impl {impl!r}", where)
        elif not mo["fits"]:
            ctx.disagree("T2:c13.mock_original_fits", f"{label} {f.name}: the model's own typing predicate rejects {impl!r}", where)
        ctx.count("mock_kind", "message" if f.message else "enum" if f.enum else f.type.python_type.__name__)
        if "ok" in mo and not mo["fits_strict"]:
            ctx.count("mock_quirk", "empty dict for a repeated message field")
        kind, text = _mock_text(f)
        if kind == "error":
            ctx.count("mock_value", "RecursionError")
            if me.get("error") != "fuel":
                ctx.disagree("T2:c13.mock_value", f"{label} {f.name}: impl RecursionError vs model {me}", where)
            else:
                # the real generator cannot finish `mock_value` of this field: a failure of the mock-value logic itself
                ctx.notes["mock_value_recursion_fields"] = ctx.notes.get("mock_value_recursion_fields", 0) + 1
        else:
            try:
                ok = "ok" in me and same_expr(me["ok"], _ast.parse(text, mode="eval").body)
            except (SyntaxError, ValueError):
                ok = False
            if not ok:
                ctx.disagree("T2:c13.mock_value", f"{label} {f.name}: model {me} vs impl {text!r}", where)
    for (f, k), mr in zip(prim, prim_res):
        ctx.traces += 1
        if not same_val(mr["value"], f.primitive_mock(suffix=k)):
            ctx.disagree("T2:c13.primitive_mock", f"{f.name} suffix {k}: model {mr} vs impl {f.primitive_mock(suffix=k)!r}", payload)
    for f, tr in zip(fobjs, type_res):
        exp = None if (f.message or f.enum) else f.type.python_type.__name__
        if tr["py"] != exp:
            ctx.disagree("T2:c13.field_type", f"{f.name} proto type {f.field_pb.type}: model {tr} vs impl {exp}", payload)
    # merged_mock_value on the message-typed fields
    mm = [(f, other) for f in fobjs if f.message and not f.repeated for other in (None, {}, {"name": "x/y"}, {f.name: 1, "zz_new": {"a": 1}})][:40]
    if mm:
        mres = ctx.driver.ask([{"op": "c13.merged", "mock": to_model(f.mock_value_original_type), "other": to_model(o)} for f, o in mm])
        for (f, o), mr in zip(mm, mres):
            ctx.traces += 1
            if not same_val(mr["value"], f.merged_mock_value(o)):
                ctx.disagree("T2:c13.merged_mock_value", f"{f.name} other={o!r}: model {mr} vs impl {f.merged_mock_value(o)!r}", payload)


def _flatten(d, pre=""):
    out = []
    for k, v in d.items():
        if isinstance(v, dict) and v:
            out += _flatten(v, pre + k + ".")
        else:
            out.append((pre + k, v))
    return out


def _nest(assigns):
    from gapic.utils import uri_sample
    d = {}
    for path, v in assigns:
        uri_sample.add_field(d, path, v)
    return d


def _prefix_free(paths):
    return not any(a != b and (b + ".").startswith(a + ".") for a in paths for b in paths)


def t2_sample_requests(ctx, api, label, payload, oracle=True):
    """HttpRule.path_fields / sample_request, RoutingParameter.sample_request and MixinHttpRule.sample_request of every method,
    and the ORACLE: the sample request of a rule transcodes under that very rule (api-core's own transcode + validate)"""
    from google.api_core import path_template
    jobs = []
    for svc in api.services.values():
        for meth in svc.methods.values():
            for idx, h in enumerate(meth.http_options):
                pf = h.path_fields(meth)
                vars_ = [{"str": bool(fl.is_primitive and fl.type.python_type is str), "other": to_model(None if (fl.is_primitive and fl.type.python_type is str) else fl.mock_value_original_type)}
                         for fl, _, _ in pf]
                jobs.append(("http", meth, idx, h, pf, {"op": "c13.http_sample", "uri": h.uri, "vars": vars_}))
            if meth.routing_rule:
                for rp in meth.routing_rule.routing_parameters:
                    jobs.append(("routing", meth, 0, rp, None, {"op": "c13.routing_sample", "template": rp.path_template}))
    for name, hs in (api.mixin_http_options or {}).items():
        for idx, h in enumerate(hs):
            jobs.append(("mixin", name, idx, h, None, {"op": "c13.mixin_sample", "uri": h.uri, "body": h.body}))
    res = ctx.driver.ask([j[-1] for j in jobs])
    for (kind, meth, idx, obj, pf, _op), mo in zip(jobs, res):
        ctx.traces += 1
        mname = meth if isinstance(meth, str) else meth.name
        where = {**payload, "method": mname, "binding": idx}
        ctx.case(distinct_key=["sample", kind, _op.get("uri") or _op.get("template"), json.dumps(_op.get("vars"), sort_keys=True)])
        if kind == "http":
            impl = obj.sample_request(meth)
            mvars = [(p[1], p[2]) for p in mo["pieces"] if p[0] == "var"]
            if "mismatch" in mo or mvars != [(path, tmpl) for _, path, tmpl in pf]:
                ctx.disagree("T2:c13.path_fields", f"{label} {mname} {obj.uri!r}: model {mvars} vs impl {[(b, c) for _, b, c in pf]}", where)
                continue
            paths = [path for _, path, _ in pf]
            if not _prefix_free(paths):
                ctx.assume("two path variables of one rule where one dotted path is a prefix of the other are not compared (add_field is modelled on leaves)")
                continue
            got = _nest([(k, _unmodel(v)) for k, v in mo["assigns"]])
            if not _same_tree(got, impl):
                ctx.disagree("T2:c13.http_sample_request", f"{label} {mname} {obj.uri!r}: model {got} vs impl {impl}", where)
            ctx.count("sample_request_vars", len(pf))
            if oracle and idx == 0 and len(set(paths)) == len(paths):
                # the templates use http_options[0].sample_request: it must select and instantiate that very binding
                leaves = dict(_flatten(impl))
                try:
                    kwargs = json.loads(json.dumps(impl, default=str))
                    if obj.body and obj.body != "*":
                        kwargs.setdefault(obj.body, {})        # the emitted tests always set the body field (merged mock)
                    out = path_template.transcode([{"method": obj.method, "uri": obj.uri, **({"body": obj.body} if obj.body else {})}], **kwargs)
                    good = path_template.validate(obj.uri, out["uri"])
                    why = f"transcoded uri {out['uri']!r} does not instantiate the rule"
                except ValueError as e:
                    good, why = False, f"transcode finds no binding: {e}"
                if not good:
                    ctx.fail("sample-request-does-not-transcode:" + ("nonstring" if any(not isinstance(v, str) for v in leaves.values()) else "string"),
                             f"{mname}: sample request {impl} of rule {obj.uri!r}: {why}", {**where, "uri": obj.uri})
                url = mo.get("url")
                if all(isinstance(v, str) for v in leaves.values()) and url is not None and good and url != out["uri"]:
                    ctx.disagree("T2:c13.fill", f"{mname}: model url {url!r} vs api-core {out['uri']!r}", where)
        elif kind == "routing":
            impl = json.loads(obj.sample_request)
            leaf = _flatten(impl)
            if mo["value"] is None or len(leaf) != 1 or leaf[0] != (obj.field, mo["value"]):
                ctx.disagree("T2:c13.routing_sample_request", f"{label} {mname} {obj.path_template!r}: model {mo} vs impl {impl}", where)
            elif obj.path_template:
                ctx.count("routing_sample_matches_its_regex", bool(obj.to_regex().match(mo["value"])))
        else:
            impl = obj.sample_request
            got = _nest([(k, _unmodel(v)) for k, v in mo["assigns"]])
            if got != impl:
                ctx.disagree("T2:c13.mixin_sample_request", f"{label} {mname} {obj.uri!r}: model {got} vs impl {impl}", where)


def _unmodel(m):
    """model JSON → a Python value (floats as (n, d) pairs, compared by `_same_tree`)"""
    if m is None or isinstance(m, bool):
        return m
    if "s" in m: return m["s"]
    if "b" in m: return bytes(m["b"])
    if "i" in m: return m["i"]
    if "f" in m: return ("dec", m["f"][0], m["f"][1])
    if "d" in m: return {k: _unmodel(v) for k, v in m["d"]}
    if "l" in m: return [_unmodel(v) for v in m["l"]]
    raise ValueError(m)


def _same_tree(a, b):
    if isinstance(a, tuple) and a and a[0] == "dec":
        return isinstance(b, float) and abs(b - a[1] / 10 ** a[2]) <= 1e-12 * max(1.0, abs(b))
    if isinstance(a, dict):
        return isinstance(b, dict) and list(a) == list(b) and all(_same_tree(a[k], b[k]) for k in a)
    if isinstance(a, list):
        return isinstance(b, list) and len(a) == len(b) and all(_same_tree(x, y) for x, y in zip(a, b))
    return type(a) is type(b) and a == b


URI_SHAPES = ["/v1/{name=shelves/*/books/*}", "/v1/{name=shelves/*/books/**}", "/v1/{name}", "/v1/shelves/{name}/x/{other_shelf=racks/*}:go",
              "/v1/{name=**}", "/v1/{name=shelves/*}/n/{num}", "/v1/n/{num}/f/{flag}/{name=*}", "/v1/{book.name=shelves/*/books/*}",
              "/v1/{book.name=shelves/*}/g/{book.genre}/p/{book.pages}", "/v1/{name=a/*/b/*/c/*}/{other_shelf=**}", "/v1/static",
              "/v1/{name=shelves/*}/books/{book.title}:verb", "/v2/{ratio}/{name}", "/v1/{name=projects/*/locations/*/shelves/*}/books"]


def sample_api(r: apigen.Rng):
    """methods whose rules use every variable form (bare, templated, `**`, dotted, several per rule, non-string kinds), plus
    explicit routing parameters of every form"""
    f = apigen.File("acme/lib/v1/lib.proto", PKG)
    genre = f.enum("Genre", ["GENRE_UNSPECIFIED", "FICTION"])
    book = f.msg("Book"); book.field("name"); book.field("title"); book.field("pages", "int32"); book.field("genre", "enum", type_name=genre)
    s = f.service("Library")
    for i, uri in enumerate(r.sample(URI_SHAPES, r.randint(3, 8))):
        q = f.msg(f"Op{i}Request"); q.field("name"); q.field("other_shelf"); q.field("num", r.pick(["int32", "int64", "uint32"]))
        q.field("flag", "bool"); q.field("ratio", r.pick(["double", "float"])); q.field("book", "message", type_name=book); q.field("note")
        verb = r.pick(["get", "post", "put", "patch", "delete"])
        routing = None
        if r.maybe(0.5):
            routing = [r.pick([("name", "{shelf=shelves/*}/**"), ("name", None), ("name", "{whole=**}"), ("other_shelf", "racks/{rack=*}"),
                               ("book.name", "{shelf_id=shelves/*}/books/*"), ("name", "projects/*/{loc=locations/*}/**"), ("note", "{note=*}")])
                       for _ in range(r.randint(1, 3))]
        s.method(f"Op{i}", q, book, http=(verb, uri), body=("*" if verb in ("post", "put", "patch") and r.maybe(0.6) else None), routing=routing)
    return f


def t2_model(ctx, r):
    n_zoo, n_samp = ctx.n(25, 600), ctx.n(12, 300)
    for i in range(n_zoo):
        f = zoo_file(r)
        api, _ = genrun.build_api(apigen.request([f], "transport=grpc+rest"))
        t2_mock_fields(ctx, api, f"zoo#{i}", {"t2": "zoo", "index": i, "seed": ctx.seed})
    for i in range(n_samp):
        f = sample_api(r)
        api, _ = genrun.build_api(apigen.request([f], "transport=grpc+rest"))
        t2_sample_requests(ctx, api, f"sample#{i}", {"t2": "sample_api", "index": i, "seed": ctx.seed})


def t2_profile(ctx, case):
    """the same correspondences on an API of the conventional profile (incl. the mixin rules of its service yaml)"""
    files = build_files(case)
    ydir = None
    opts = [o for o in case["opts"]]
    try:
        if case["mixins"]:
            ydir = tempfile.mkdtemp(prefix="gapicverif_yaml_", dir=genrun.SCRATCH)
            yp = os.path.join(ydir, "service.yaml"); open(yp, "w").write(service_yaml(case)); opts.append("service-yaml=" + yp)
        api, _ = genrun.build_api(apigen.request(files, ",".join(opts)))
        t2_mock_fields(ctx, api, "profile", {"case": case})
        t2_sample_requests(ctx, api, "profile", {"case": case})
    finally:
        if ydir:
            shutil.rmtree(ydir, ignore_errors=True)


ALL_BUT_PAGING_VARIANTS = [f for f in FEATURES if f not in ("paged_scalar", "paged_map", "paged_wrapper", "keyword_rpc")]
CORPUS = [
    {"features": ["custom_lro", "paged_wrapper", "server_stream", "scalars", "uuid4", "routing"], "opts": ["transport=grpc+rest"], "mixins": ["operations"], "ads": False, "rest_async": True},
    {"features": ["scalars"], "opts": ["transport=rest"], "mixins": [], "ads": False, "rest_async": True},
    # every feature of the profile at once (so that no single-feature regression of the test templates can hide), per transport
    {"features": ALL_BUT_PAGING_VARIANTS + ["paged_wrapper"], "opts": ["transport=grpc+rest"], "mixins": ["iam", "locations", "operations"], "ads": False},
    {"features": ALL_BUT_PAGING_VARIANTS + ["paged_scalar", "keyword_rpc"], "opts": ["transport=rest", "rest-numeric-enums"], "mixins": [], "ads": False},
    {"features": ALL_BUT_PAGING_VARIANTS + ["paged_map"], "opts": ["transport=grpc", "metadata"], "mixins": ["operations"], "ads": False},
    {"features": ["custom_lro", "server_stream", "int_path_var", "delete_void", "map_field", "nested", "two_path_vars", "additional_bindings"],
     "opts": ["transport=grpc+rest", "python-gapic-templates=ads-templates", "old-naming"], "mixins": [], "ads": True},
    # open finding (corpus/C13/recursive_map_first_field.json): `Field.mock_value` of a flattened message whose first field is a map
    # back to the message never ends; replayed on every run
    {"features": ["tree_map_first"], "opts": ["transport=grpc"], "mixins": [], "ads": False},
    # partial mixins (round 9): IAMPolicy declared with a strict subset of its RPCs bound; Operations / Locations partially bound
    {"features": ["custom_lro", "delete_void"], "opts": ["transport=grpc+rest"], "mixins": ["iam", "locations", "operations"], "ads": False,
     "mixin_rules": {"iam": ["GetIamPolicy", "SetIamPolicy"], "locations": ["ListLocations"], "operations": ["CancelOperation", "GetOperation"]}},
    {"features": ["server_stream"], "opts": ["transport=grpc"], "mixins": ["iam", "locations"], "ads": False, "mixin_rules": {"iam": ["GetIamPolicy"], "locations": []}},
    {"features": ["paged_map"], "opts": ["transport=rest"], "mixins": ["iam", "operations"], "ads": False, "mixin_rules": {"iam": [], "operations": ["ListOperations"]}},
    # regression input of the repaired finding (fix 23a0705; corpus/C13/locations_get_without_list.json): GetLocation bound, ListLocations not
    {"features": ["delete_void"], "opts": ["transport=grpc+rest"], "mixins": ["locations"], "ads": False, "mixin_rules": {"locations": ["GetLocation"]}},
    # round 10: request / response of different flavour, over rest and grpc+rest
    {"features": ["pb2_response", "pb2_request", "required_scalars_query"], "opts": ["transport=grpc+rest"], "mixins": [], "ads": False},
    {"features": ["pb2_response", "pb2_request", "delete_void"], "opts": ["transport=rest", "rest-numeric-enums"], "mixins": ["iam"], "ads": False},
    # open finding (corpus/C13/ads_rest_pb2_request.json): ads templates + REST + a pb2 request
    {"features": ["pb2_request", "pb2_response"], "opts": ["transport=grpc+rest", "python-gapic-templates=ads-templates", "old-naming"], "mixins": [], "ads": True},
    # the same tree with the map in second position is part of the profile; naming overrides
    {"features": ["tree_map", "wkt_flattened", "second_file", "nested_enum", "enum_late_nonzero", "lro_empty"],
     "opts": ["transport=grpc+rest", "python-gapic-namespace=Acme", "python-gapic-name=libra", "warehouse-package-name=acme-libra"], "mixins": [], "ads": False},
]


def run(ctx):
    ctx.rule = ("conventional profile of DESIGN §8.1: CRUD + custom/LRO + streaming methods, resources, scalar/enum/message/map/repeated/oneof/"
                "optional/reserved-word fields, required query fields, routing, additional bindings, paging variants x option sets (transports, "
                "mixins via service-yaml, numeric enums, add-iam-methods, metadata, naming overrides, lazy-import, async REST, ads templates); each "
                "case = one generated library whose emitted tests/unit suite is run with pytest, distinct by (features, options); plus T2 cases: "
                "one per (field, object graph) of a message zoo / profile API and one per (rule, variable kinds) of a rule zoo")
    ctx.assume("excluded shapes E1-E5 of DESIGN §8.2 are not generated; async REST cannot be enabled through options at this commit")
    ctx.assume("enum values with negative numbers are not generated (the emitted types module does not import: proto-plus orders values by number; "
               "a C01/C02 matter)")
    r = ctx.rng("conventional")
    t2_samples(ctx, r)
    t2_model(ctx, ctx.rng("model"))
    cases = list(CORPUS) + [gen_case(r) for _ in range(ctx.n(14, 420))]
    for case in cases[2:5] + cases[len(CORPUS):len(CORPUS) + ctx.n(6, 100)]:
        t2_profile(ctx, case)
    with ThreadPoolExecutor(max_workers=4) as ex:
        outs = list(ex.map(one, cases))
    for case, out in zip(cases, outs):
        ctx.case({"features": case["features"], "opts": case["opts"], "mixins": case["mixins"], "tests": out.get("total")},
                 distinct_key=["case", json.dumps(case, sort_keys=True)])
        for ft in case["features"]:
            ctx.count("feature", ft)
        ctx.count("transport", case["opts"][0]); ctx.count("mixins", ",".join(case["mixins"]) or "none")
        for m in case["mixins"]:
            ctx.count("mixin_rules_bound", f"{m}:{len(mixin_rule_names(case, m))}/{len(MIXIN_RULES[m])}")
        judge(ctx, case, out)


def search(ctx):
    r = ctx.rng("search")
    cases = [gen_case(r) for _ in range(24)]
    with ThreadPoolExecutor(max_workers=4) as ex:
        outs = list(ex.map(one, cases))
    for case, out in zip(cases, outs):
        judge(ctx, case, out)


def replay(ctx, payload):
    if "case" in payload and "method" not in payload and "message" not in payload:
        out = one(payload["case"])
        judge(ctx, payload["case"], out)
    elif "case" in payload:                       # a T2 disagreement / sample-request oracle failure on a profile API
        t2_profile(ctx, payload["case"])
    elif payload.get("t2"):                       # the zoo / sample_api streams are a function of the seed alone
        ctx.seed = payload.get("seed", ctx.seed)
        t2_model(ctx, ctx.rng("model"))
    elif "template" in payload:
        t2_samples(ctx, ctx.rng("conventional"))
    for d in ctx.disagreements:
        print("  disagreement:", d["correspondence"], "-", d["what"])
    for f in ctx.failures:
        print("  failure:", f["key"], "-", f["what"])
    return not ctx.failures and not ctx.disagreements


CLAIM = dict(
    text="PARTIAL by nature: `the emitted suite passes` is the agreement of two template families under pytest and is decided by EXECUTION "
         "(pytest on the emitted tests/unit of every generated library of the conventional profile, all option sets that change the surface, "
         "incl. naming overrides, lazy-import, a second proto file, tree/map, well-known-type and alias-enum shapes). "
         "What is logic is proved in Lean 4 about a model of the code the emitted tests depend on (gapic/utils/uri_sample.py, Field.type / "
         "primitive_mock / mock_value_original_type / merged_mock_value / mock_value / inner_mock, HttpRule.path_fields / sample_request, "
         "MixinHttpRule.sample_request, RoutingParameter.sample_request): sample values instantiate their templates with fresh names "
         "(sample_matches_template, sample_names_fresh); the sample request of an http rule written back into the rule matches the rule's own "
         "path template (http_sample_request_fills_rule, sample_request_lookup; duplicate variable = counterexample); mock values are well-typed "
         "for the field kind (primitive_mock_well_typed, mock_original_fits with the `{}`-for-a-repeated-message quirk kept as "
         "mock_original_strict_counterexample), floats lie in [0.1, 1), ints fit int32, enum mocks are declared numbers; "
         "mock_value_original_type always ends (mock_original_terminates); mock_value is independent of the recursion depth once it has a "
         "value and has none for a message whose first field is a map back to itself (mock_value_self_map_counterexample = an open finding). "
         "Tie: T2 of every one of these functions on the real schema objects (object graph of the loaded API as the model's environment) for "
         "random message zoos, rule zoos and APIs of the profile; api-core's path_template.validate / transcode as the external meaning of "
         "`Matches` / `UrlMatches` (oracle: the sample request of a rule transcodes under that very rule).",
    technique="generate-and-run exploration of the emitted test suite + Lean 4 theorems about the mock-value and sample-request logic "
              "(induction on template tokens, visited-set invariant with a pigeonhole bound, fuel monotonicity)",
    design="7.13 and 8",
    note="No executable model short of re-implementing ~6k lines of templates expresses `the suite passes`; the Lean part covers supporting logic only.",
)
