"""C14 — generated samples are valid, executable and consistent with their metadata (DESIGN §7.14).

Per API (a JSON `spec`, so that every case can be replayed):
  T2  real generate_sample_specs / CallingForm.method_default / generate_request_object (+ the request
      transformation) / Snippet._parse_snippet_segments  vs  the Lean model (ops c14.*), model inputs derived
      from the INPUT descriptors, never from gapic's wrappers;
  T3  generate with the real generator; compile every sample; import and RUN every sample_* function against
      loopback servers (credentials and channel creation stubbed, see libhost_samples.py); decode what the
      server received under the input descriptors; compare with the model's default request; metadata entry
      vs file vs the imported client; docstring snippet vs the text between the tags;
  oracle  restates the property on those observables, independent of the model.
"""
from __future__ import annotations
import base64, copy, glob, json, keyword, os, re, warnings
import apigen, genrun, libhost, rpc
from google.protobuf import descriptor_pb2 as dp
from google.api import field_behavior_pb2, resource_pb2

HERE = os.path.dirname(os.path.abspath(__file__))
ROOT = os.path.dirname(os.path.dirname(HERE))
CORPUS = os.path.join(ROOT, "corpus", "C14")
SDIR = "samples/generated_samples"
FUEL = 60

INT_T = {"int32", "int64", "uint32", "uint64", "sint32", "sint64", "fixed32", "fixed64", "sfixed32", "sfixed64"}
PYT = {**{t: "int" for t in INT_T}, "string": "str", "bytes": "bytes", "bool": "bool", "double": "float", "float": "float"}
TNUM = {v: k for k, v in apigen.T.items()}

# ------------------------------------------------------------------ spec -> descriptors


def build_files(spec):
    files = []
    for fs in spec["files"]:
        f = apigen.File(fs["name"], fs["package"])
        for d in fs.get("deps", []):
            f.dep(d)
        for e in fs.get("enums", []):
            f.enum(e["name"], e["values"])
        for rd in fs.get("resource_definitions", []):
            f.resource_definition(rd[0], *rd[1:])

        def add_msg(parent, ms):
            m = parent.msg(ms["name"]) if isinstance(parent, apigen.File) else parent.nested(ms["name"])
            for n in ms.get("nested", []):
                add_msg(m, n)
            for e in ms.get("enums", []):
                m.nested_enum(e["name"], e["values"])
            for fl in ms["fields"]:
                if fl.get("map"):
                    fld = m.map_field(fl["name"], fl["map"][0], fl["map"][1], vtype_name=fl.get("type_name"))
                    if fl.get("required"):
                        fld.options.Extensions[field_behavior_pb2.field_behavior].append(field_behavior_pb2.REQUIRED)
                    continue
                m.field(fl["name"], fl["type"], repeated=fl.get("repeated", False), type_name=fl.get("type_name"),
                        required=fl.get("required", False), oneof=fl.get("oneof"), optional=fl.get("optional", False),
                        ref=fl.get("ref"), child_ref=fl.get("child_ref"))
            if ms.get("resource"):
                m.resource(ms["resource"][0], *ms["resource"][1:])
        for ms in fs.get("messages", []):
            add_msg(f, ms)
        for ss in fs.get("services", []):
            svc = f.service(ss["name"], host=ss.get("host", "lib.example.com"))
            for me in ss["methods"]:
                http = me.get("http")
                svc.method(me["name"], me["input"], me["output"], cs=me.get("cs", False), ss=me.get("ss", False),
                           lro=tuple(me["lro"]) if me.get("lro") else None, sigs=tuple(me.get("sigs", ())),
                           http=(http[0], http[1]) if http else None, body=(http[2] if http and len(http) > 2 else None))
        files.append(f)
    return files


# ------------------------------------------------------------------ descriptor facts (independent of gapic)


class Facts:
    """what the INPUT descriptors say (messages, enums, field behaviours) — the single source for the model
    input and for the oracle."""

    def __init__(self, files):
        self.msgs, self.enums = {}, {}
        for f in list(apigen.dep_files()) + [x.pb for x in files]:
            for m in f.message_type:
                self._walk(f.package, m)
            for e in f.enum_type:
                self.enums[f"{f.package}.{e.name}"] = e
        self.nested = set()
        for f in list(apigen.dep_files()) + [x.pb for x in files]:
            for m in f.message_type:
                self._mark_nested(f"{f.package}.{m.name}", m)

    def _walk(self, prefix, m):
        full = f"{prefix}.{m.name}"
        self.msgs[full] = m
        for n in m.nested_type:
            self._walk(full, n)
        for e in m.enum_type:
            self.enums[f"{full}.{e.name}"] = e

    def _mark_nested(self, full, m):
        for n in m.nested_type:
            self.nested.add(f"{full}.{n.name}")
            self._mark_nested(f"{full}.{n.name}", n)

    @staticmethod
    def required(fd):
        return field_behavior_pb2.REQUIRED in fd.options.Extensions[field_behavior_pb2.field_behavior]

    def is_map(self, fd):
        return fd.type == 11 and fd.label == 3 and self.msgs[fd.type_name.lstrip(".")].options.map_entry

    def oneof_name(self, m, fd):
        return m.oneof_decl[fd.oneof_index].name if fd.HasField("oneof_index") else None

    def field_json(self, m, fd):
        if fd.type == 11 or fd.type == 10:
            kind = ["msg", fd.type_name.lstrip(".")]
        elif fd.type == 14:
            kind = ["enum", [v.name for v in self.enums[fd.type_name.lstrip(".")].value]]
        else:
            kind = ["prim", PYT[TNUM[fd.type]]]
        return [fd.name, kind, fd.label == 3, self.required(fd), self.oneof_name(m, fd), bool(fd.proto3_optional)]

    def env_for(self, root):
        """the messages reachable from `root` through message-typed fields, as the driver's env JSON"""
        env, todo = {}, [root]
        while todo:
            n = todo.pop()
            if n in env:
                continue
            m = self.msgs[n]
            env[n] = [self.field_json(m, fd) for fd in m.field]
            for fd in m.field:
                if fd.type in (10, 11):
                    todo.append(fd.type_name.lstrip("."))
        return env

    # ---- the property's own reading of "required fields and one member of each oneof" (oracle side)
    def request_fields(self, full):
        m = self.msgs[full]
        firsts, seen = [], set()
        for fd in m.field:
            o = self.oneof_name(m, fd)
            if o is not None and not fd.proto3_optional and o not in seen:
                seen.add(o)
                firsts.append(fd)
        return firsts, [fd for fd in m.field if self.required(fd) and (not fd.HasField("oneof_index") or fd.proto3_optional)]

    def default_nonempty(self, full, _stack=()):
        """the statement's reading of "the default request populates something of this message": it has a required
        field / first oneof member that is a scalar or an enum, or a message for which the same holds (descriptors only)"""
        if full in _stack or full not in self.msgs:
            return False
        firsts, req = self.request_fields(full)
        for fd in firsts + req:
            if fd.type not in (10, 11):
                return True
            if self.default_nonempty(fd.type_name.lstrip("."), _stack + (full,)):
                return True
        return False

    def repeated_request_types(self, root, limit=200):
        """message types with required content that the default request must build MORE THAN ONCE below `root`
        (sibling fields of one type, a type at two depths); walks the request fields of the descriptors"""
        uses, todo, steps = {}, [(root, ())], 0
        while todo and steps < limit:
            n, stack = todo.pop()
            steps += 1
            if n in stack or n not in self.msgs:
                continue
            firsts, req = self.request_fields(n)
            for fd in firsts + req:
                if fd.type in (10, 11) and not self.is_map(fd):
                    t = fd.type_name.lstrip(".")
                    if self.default_nonempty(t):
                        uses[t] = uses.get(t, 0) + 1
                    todo.append((t, stack + (n,)))
        return sorted(t for t, k in uses.items() if k > 1)

    def has_request_cycle(self, root):
        """a cycle along fields the default request must descend into (required / first oneof member)"""
        state = {}

        def visit(n):
            if state.get(n) == 1:
                return True
            if state.get(n) == 2:
                return False
            state[n] = 1
            firsts, req = self.request_fields(n)
            for fd in firsts + req:
                if fd.type in (10, 11) and visit(fd.type_name.lstrip(".")):
                    return True
            state[n] = 2
            return False
        return visit(root)


# ------------------------------------------------------------------ values: model JSON <-> python


def model_value(v):
    k = v[0]
    if k == "str": return v[1]
    if k == "bytes": return v[1].encode("utf-8")
    if k == "int": return v[1]
    if k == "float": return v[1] * pow(10, -1 * len(str(v[1])))
    if k == "bool": return v[1]
    if k == "none": return None
    if k == "list": return [model_value(x) for x in v[1]]
    raise ValueError(v)


def canon_py(v):
    if isinstance(v, bytes): return {"bytes": v.decode("utf-8", "replace")}
    if isinstance(v, list): return [canon_py(x) for x in v]
    if isinstance(v, bool): return {"bool": v}
    if isinstance(v, float): return {"float": repr(v)}
    return v


def quoted(v):
    """what `_normal_request_setup` does with a value: strings go through json.dumps"""
    return json.dumps(v) if isinstance(v, str) else v


# ------------------------------------------------------------------ API generator (structured, mostly valid)

PKGS = [("acme.lib.v1", "acme/lib/v1", "lib_v1"), ("acme.lib.v1", "acme/lib/v1", "lib_v1"),
        ("acme.books.v2beta1", "acme/books/v2beta1", "books_v2beta1"), ("shop.catalog.v3", "shop/catalog/v3", "catalog_v3")]
SVC_NAMES = ["Library", "Archive", "Catalog", "Registry", "FrontDesk", "IAMAdmin", "Books2", "DataAPIv2"]
HOSTS = ["lib.example.com", "books.example.com", "library-prod.example.com", "x.y.example.org"]
VERBS = ["Get", "Create", "Update", "Delete", "Search", "Move", "Analyze", "Export", "Undelete", "Check", "Render", "Sync"]
NOUNS = ["Book", "Shelf", "Item", "Widget", "Report", "Job", "Note", "Ledger", "IAMPolicy", "URL", "B2BOrder", "Shelf2"]
FIELD_NAMES = ["name", "parent", "title", "filter", "count", "mode", "labels_csv", "payload", "request", "customer",
               "kind_of", "type_url", "page", "response", "stream", "etag", "force", "ratio", "data", "f", "operation"]
# field names the generator renames (`class` -> `class_`, C12's subject) are kept out of this profile
RENAMED = set(keyword.kwlist) | {"all", "any", "breakpoint", "cls", "dir", "exec", "format", "hash", "help", "ignore_unknown_fields",
                                 "license", "list", "locals", "mapping", "max", "min", "next", "object", "open", "range", "self",
                                 "slice", "type", "zip", "__peg_parser__"}
SCALARS = ["string", "string", "int32", "int64", "uint32", "uint64", "sint32", "sint64", "fixed32", "fixed64",
           "sfixed32", "sfixed64", "bool", "double", "float", "bytes"]
FORMS = ["unary", "unary", "void", "paged", "lro", "lro_void", "server_stream", "client_stream", "bidi", "foreign"]

# the per-sample defects this check re-finds (inside the quantifier; each listed in findings/C14.json)
TWISTS = ["required_plain_message", "oneof_first_plain_message", "required_optional", "required_repeated_message",
          "required_nested_type", "required_foreign_type", "required_map", "required_wkt", "message_field_named_client"]


def base_messages(pkg):
    P = "." + pkg
    return [
        {"name": "Book", "fields": [{"name": "name", "type": "string"}, {"name": "pages", "type": "int32", "required": True},
                                    {"name": "color", "type": "enum", "type_name": P + ".Color"}],
         "resource": ["lib.example.com/Book", "shelves/{shelf}/books/{book}"]},
        {"name": "Author", "fields": [{"name": "name", "type": "string", "required": True}, {"name": "born", "type": "int64"},
                                      {"name": "alias", "type": "string", "oneof": "pen"}, {"name": "number", "type": "uint32", "oneof": "pen"}]},
        {"name": "Plain", "fields": [{"name": "note", "type": "string"}, {"name": "weight", "type": "double"}]},
        {"name": "Wrapper", "fields": [{"name": "author", "type": "message", "type_name": P + ".Author", "required": True},
                                       {"name": "depth", "type": "sint32", "required": True},
                                       {"name": "plain", "type": "message", "type_name": P + ".Plain"}]},
        {"name": "OpMeta", "fields": [{"name": "progress", "type": "int32"}]},
        # a real oneof whose REQUIRED member is not the first option
        {"name": "Lookup", "fields": [{"name": "shelf", "type": "string", "required": True},
                                      {"name": "isbn", "type": "string", "oneof": "key"},
                                      {"name": "title", "type": "string", "oneof": "key", "required": True},
                                      {"name": "number", "type": "int64", "oneof": "key"}]},
        # one message type used several times in a request tree: as sibling fields (Leg), at two depths (Trip)
        {"name": "Stop", "fields": [{"name": "name", "type": "string", "required": True},
                                    {"name": "city", "type": "string", "oneof": "place"}, {"name": "zip", "type": "int32", "oneof": "place"}]},
        {"name": "Leg", "fields": [{"name": "start", "type": "message", "type_name": P + ".Stop", "required": True},
                                   {"name": "finish", "type": "message", "type_name": P + ".Stop", "required": True},
                                   {"name": "minutes", "type": "int32"}]},
        # reserved words as field names (`format_`, `type_`, `next_` in the emitted types): for dotted method signatures
        {"name": "Folio", "fields": [{"name": "format", "type": "string"}, {"name": "type", "type": "int32"},
                                     {"name": "next", "type": "message", "type_name": P + ".Plain"}, {"name": "caption", "type": "string"}]},
        {"name": "Trip", "fields": [{"name": "origin", "type": "message", "type_name": P + ".Stop", "required": True},
                                    {"name": "leg", "type": "message", "type_name": P + ".Leg", "required": True},
                                    {"name": "last", "type": "message", "type_name": P + ".Stop", "required": True}]},
    ]


def gen_request_fields(r, pkg, twist=None):
    """fields of one request message over the property's quantifier: required fields of every type, oneofs,
    resource references, nested messages — plus non-required noise of every kind."""
    P = "." + pkg
    used, fields = set(), []

    def fname(pref=None):
        for _ in range(50):
            n = pref or r.pick(FIELD_NAMES)
            if not pref and r.maybe(0.3):
                n = r.ident(lo=2, hi=7)
            if n not in used and not n.startswith("_") and n not in RENAMED:
                used.add(n)
                return n
            pref = None
        n = "z" + str(len(used))
        used.add(n)
        return n

    n_req = r.randint(0, 4)
    for _ in range(n_req):
        k = r.pick(["scalar", "scalar", "enum", "rep_scalar", "rep_enum", "message", "deep", "resource", "shared", "lookup",
                    "twin", "nested_after", "depths"])
        if k == "scalar":
            fields.append({"name": fname(), "type": r.pick(SCALARS), "required": True})
        elif k == "enum":
            fields.append({"name": fname(), "type": "enum", "type_name": P + ".Color", "required": True})
        elif k == "rep_scalar":
            fields.append({"name": fname(), "type": r.pick(SCALARS), "required": True, "repeated": True})
        elif k == "rep_enum":
            fields.append({"name": fname(), "type": "enum", "type_name": P + ".Color", "required": True, "repeated": True})
        elif k == "message":
            fields.append({"name": fname(), "type": "message", "type_name": P + r.pick([".Book", ".Author"]), "required": True})
        elif k == "deep":
            fields.append({"name": fname(), "type": "message", "type_name": P + ".Wrapper", "required": True})
        elif k == "shared":
            fields.append({"name": fname(), "type": "message", "type_name": P + ".Publisher", "required": True})
        elif k == "lookup":
            fields.append({"name": fname(), "type": "message", "type_name": P + ".Lookup", "required": True})
        elif k == "twin":          # sibling required fields of ONE message type that has required fields / a oneof
            t = P + r.pick([".Author", ".Book", ".Lookup", ".Stop", ".Publisher", ".Leg"])
            for _i in range(r.pick([2, 2, 3])):
                fields.append({"name": fname(), "type": "message", "type_name": t, "required": True})
        elif k == "nested_after":  # a type at top level and again inside a sibling message
            a, b = r.pick([(".Stop", ".Leg"), (".Author", ".Wrapper"), (".Stop", ".Trip"), (".Leg", ".Trip")])
            pair = [{"name": fname(), "type": "message", "type_name": P + a, "required": True},
                    {"name": fname(), "type": "message", "type_name": P + b, "required": True}]
            if r.maybe():
                pair.reverse()
            fields += pair
        elif k == "depths":        # the same type at two depths below one field
            fields.append({"name": fname(), "type": "message", "type_name": P + ".Trip", "required": True})
        elif k == "resource":
            f = {"name": fname(r.pick(["name", "parent", "book"])), "type": "string", "required": True}
            f["ref" if r.maybe() else "child_ref"] = "lib.example.com/Book"
            fields.append(f)
    for o in range(r.randint(0, 2)):
        oname = r.pick(["kind", "source", "target", "variant"]) + str(o)
        first = r.pick(["scalar", "scalar", "enum", "message"])
        for j in range(r.randint(1, 3)):
            k = first if j == 0 else r.pick(["scalar", "enum", "message", "plain"])
            req_member = j > 0 and r.maybe(0.3)      # a REQUIRED member that is not the first option
            if k == "scalar":
                fields.append({"name": fname(), "type": r.pick(SCALARS), "oneof": oname, "required": req_member})
            elif k == "enum":
                fields.append({"name": fname(), "type": "enum", "type_name": P + ".Color", "oneof": oname, "required": req_member})
            elif k == "message":
                fields.append({"name": fname(), "type": "message", "type_name": P + r.pick([".Author", ".Wrapper", ".Stop", ".Leg"]), "oneof": oname})
            else:
                fields.append({"name": fname(), "type": "message", "type_name": P + ".Plain", "oneof": oname})
    for _ in range(r.randint(0, 3)):   # non-required noise
        k = r.pick(["scalar", "optional", "message", "map", "rep_message", "enum"])
        if k == "scalar":
            fields.append({"name": fname(), "type": r.pick(SCALARS), "repeated": r.maybe(0.3)})
        elif k == "optional":
            fields.append({"name": fname(), "type": r.pick(SCALARS), "optional": True})
        elif k == "message":
            fields.append({"name": fname(), "type": "message", "type_name": P + r.pick([".Plain", ".Book", ".Wrapper", ".Folio", ".Leg"])})
        elif k == "map":
            fields.append({"name": fname(), "map": ["string", r.pick(["string", "int32"])]})
        elif k == "rep_message":
            fields.append({"name": fname(), "type": "message", "type_name": P + ".Author", "repeated": True})
        else:
            fields.append({"name": fname(), "type": "enum", "type_name": P + ".Color"})
    # shuffle whole units (a single field, or a oneof with its members in declaration order)
    units, seen_o = [], {}
    for f in fields:
        if f.get("oneof") and not f.get("optional"):
            if f["oneof"] in seen_o:
                seen_o[f["oneof"]].append(f)
            else:
                seen_o[f["oneof"]] = [f]
                units.append(seen_o[f["oneof"]])
        else:
            units.append([f])
    r.shuffle(units)
    fields = [f for u in units for f in u]
    nested = []
    if twist == "required_plain_message":
        fields.append({"tw": True, "name": fname("plain_req"), "type": "message", "type_name": P + ".Plain", "required": True})
    elif twist == "oneof_first_plain_message":
        fields.append({"tw": True, "name": fname("plain_first"), "type": "message", "type_name": P + ".Plain", "oneof": "twisted"})
        fields.append({"tw": True, "name": fname("other_member"), "type": "string", "oneof": "twisted"})
    elif twist == "required_optional":
        fields.append({"tw": True, "name": fname("opt_req"), "type": "string", "optional": True, "required": True})
    elif twist == "required_repeated_message":
        fields.append({"tw": True, "name": fname("authors"), "type": "message", "type_name": P + ".Author", "required": True, "repeated": True})
    elif twist == "required_nested_type":
        nested.append({"name": "Inner", "fields": [{"name": "x", "type": "int32", "required": True}]})
        fields.append({"tw": True, "name": fname("inner"), "type": "message", "type_name": "NESTED:Inner", "required": True})
    elif twist == "required_foreign_type":
        fields.append({"tw": True, "name": fname("value"), "type": "message", "type_name": ".google.protobuf.Value", "required": True})
    elif twist == "required_map":
        fields.append({"tw": True, "name": fname("labels"), "map": ["string", "string"], "required": True})
    elif twist == "message_field_named_client":
        fields.append({"tw": True, "name": fname("client"), "type": "message", "type_name": P + ".Author", "required": True})
    elif twist == "required_wkt":
        fields.append({"tw": True, "name": fname("mask"), "type": "message", "type_name": ".google.protobuf.FieldMask", "required": True})
    grouped = fields
    # proto3-optional fields get synthetic oneofs, which protoc puts after all real ones
    grouped = [g for g in grouped if not g.get("optional")] + [g for g in grouped if g.get("optional")]
    return grouped, nested


def gen_api(r, idx, transport=None, twists=0.0, n_methods=None, selective=None):
    pkg, path, _ = r.pick(PKGS)
    P = "." + pkg
    transport = transport or r.pick(["grpc", "grpc", "grpc+rest", "rest"])
    rest_only = transport == "rest"
    shared = {"name": f"{path}/shared.proto", "package": pkg, "deps": [],
              "messages": [{"name": "Publisher", "fields": [{"name": "id", "type": "string", "required": True},
                                                            {"name": "rank", "type": "int32"}]}]}
    main = {"name": f"{path}/lib.proto", "package": pkg, "deps": [shared["name"], "google/iam/v1/iam_policy.proto",
                                                                  "google/iam/v1/policy.proto"],
            "enums": [{"name": "Color", "values": ["COLOR_UNSPECIFIED", "RED", "BLUE"]}],
            "messages": base_messages(pkg), "services": []}
    nsvc = r.pick([1, 1, 2, 3])
    snames = r.sample(SVC_NAMES, nsvc)
    ctr = 0
    seen_rpc = set()       # request/response messages are named after the RPC: keep RPC names distinct across services
    for sname in snames:
        svc = {"name": sname, "host": r.pick(HOSTS), "methods": []}
        for _ in range(n_methods or r.randint(2, 6)):
            form = r.pick(FORMS)
            if rest_only and form in ("client_stream", "bidi"):
                form = "unary"      # the REST transport has no client streaming (NotImplementedError by design)
            for _t in range(20):
                rpc_name = r.pick(VERBS) + r.pick(NOUNS) + (r.pick(["", "s", "Async", "V2", "2", "ByID", "ForHTTP2", "V2Beta"]) if r.maybe(0.35) else "")
                if form == "paged":
                    rpc_name = "List" + r.pick(NOUNS) + "s"
                if rpc_name not in seen_rpc:
                    break
            if rpc_name in seen_rpc:
                continue
            seen_rpc.add(rpc_name)
            ctr += 1
            twist = r.pick(TWISTS) if r.maybe(twists) else None
            me = {"name": rpc_name, "form": form, "twist": twist}
            if form == "foreign":
                inp, out = r.pick([(".google.iam.v1.SetIamPolicyRequest", ".google.iam.v1.Policy"),
                                   (".google.iam.v1.GetIamPolicyRequest", ".google.iam.v1.Policy"),
                                   (".google.iam.v1.TestIamPermissionsRequest", ".google.iam.v1.TestIamPermissionsResponse"),
                                   (".google.protobuf.Empty", P + ".Book"), (".google.protobuf.Empty", ".google.protobuf.Empty")])
                me.update(input=inp, output=out)
                me["twist"] = None
            else:
                rq_name = f"{rpc_name}Request"
                fields, nested = gen_request_fields(r, pkg, twist)
                for f in fields:
                    if f.get("type_name", "").startswith("NESTED:"):
                        f["type_name"] = f"{P}.{rq_name}.{f['type_name'][7:]}"
                if form == "paged":
                    fields = [f for f in fields if f["name"] not in ("page_size", "page_token", "max_results")]
                    fields += [{"name": "page_size", "type": "int32"}, {"name": "page_token", "type": "string"}]
                    rs_name = f"{rpc_name}Response"
                    item = r.pick([("message", P + ".Book"), ("string", None), ("message", P + ".Publisher")])
                    main["messages"].append({"name": rs_name, "fields": [
                        {"name": "results", "type": item[0], "type_name": item[1], "repeated": True},
                        {"name": "next_page_token", "type": "string"}]})
                    out = f"{P}.{rs_name}"
                elif form in ("lro", "lro_void"):
                    out = ".google.longrunning.Operation"
                    me["lro"] = [(pkg + ".Book") if form == "lro" else "google.protobuf.Empty", pkg + ".OpMeta"]
                elif form == "void":
                    out = ".google.protobuf.Empty"
                else:
                    out = P + r.pick([".Book", ".Author", ".Publisher"])
                main["messages"].append({"name": rq_name, "fields": fields, "nested": nested})
                me.update(input=f"{P}.{rq_name}", output=out)
                flat = [f["name"] for f in fields if not f.get("oneof") and not f.get("map") and not f.get("optional")
                        and f["name"] not in ("request", "requests", "retry", "timeout", "metadata")][:2]
                if flat and r.maybe(0.4):
                    me["sigs"] = [",".join(flat)]
                # dotted method signatures: fields of nested messages (1..3 levels below a top-level message field), alone or
                # mixed with top-level fields; the client names the keyword parameter after the LEAF field
                tops = [f for f in fields if f.get("type") == "message" and not f.get("repeated") and not f.get("oneof")
                        and not f.get("optional") and not f.get("tw") and f.get("type_name", "").startswith(P + ".")
                        and f["type_name"].count(".") == P.count(".") + 1]
                if tops and r.maybe(0.45):
                    table = {P + "." + m_["name"]: m_["fields"] for m_ in main["messages"]}
                    table.update({P + "." + m_["name"]: m_["fields"] for m_ in shared["messages"]})
                    entries = list(flat[:r.randint(0, len(flat))]) if r.maybe(0.6) else []
                    taken = {leaf_param(x) for x in entries} | {"request", "requests", "retry", "timeout", "metadata", "self_"}
                    for _k in range(r.randint(1, 3)):
                        top = r.pick(tops)
                        path, cur = [top["name"]], table.get(top["type_name"])
                        for _d in range(r.randint(1, 3)):
                            cands = [g for g in (cur or []) if not g.get("map")]
                            if not cands:
                                break
                            g = r.pick(cands)
                            path.append(g["name"])
                            cur = table.get(g.get("type_name")) if (g.get("type") == "message" and not g.get("repeated")) else None
                            if cur is None:
                                break
                        if len(path) >= 2 and leaf_param(path[-1]) not in taken and not any(
                                e_ == ".".join(path[:n_]) for e_ in entries for n_ in range(1, len(path))):
                            taken.add(leaf_param(path[-1]))
                            entries.insert(r.randint(0, len(entries)), ".".join(path))
                    if any("." in e_ for e_ in entries):
                        me["sigs"] = [",".join(entries)]
            me["cs"] = form in ("client_stream", "bidi")
            me["ss"] = form in ("server_stream", "bidi")
            if transport != "grpc" and not me["cs"]:
                me["http"] = ["post", f"/v1/{sname.lower()}:{rpc_name[0].lower() + rpc_name[1:]}", "*"]
                # a path variable bound to a required top-level string field, with a pattern its mock value (`<name>_value`) matches
                pv = [f["name"] for f in (fields if form != "foreign" else []) if f.get("required") and f.get("type") == "string"
                      and not f.get("repeated") and not f.get("oneof") and not f.get("optional")]
                if pv and r.maybe(0.5):
                    var = r.pick(pv)
                    me["http"] = [r.pick(["post", "post", "get", "delete"]), f"/v1/{sname.lower()}/" + r.pick(["{%s}", "{%s=*}", "{%s=**}"]) % var
                                  + f":{rpc_name[0].lower() + rpc_name[1:]}"]
                    if me["http"][0] == "post":
                        me["http"].append("*")
            svc["methods"].append(me)
        main["services"].append(svc)
    spec = {"label": f"api{idx}", "package": pkg, "params": f"transport={transport}", "files": [shared, main]}
    # selective GAPIC generation (service yaml): some RPCs listed, the others generated as internal `_method`s or omitted
    names = [f"{sv['name']}.{me['name']}" for sv in main["services"] for me in sv["methods"]]
    if selective is None:
        selective = r.maybe(0.3)
    if selective and len(names) >= 2:
        listed = sorted(r.sample(names, r.randint(1, len(names) - 1)))
        spec["selective"] = {"listed": listed, "internal": r.maybe(0.65)}
    return spec


# ------------------------------------------------------------------ helpers on a spec


def host_shortname(host):
    return host.split(".")[0]


def api_version(pkg):
    """the property's `<version>`: the trailing vN[alpha|beta|pN…] component of the proto package"""
    last = pkg.split(".")[-1]
    return last if re.fullmatch(r"v\d+(p\d+)?((alpha|beta)\d*)?", last) else ""


def methods_of(spec):
    for fs in spec["files"]:
        for ss in fs.get("services", []):
            for me in ss["methods"]:
                yield fs, ss, me


def sel_status(spec, ss, me):
    """selective GAPIC generation (spec["selective"] = {"listed": ["Service.Rpc", …], "internal": bool}), read off the
    service yaml the way its documentation states it: a listed RPC is public; an unlisted one is generated as an internal
    `_method` (generate_omitted_as_internal) or not at all; an empty list means no selection"""
    sel = spec.get("selective")
    if not sel or not sel.get("listed"):
        return "public"
    if f"{ss['name']}.{me['name']}" in sel["listed"]:
        return "public"
    return "internal" if sel.get("internal") else "omitted"


def emitted_methods(spec):
    for fs, ss, me in methods_of(spec):
        if sel_status(spec, ss, me) != "omitted":
            yield fs, ss, me


def selective_yaml(spec):
    sel = spec["selective"]
    by_name = {f"{ss['name']}.{me['name']}": fs["package"] for fs, ss, me in methods_of(spec)}
    return {"type": "google.api.Service", "config_version": 3, "name": "lib.example.com", "publishing": {"library_settings": [
        {"version": spec["package"], "python_settings": {"common": {"selective_gapic_generation": {
            "methods": [f"{by_name.get(n, spec['package'])}.{n}" for n in sel["listed"]],
            "generate_omitted_as_internal": bool(sel.get("internal"))}}}}]}}


def leaf_param(entry):
    """the keyword parameter a method-signature entry (`book.name`) becomes in the emitted client: the leaf field's name,
    with `_` appended when it is a word the generator renames"""
    leaf = entry.split(".")[-1]
    return leaf + "_" if leaf in RENAMED else leaf


def transports_of(spec):
    m = re.search(r"transport=([a-z+]+)", spec.get("params", ""))
    t = (m.group(1) if m else "grpc").split("+")
    return "grpc" in t, "rest" in t


def snake(name):
    import gapic.utils as gu     # plumbing only: locating the python attribute named in the metadata is done via metadata
    return gu.to_snake_case(name)


def expected_form(me, facts):
    """the statement's calling forms, decided from the spec alone"""
    if me.get("lro"): return "LongRunningRequestPromise"
    if me.get("form") == "paged" or me.get("paged"): return "RequestPagedAll"
    if me.get("cs"): return "RequestStreamingBidi" if me.get("ss") else "RequestStreamingClient"
    if me.get("ss"): return "RequestStreamingServer"
    return "Request"


def is_void(me):
    return me["output"] == ".google.protobuf.Empty" and not me.get("lro")


# ------------------------------------------------------------------ one API through T2, T3, oracle


def generate(req):
    """same statements as gapic/cli/generate.py:generate; returns (api, opts, response | None, error | None)"""
    genrun._stub_pandoc()
    from gapic import generator
    from gapic.schema import api as api_mod
    from gapic.utils import Options
    with warnings.catch_warnings():
        warnings.simplefilter("ignore")
        try:
            opts = Options.build(req.parameter)
            package = os.path.commonprefix([p.package for p in req.proto_file if p.name in req.file_to_generate]).rstrip(".")
            api = api_mod.API.build(req.proto_file, opts=opts, package=package)
        except BaseException as e:  # noqa
            return None, None, None, (genrun.crash_signature(e), str(e)[:300])
        try:
            return api, opts, generator.Generator(opts).get_response(api, opts), None
        except BaseException as e:  # noqa
            return api, opts, None, (genrun.crash_signature(e), str(e)[:300])


def crash_key(spec, facts, err):
    sig = err[0]
    pkg = spec["package"]
    if sig.startswith("RecursionError") and any(
            me["input"].lstrip(".") in facts.msgs and facts.has_request_cycle(me["input"].lstrip(".")) for _, _, me in methods_of(spec)):
        return "generation-crash:RecursionError:required-field-cycle"
    if sig.startswith("KeyError") and any(fs["package"] != pkg for fs, _, _ in methods_of(spec)):
        return "generation-crash:KeyError:service-in-subpackage"
    return "generation-crash:" + sig


def t2_function_level(ctx, spec, files, facts, api, opts):
    """real functions vs the Lean model on this API"""
    from gapic.samplegen import samplegen
    from gapic.samplegen_utils import types as stypes
    grpc, rest = transports_of(spec)
    payload = {"spec": spec}
    # ---- generate_sample_specs
    svcs = [{"name": ss["name"], "shortname": host_shortname(ss.get("host", "lib.example.com")),
             "rpcs": [{"name": me["name"], "internal": sel_status(spec, ss, me) == "internal"} for me in ss["methods"]
                      if sel_status(spec, ss, me) != "omitted"]}
            for fs in spec["files"] for ss in fs.get("services", [])]
    ops = [{"op": "c14.specs", "version": api_version(spec["package"]), "grpc": grpc, "rest": rest, "services": svcs}]
    metas = [("specs", None)]
    # ---- CallingForm.method_default / generate_request_object / transformation
    for fs, ss, me in methods_of(spec):
        ops.append({"op": "c14.form", "lro": bool(me.get("lro")), "paged": expected_form(me, facts) == "RequestPagedAll",
                    "cs": bool(me.get("cs")), "ss": bool(me.get("ss"))})
        metas.append(("form", (fs, ss, me)))
        root = me["input"].lstrip(".")
        ops.append({"op": "c14.request", "env": facts.env_for(root), "message": root, "fuel": FUEL})
        metas.append(("request", (fs, ss, me)))
    model = ctx.driver.ask(ops)
    out = {}
    for (kind, who), mo in zip(metas, model):
        if "unsupported" in mo:
            ctx.unsupported += 1
            continue
        if kind == "specs":
            try:
                real = sorted((s["service"].rsplit(".", 1)[1], s["rpc"], s["transport"], s["region_tag"])
                              for s in samplegen.generate_sample_specs(api, opts=opts))
            except BaseException as e:  # noqa
                real = f"raised {type(e).__name__}"
            mod = sorted((s["service"], s["rpc"], s["transport"], s["region_tag"]) for s in mo["specs"])
            ctx.traces += 1
            if real != mod and not (isinstance(real, str) and any(fs["package"] != spec["package"] for fs, _, _ in methods_of(spec))):
                ctx.disagree("T2:c14.generate_sample_specs", f"model {mod[:3]}… vs impl {real[:3] if not isinstance(real, str) else real}…", payload)
            out["specs"] = mo["specs"]
            continue
        fs, ss, me = who
        svc = api.services.get(f"{fs['package']}.{ss['name']}")
        method = svc.methods.get(me["name"]) if svc else None
        if method is None:
            continue
        if kind == "form":
            real = stypes.CallingForm.method_default(method).name
            ctx.traces += 1
            if real != mo["form"]:
                ctx.disagree("T2:c14.method_default", f"{me['name']}: model {mo['form']} vs impl {real}", {**payload, "method": me["name"]})
            if real != expected_form(me, facts):
                ctx.fail("calling-form", f"{me['name']}: calling form {real}, the statement's reading of the RPC says {expected_form(me, facts)}",
                         {**payload, "method": me["name"]})
            out[("form", ss["name"], me["name"])] = real
        else:
            try:
                entries = samplegen.generate_request_object(api, svc, method.input)
                real = [[e["field"], canon_py(e["value"])] for e in entries]
            except RecursionError:
                entries, real = None, "recursion"
            except BaseException as e:  # noqa
                entries, real = None, f"raised {type(e).__name__}: {e}"[:200]
            if "error" in mo:
                mod = mo["error"]
            else:
                mod = [[e["field"], canon_py(model_value(e["value"]))] for e in mo["entries"]]
            ctx.traces += 1
            if real != mod:
                ctx.disagree("T2:c14.generate_request_object", f"{me['name']}: model {str(mod)[:200]} vs impl {str(real)[:200]}",
                             {**payload, "method": me["name"]})
            out[("request", ss["name"], me["name"])] = mo
            if entries is not None and "entries" in mo and isinstance(mo.get("transformed"), list):
                try:
                    v = samplegen.Validator(method, api)
                    full = v.validate_and_transform_request(stypes.CallingForm.method_default(method), copy.deepcopy(entries))
                    realt = []
                    for t in full.request_list:
                        if t.single is not None:
                            realt.append({"base": t.base, "single": canon_py(t.single.value)})
                        else:
                            realt.append({"base": t.base, "body": [[a.field, canon_py(a.value)] for a in t.body]})
                except BaseException as e:  # noqa
                    realt = f"raised {type(e).__name__}: {e}"[:200]
                modt = []
                for t in mo["transformed"]:
                    if "single" in t:
                        modt.append({"base": t["base"], "single": canon_py(quoted(model_value(t["single"])))})
                    else:
                        modt.append({"base": t["base"], "body": [[f, canon_py(quoted(model_value(v_)))] for f, v_ in t["body"]]})
                ctx.traces += 1
                if realt != modt:
                    ctx.disagree("T2:c14.validate_and_transform_request", f"{me['name']}: model {str(modt)[:200]} vs impl {str(realt)[:200]}",
                                 {**payload, "method": me["name"]})
    return out


SEG_NAMES = ["FULL", "SHORT", "CLIENT_INITIALIZATION", "REQUEST_INITIALIZATION", "REQUEST_EXECUTION", "RESPONSE_HANDLING"]


def real_segments(text):
    from gapic.samplegen_utils import snippet_index, snippet_metadata_pb2
    sn = snippet_index.Snippet(text, snippet_metadata_pb2.Snippet())
    return [[s.start, s.end] for s in sn.metadata.segments], sn.full_snippet, sn.sample_lines


def t2_segments(ctx, texts, label):
    """Snippet._parse_snippet_segments / full_snippet vs the model on given texts"""
    ops, reals = [], []
    for t in texts:
        try:
            segs, full, lines = real_segments(t)
        except BaseException as e:  # noqa
            ctx.disagree("T2:c14.parse_snippet_segments", f"real function raised {type(e).__name__}: {e}", {"text": t})
            continue
        ops.append({"op": "c14.segments", "lines": lines})
        reals.append((t, segs, full))
    for (t, segs, full), mo in zip(reals, ctx.driver.ask(ops)):
        ctx.traces += 1
        if mo.get("segments") != segs or mo.get("full") != full:
            ctx.disagree("T2:c14.parse_snippet_segments", f"[{label}] model {mo.get('segments')} vs impl {segs}; full equal: {mo.get('full') == full}",
                         {"text": t})


def t2_raw_renders(ctx, spec, api, opts, out_files, entries, payload):
    """re-render every autogenerated spec with the real generate_sample (the statements of
    Generator._generate_samples_and_manifest), then: real fix_whitespace(raw) == emitted file; the machine-translated
    fix_whitespace (driver op `fn`) == emitted file; model segments on the RAW lines == emitted metadata; line kinds
    of raw and emitted agree (the hypothesis of `segments_depend_only_on_kinds`)."""
    from gapic.samplegen import samplegen
    from gapic.generator import generator as gmod, formatter
    import gapic.utils as gu
    try:
        g = gmod.Generator(opts)
        tname = next(t for t in g._env.loader.list_templates() if os.path.basename(t) == samplegen.DEFAULT_TEMPLATE_NAME)
        template = g._env.get_template(tname)
        specs = list(samplegen.generate_sample_specs(api, opts=opts))
    except BaseException as e:  # noqa
        ctx.disagree("T2:c14.raw-render", f"could not set up re-rendering: {type(e).__name__}: {e}", payload)
        return
    by_tag = {e.get("regionTag"): e for e in entries}
    ops, metas = [], []
    for sp in specs:
        sp = dict(sp)
        sp["id"] = sp["region_tag"]
        e = by_tag.get(sp["region_tag"])
        path = f"{SDIR}/{gu.to_snake_case(sp['id'])}.py"
        if e is None or path not in out_files:
            continue
        try:
            raw, _ = samplegen.generate_sample(sp, api, template)
        except BaseException as ex:  # noqa
            ctx.disagree("T2:c14.raw-render", f"{sp['region_tag']}: generate_sample raised {type(ex).__name__}: {ex}", payload)
            continue
        emitted = out_files[path]
        if formatter.fix_whitespace(raw) != emitted:
            ctx.disagree("T2:c14.raw-render", f"{sp['region_tag']}: fix_whitespace(re-rendered sample) is not the emitted file", payload)
            continue
        ops += [{"op": "fn", "name": "fix_whitespace", "args": [raw]},
                {"op": "c14.segments", "lines": raw.splitlines(keepends=True)},
                {"op": "c14.segments", "lines": emitted.splitlines(keepends=True)}]
        metas.append((sp, e, emitted))
    res = ctx.driver.ask(ops)
    for k, (sp, e, emitted) in enumerate(metas):
        fw, sraw, semit = res[3 * k], res[3 * k + 1], res[3 * k + 2]
        pl = {**payload, "file": e.get("file")}
        ctx.traces += 3
        if fw.get("r") != emitted:
            ctx.disagree("T2:c14.fix_whitespace-on-sample", f"{e.get('file')}: translated fix_whitespace(raw) differs from the emitted file", pl)
        segs = {s_.get("type"): [s_.get("start", 0), s_.get("end", 0)] for s_ in e.get("segments", [])}
        impl = [segs.get(n, [0, 0]) for n in SEG_NAMES]
        if sraw.get("segments") != impl:
            ctx.disagree("T2:c14.segments-on-raw-render", f"{e.get('file')}: model on the raw render {sraw.get('segments')} vs metadata {impl}", pl)
        kr = [x for x in sraw.get("kinds", []) if x != "other"]
        ke = [x for x in semit.get("kinds", []) if x != "other"]
        if sraw.get("kinds") != semit.get("kinds"):
            ctx.count("raw_vs_emitted", "line kinds differ" if kr == ke else "marker kinds differ")
            ctx.disagree("T3:c14.raw-vs-emitted-kinds", f"{e.get('file')}: fix_whitespace changed the line structure of the sample "
                         f"({len(sraw.get('kinds', []))} raw lines, {len(semit.get('kinds', []))} emitted): the metadata's line numbers "
                         f"are those of the raw render", pl)
        else:
            ctx.count("raw_vs_emitted", "same line kinds")


def t2_snippet_index(ctx, r, api, entries, out_files, payload):
    """real SnippetIndex.add_snippet / get_snippet (what the client templates call to embed a sample in a docstring) vs the
    model: the emitted metadata entries are added as real Snippet objects in a random order, then every (service, rpc,
    flavour) slot — and a slot that does not exist — is read back; observable = the region tag of the snippet returned"""
    from gapic.samplegen_utils import snippet_index, snippet_metadata_pb2
    from google.protobuf import json_format
    snips = []
    for e in entries:
        text = out_files.get(f"{SDIR}/{e.get('file')}")
        if text is None:
            continue
        try:
            md = json_format.ParseDict({k: v for k, v in e.items() if k != "segments"}, snippet_metadata_pb2.Snippet())
            snips.append((e, snippet_index.Snippet(text, md)))
        except BaseException as ex:  # noqa
            ctx.disagree("T2:c14.snippet-index", f"could not rebuild the Snippet of {e.get('file')}: {type(ex).__name__}: {ex}", payload)
            return
    r.shuffle(snips)
    keys = [[svc.name, m] for svc in api.services.values() for m in svc.methods]
    queries = [[k[0], k[1], sy] for k in keys for sy in (True, False)] + [[keys[0][0] if keys else "X", "NoSuchRpc", True], ["NoSuchService", "Get", False]]
    try:
        idx = snippet_index.SnippetIndex(api)
        for _, sn in snips:
            idx.add_snippet(sn)
    except BaseException as ex:  # noqa
        real = {"error": type(ex).__name__}
    else:
        out = []
        for svc, rp, sy in queries:
            try:
                got = idx.get_snippet(svc, rp, sync=sy)
                out.append(got.metadata.region_tag if got is not None else None)
            except BaseException as ex:  # noqa
                out.append(type(ex).__name__)
        real = {"results": out}
    mo = ctx.driver.ask([{"op": "c14.index", "keys": keys, "queries": queries, "snippets": [
        {"service": e.get("clientMethod", {}).get("method", {}).get("service", {}).get("shortName", ""),
         "rpc": e.get("clientMethod", {}).get("method", {}).get("shortName", ""),
         "async": bool(e.get("clientMethod", {}).get("async")), "tag": e.get("regionTag", "")} for e, _ in snips]}])[0]
    ctx.traces += 1
    if {k: mo.get(k) for k in ("results", "error") if k in mo} != real:
        diff = next(((q, a, b) for q, a, b in zip(queries, mo.get("results") or [], real.get("results") or []) if a != b), None)
        ctx.disagree("T2:c14.snippet-index", f"get_snippet after add_snippet: first difference (query, model, impl) = {diff}; "
                     f"model error {mo.get('error')}, impl error {real.get('error')}", payload)


WS = [" ", "\t", " ", " ", "\x1f", "  ", "    "]


def mutate_sample(r, text):
    """structure-preserving and structure-breaking edits of a sample's line list (T2 input for the segment parser)"""
    lines = text.split("\n")
    for _ in range(r.randint(1, 4)):
        k = r.pick(["drop", "dup", "swap", "ws", "noindent", "extra_start", "extra_end", "prefix", "suffix", "insert_marker", "crlf"])
        idx = [i for i, l in enumerate(lines) if l.lstrip().startswith("# ")]
        if not idx:
            break
        i = r.pick(idx)
        if k == "drop":
            del lines[i]
        elif k == "dup":
            lines.insert(r.randrange(len(lines) + 1), lines[i])
        elif k == "swap":
            j = r.pick(idx)
            lines[i], lines[j] = lines[j], lines[i]
        elif k == "ws":
            lines[i] = r.pick(WS) + lines[i].lstrip()
        elif k == "noindent":
            lines[i] = lines[i].lstrip()
        elif k == "extra_start":
            lines.insert(r.randrange(len(lines) + 1), "# [START extra_tag]")
        elif k == "extra_end":
            lines.insert(r.randrange(len(lines) + 1), "# [END extra_tag]")
        elif k == "prefix":
            lines[i] = "x" + lines[i]
        elif k == "suffix":
            lines[i] = lines[i] + r.pick([" now", "s", "\t", " (again)"])
        elif k == "insert_marker":
            lines.insert(r.randrange(len(lines) + 1), r.pick(WS) + r.pick(
                ["# Create a client", "# Initialize request argument(s)", "# Make the request", "# Handle the response",
                 "# Initialize request arguments", "#Make the request", "# make the request"]))
        elif k == "crlf":
            lines[i] = lines[i] + "\r"
    return "\n".join(lines)


def lro_reply(response_type):
    from google.longrunning import operations_pb2
    op = operations_pb2.Operation(name="operations/verif-1", done=True)
    op.response.type_url = "type.googleapis.com/" + response_type
    op.response.value = b""
    return base64.b64encode(op.SerializeToString()).decode()


def self_populating(facts, fd):
    """a message-typed field whose message has required fields / oneofs of its own to populate"""
    return fd.type in (10, 11) and not facts.is_map(fd) and facts.default_nonempty(fd.type_name.lstrip("."))


def check_present(facts, full, dyn, path=""):
    """oracle: required fields and one member of each real oneof are populated in the decoded request `dyn`
    (a dynamic message under the INPUT descriptors); returns [(key, description)]"""
    out = []
    m = facts.msgs[full]
    firsts, required = facts.request_fields(full)
    for fd in required:
        val = getattr(dyn, fd.name)
        if fd.label == 3:
            ok = len(val) > 0
        elif fd.type in (10, 11) or fd.proto3_optional:
            ok = dyn.HasField(fd.name)
        else:
            ok = val != type(val)()
        if not ok:
            if fd.type in (10, 11) and self_populating(facts, fd):
                # the field's message has required content of its own, so default request construction is said to build it
                # (model: request_has_every_required_path); e.g. the second field of one message type in a request
                key = "required-field-unpopulated"
            elif fd.type in (10, 11):
                key = "required-message-field-unset"        # known finding: a message without required content of its own
            elif fd.proto3_optional:
                key = "required-proto3-optional-unset"      # regression key (fixed by 1704548)
            else:
                key = "required-field-unset"
            out.append((key, f"required field {path}{fd.name} of {full} is not populated"))
        elif fd.type in (10, 11) and fd.label != 3:
            out += check_present(facts, fd.type_name.lstrip("."), val, path + fd.name + ".")
    seen = set()
    for fd in m.field:
        o = facts.oneof_name(m, fd)
        if o is None or fd.proto3_optional or o in seen:
            continue
        seen.add(o)
        which = dyn.WhichOneof(o)
        if which is None:
            key = "oneof-first-member-message-unset" if (fd.type in (10, 11) and not self_populating(facts, fd)) else "oneof-unset"
            out.append((key, f"no member of oneof {path}{o} of {full} is populated"))
        else:
            sub = m.field[[x.name for x in m.field].index(which)]
            if sub.type in (10, 11):
                out += check_present(facts, sub.type_name.lstrip("."), getattr(dyn, which), path + which + ".")
    return out


def sample_assigned_paths(text):
    """what the emitted sample assigns, read off its AST: the keyword arguments of the (last) `request = T(...)`
    constructor and the `var.a.b = …` assignments of the variables passed to it; returns a set of field paths"""
    import ast
    tree = ast.parse(text)
    fn = next((n for n in ast.walk(tree) if isinstance(n, (ast.FunctionDef, ast.AsyncFunctionDef)) and n.name.startswith("sample_")), None)
    if fn is None:
        return None
    attr_paths, ctor = {}, None
    for st in fn.body:
        if not isinstance(st, ast.Assign) or len(st.targets) != 1:
            continue
        tgt = st.targets[0]
        if isinstance(tgt, ast.Name) and tgt.id == "request" and isinstance(st.value, ast.Call) and \
                (st.value.keywords or not st.value.args):
            ctor = (st.value, {k: set(v) for k, v in attr_paths.items()})
            if not st.value.keywords:
                attr_paths.pop("request", None)      # `request = T()` starts a fresh variable
            continue
        if isinstance(tgt, ast.Name) and isinstance(st.value, ast.Call):
            attr_paths[tgt.id] = set()
            continue
        chain, node = [], tgt
        while isinstance(node, ast.Attribute):
            chain.append(node.attr)
            node = node.value
        if chain and isinstance(node, ast.Name):
            attr_paths.setdefault(node.id, set()).add(tuple(reversed(chain)))
    if ctor is None:
        return None
    call, seen_attrs = ctor
    paths = set()
    for kw in call.keywords:
        if kw.arg is None:
            continue
        paths.add((kw.arg,))
        if isinstance(kw.value, ast.Name):
            for sub in seen_attrs.get(kw.value.id, ()):
                paths.add((kw.arg,) + sub)
    return paths


def sample_called_methods(text):
    """names of the methods the sample calls on its `client` variable (AST)"""
    import ast
    try:
        tree = ast.parse(text)
    except SyntaxError:
        return None
    return [n.func.attr for n in ast.walk(tree) if isinstance(n, ast.Call) and isinstance(n.func, ast.Attribute)
            and isinstance(n.func.value, ast.Name) and n.func.value.id == "client"]


STREAM_WRAPPERS = {"Iterable", "AsyncIterable", "Iterator", "AsyncIterator", "Generator", "AsyncGenerator"}


def type_shape(s):
    """a metadata type string -> (generic wrappers outermost first, innermost name): "Iterable[a.b.C]" -> (["Iterable"], "a.b.C")"""
    wrappers, inner = [], (s or "").strip()
    while "[" in inner and inner.endswith("]"):
        wrappers.append(inner[:inner.index("[")].strip())
        inner = inner[inner.index("[") + 1:-1].strip()
    return wrappers, inner


def is_stream_type(s):
    return any(w.rsplit(".", 1)[-1] in STREAM_WRAPPERS for w in type_shape(s)[0])


def sample_call_shape(text):
    """how the sample uses its client call (AST): {"keywords": the keyword names passed to client.<m>(…),
    "iterates": the value of the call (awaited or not) is the iterable of a for / async for loop,
    "async_for": that loop is an `async for`, "awaited": the call is awaited}; None when there is not exactly one call"""
    import ast
    try:
        tree = ast.parse(text)
    except SyntaxError:
        return None
    calls = [n for n in ast.walk(tree) if isinstance(n, ast.Call) and isinstance(n.func, ast.Attribute)
             and isinstance(n.func.value, ast.Name) and n.func.value.id == "client"]
    if len(calls) != 1:
        return None
    call = calls[0]

    def is_call_value(v):
        return v is call or (isinstance(v, ast.Await) and v.value is call)
    awaited = any(isinstance(n, ast.Await) and n.value is call for n in ast.walk(tree))
    var = None
    for n in ast.walk(tree):
        if isinstance(n, ast.Assign) and len(n.targets) == 1 and isinstance(n.targets[0], ast.Name) and is_call_value(n.value):
            var = n.targets[0].id
    iterates, async_for = False, False
    for n in ast.walk(tree):
        if isinstance(n, (ast.For, ast.AsyncFor)):
            it = n.iter
            if is_call_value(it) or (var is not None and isinstance(it, ast.Name) and it.id == var) or \
                    (var is not None and isinstance(it, ast.Await) and isinstance(it.value, ast.Name) and it.value.id == var):
                iterates, async_for = True, isinstance(n, ast.AsyncFor)
    return {"keywords": [k.arg for k in call.keywords], "iterates": iterates, "async_for": async_for, "awaited": awaited}


def oneof_member_counts(facts, full, paths, where=""):
    """[(oneof path, [members assigned])] for every REAL oneof of every message the assigned paths touch"""
    out = []
    m = facts.msgs.get(full)
    if m is None:
        return out
    first = {p[0] for p in paths if p}
    groups = {}
    for fd in m.field:
        o = facts.oneof_name(m, fd)
        if o is not None and not fd.proto3_optional:
            groups.setdefault(o, []).append(fd.name)
    for o, members in groups.items():
        out.append((where + o, [n for n in members if n in first]))
    for fd in m.field:
        if fd.type in (10, 11) and fd.label != 3 and fd.name in first:
            sub = {p[1:] for p in paths if p and p[0] == fd.name and len(p) > 1}
            if sub:
                out += oneof_member_counts(facts, fd.type_name.lstrip("."), sub, where + fd.name + ".")
    return out


def entries_to_dict(entries):
    d = {}
    for e in entries:
        cur = d
        parts = e["field"].split(".")
        for p in parts[:-1]:
            cur = cur.setdefault(p, {})
        cur[parts[-1]] = model_value(e["value"])
    return d


def set_from_dict(dyn, d):
    """fill a dynamic message from the model's nested python values (the way proto-plus would accept them)"""
    for k, v in d.items():
        fd = dyn.DESCRIPTOR.fields_by_name[k]
        if isinstance(v, dict):
            set_from_dict(getattr(dyn, k), v)
            getattr(dyn, k).SetInParent()
        elif fd.label == fd.LABEL_REPEATED:
            for x in v:
                getattr(dyn, k).append(fd.enum_type.values_by_name[x].number if fd.enum_type is not None else x)
        elif fd.enum_type is not None:
            setattr(dyn, k, fd.enum_type.values_by_name[v].number)
        else:
            setattr(dyn, k, v)


def run_api(ctx, r, spec, label):
    payload = {"spec": spec}
    files = build_files(spec)
    facts = Facts(files)
    grpc, rest = transports_of(spec)
    pkg = spec["package"]
    version = api_version(pkg)
    ctx.count("transport", spec.get("params", ""))
    sel = spec.get("selective")
    ctx.count("selective_generation", "none" if not sel else ("omitted as internal" if sel.get("internal") else "omitted"))
    yaml_path = None
    try:
        params = spec.get("params", "")
        if sel:
            import tempfile
            fd, yaml_path = tempfile.mkstemp(prefix="c14_", suffix=".yaml", dir=genrun.SCRATCH)
            with os.fdopen(fd, "w") as fh:
                json.dump(selective_yaml(spec), fh)        # JSON is YAML
            params += f",service-yaml={yaml_path}"
        req = apigen.request(files, params)
        api, opts, res, err = generate(req)
    finally:
        if yaml_path:
            try:
                os.unlink(yaml_path)
            except OSError:
                pass
    if api is None:
        ctx.fail("schema-build-crash:" + err[0], f"API.build raised {err[0]}: {err[1]}", payload)
        return
    model = t2_function_level(ctx, spec, files, facts, api, opts)
    if err:
        ctx.fail(crash_key(spec, facts, err), f"generator raised {err[0]}: {err[1]}", payload)
        for _ in methods_of(spec):
            ctx.case({"api": label, "outcome": "generation-crash"}, distinct_key=[label, "crash", json.dumps(spec, sort_keys=True)[:200]])
        return
    out_files = {f.name: f.content for f in res.file}
    # ---------------- metadata
    mpaths = [n for n in out_files if n.startswith(SDIR + "/snippet_metadata_") and n.endswith(".json")]
    if len(mpaths) != 1:
        ctx.fail("metadata-file", f"{len(mpaths)} snippet metadata files emitted", payload)
        return
    try:
        md = json.loads(out_files[mpaths[0]])
    except ValueError as e:
        ctx.fail("metadata-json", f"snippet metadata is not JSON: {e}", payload)
        return
    entries = md.get("snippets", [])
    by_key = {}
    for e in entries:
        cm = e.get("clientMethod", {})
        k = (cm.get("method", {}).get("service", {}).get("shortName"), cm.get("method", {}).get("shortName"), bool(cm.get("async")))
        by_key.setdefault(k, []).append(e)
    # ---------------- oracle 1: one sync (+ one async iff grpc) per RPC, tag format, uniqueness
    want = {}
    for fs, ss, me in emitted_methods(spec):
        for asy in ([False, True] if grpc else ([False] if rest else [])):
            tag = f"{host_shortname(ss.get('host', 'lib.example.com'))}_{version}_generated_{ss['name']}_{me['name']}_{'async' if asy else 'sync'}"
            if sel_status(spec, ss, me) == "internal":
                tag += "_internal"
            want[(ss["name"], me["name"], asy)] = tag
    tag_count = {}
    for t in want.values():
        tag_count[t] = tag_count.get(t, 0) + 1
    collide = {t for t, n in tag_count.items() if n > 1}
    for k, tag in want.items():
        got = by_key.get(k, [])
        if len(got) != 1:
            ctx.fail("sample-count", f"{len(got)} metadata entries for {k[0]}.{k[1]} ({'async' if k[2] else 'sync'}), expected 1",
                     {**payload, "method": k[1]})
            continue
        if got[0].get("regionTag") != tag:
            ctx.fail("region-tag-format", f"region tag {got[0].get('regionTag')!r}, expected {tag!r}", {**payload, "method": k[1]})
    for k in by_key:
        if k not in want:
            ctx.fail("sample-count", f"unexpected sample {k}", payload)
    tags = [e.get("regionTag") for e in entries]
    dup = sorted({t for t in tags if tags.count(t) > 1})
    if dup:
        ctx.fail("region-tag-collision" if set(dup) <= collide else "region-tag-duplicate",
                 f"region tags not unique: {dup[:3]}", payload)
    # ---------------- T3 correspondence: specs
    if "specs" in model:
        mod = sorted((s["service"], s["rpc"], s["transport"] == "grpc-async", s["region_tag"]) for s in model["specs"])
        impl = sorted((k[0], k[1], k[2], e.get("regionTag")) for k, es in by_key.items() for e in es)
        ctx.traces += 1
        if mod != impl:
            ctx.disagree("T3:c14.specs-vs-metadata", f"model {len(mod)} specs vs {len(impl)} metadata entries; first difference "
                         f"{next(((a, b) for a, b in zip(mod, impl) if a != b), None)}", payload)
    # ---------------- T2: the snippet index the docstrings are filled from
    if not collide:
        t2_snippet_index(ctx, r, api, entries, out_files, payload)
    # ---------------- per sample: file, tags, compile, segments
    samples, plan = [], []
    seg_ops, seg_meta = [], []
    method_by = {(ss["name"], me["name"]): (fs, ss, me) for fs, ss, me in emitted_methods(spec)}
    for k, es in sorted(by_key.items(), key=lambda kv: (str(kv[0][0]), str(kv[0][1]), kv[0][2])):
        if k not in want:
            continue
        fs, ss, me = method_by[(k[0], k[1])]
        form = expected_form(me, facts)
        for e in es:
            pl = {**payload, "method": me["name"], "service": ss["name"], "async": k[2], "file": e.get("file")}
            ctx.case({"api": label, "rpc": me["name"], "form": form, "async": k[2], "twist": me.get("twist")},
                     distinct_key=[json.dumps(spec, sort_keys=True), ss["name"], me["name"], k[2], e.get("file")])
            ctx.count("calling_form", form + (":async" if k[2] else ":sync"))
            if me["input"].lstrip(".") in facts.msgs:
                ctx.count("request_tree", "a message type with required content is built twice or more"
                          if facts.repeated_request_types(me["input"].lstrip(".")) else "every such type built at most once")
            if me.get("twist"):
                ctx.count("twist", me["twist"])
            path = f"{SDIR}/{e.get('file')}"
            text = out_files.get(path)
            if text is None:
                ctx.fail("sample-file-missing", f"metadata names {e.get('file')!r}, which is not in the response", pl)
                continue
            if e.get("title") != e.get("file"):
                ctx.fail("metadata-title", f"title {e.get('title')!r} != file {e.get('file')!r}", pl)
            lines = text.splitlines(keepends=True)
            tag = e.get("regionTag")
            starts = [i for i, l in enumerate(lines, 1) if l.startswith("# [START")]
            ends = [i for i, l in enumerate(lines, 1) if l.startswith("# [END")]
            tags_ok = (len(starts) == 1 and len(ends) == 1 and starts[0] < ends[0]
                       and lines[starts[0] - 1].strip() == f"# [START {tag}]" and lines[ends[0] - 1].strip() == f"# [END {tag}]")
            if not tags_ok:
                ctx.fail("region-tag-collision" if tag in collide else "file-tags",
                         f"{e.get('file')}: START/END lines {[lines[i - 1].strip() for i in starts + ends]} do not carry the metadata's region tag {tag!r}", pl)
            # segments (oracle): FULL = strictly between the tags; the inner ones start at their marker comment,
            # are consecutive and lie inside the file
            segs = {s.get("type"): (s.get("start", 0), s.get("end", 0)) for s in e.get("segments", [])}
            void = is_void(me)
            if len(starts) == 1 and len(ends) == 1:
                if segs.get("FULL") != (starts[0] + 1, ends[0] - 1):
                    ctx.fail("segment-full", f"{e.get('file')}: FULL {segs.get('FULL')} but the tags are on lines {starts[0]}, {ends[0]}", pl)
                if segs.get("SHORT") != segs.get("FULL"):
                    ctx.fail("segment-short", f"{e.get('file')}: SHORT {segs.get('SHORT')} != FULL {segs.get('FULL')}", pl)
            markers = [("CLIENT_INITIALIZATION", "# Create a client"), ("REQUEST_INITIALIZATION", "# Initialize request argument(s)"),
                       ("REQUEST_EXECUTION", "# Make the request"), ("RESPONSE_HANDLING", "# Handle the response")]
            bad = []
            prev_end = None
            has_handle = any(l.strip() == "# Handle the response" for l in lines)
            for name, comment in markers:
                if name == "RESPONSE_HANDLING" and not has_handle and name not in segs:
                    continue        # nothing to describe: a sample without response handling may omit the segment
                st, en = segs.get(name, (0, 0))
                if not (1 <= st <= en <= len(lines)):
                    bad.append(f"{name} [{st},{en}] is not a line range of the {len(lines)}-line file")
                    prev_end = None
                    continue
                if lines[st - 1].strip() != comment:
                    bad.append(f"{name} starts at line {st} = {lines[st - 1].strip()!r}")
                if prev_end is not None and st != prev_end + 1:
                    bad.append(f"{name} starts at {st}, previous segment ends at {prev_end}")
                prev_end = en
            if bad:
                only_void = (not has_handle and void and all(b.startswith(("REQUEST_EXECUTION", "RESPONSE_HANDLING")) for b in bad))
                ctx.fail("void-sample-segments" if only_void else "segments", f"{e.get('file')}: " + "; ".join(bad), pl)
            seg_ops.append({"op": "c14.segments", "lines": lines})
            seg_meta.append((e, pl, segs, lines, starts, ends, me))
            # compile
            try:
                compile(text, e.get("file"), "exec")
            except SyntaxError as ex:
                sn = snake(me["name"])
                if keyword.iskeyword(sn):
                    key = "sample-syntax-error:keyword-rpc-name"
                elif me.get("ss") and me["output"] == ".google.protobuf.Empty":
                    key = "sample-syntax-error:server-streaming-empty"
                else:
                    key = "sample-syntax-error"
                ctx.fail(key, f"{e.get('file')} does not compile: {ex.msg} (line {ex.lineno})", pl)
                continue
            # oracle: the request set-up of the sample assigns at most ONE member of each real oneof (model-independent)
            root_in = me["input"].lstrip(".")
            try:
                assigned = sample_assigned_paths(text)
            except SyntaxError:
                assigned = None
            if assigned is not None and root_in in facts.msgs:
                for opath, members in oneof_member_counts(facts, root_in, assigned):
                    ctx.count("oneof_members_assigned", len(members))
                    if len(members) > 1:
                        ctx.fail(f"oneof-members-populated:{len(members)}",
                                 f"{e.get('file')}: the sample assigns {len(members)} members {members} of oneof {opath} of {root_in}", pl)
            called = sample_called_methods(text)
            if called != [e.get("clientMethod", {}).get("shortName")]:
                ctx.fail("sample-calls-other-method", f"{e.get('file')}: the sample calls client.{called}, the metadata names "
                         f"{e.get('clientMethod', {}).get('shortName')!r}", pl)
            fnames = re.findall(r"^(?:async )?def (sample_\w+)\(", text, re.M)
            if len(fnames) != 1:
                ctx.fail("sample-function", f"{e.get('file')}: sample functions {fnames}", pl)
                continue
            s = {"file": e.get("file"), "function": fnames[0]}
            path_rpc = f"/{fs['package']}.{ss['name']}/{me['name']}"
            if me.get("lro"):
                s["script"] = {path_rpc: [{"replies": [lro_reply(me["lro"][0])]}] * 3}
                s["rest_script"] = [{"body": json.dumps({"name": "operations/verif-1", "done": True,
                                                         "response": {"@type": "type.googleapis.com/" + me["lro"][0]}})}]
            elif me.get("ss"):
                s["rest_script"] = [{"body": "[{}]"}]
            else:
                s["rest_script"] = [{"body": "{}"}]
            samples.append(s)
            plan.append((e, pl, fs, ss, me, k[2], form, path_rpc))
    # ---------------- T3 correspondence: segments / full snippet (model on the emitted file vs emitted metadata)
    fulls = {}
    if seg_ops:
        for (e, pl, segs, lines, starts, ends, me), mo in zip(seg_meta, ctx.driver.ask(seg_ops)):
            ctx.traces += 1
            impl = [list(segs.get(n, (0, 0))) for n in SEG_NAMES]
            if mo.get("segments") != impl:
                ctx.disagree("T3:c14.segments-vs-metadata", f"{e.get('file')}: model on the emitted file {mo.get('segments')} vs metadata {impl}", pl)
            fulls[e.get("file")] = mo.get("full")
            if len(starts) == 1 and len(ends) == 1 and starts[0] < ends[0]:
                between = "".join(lines[starts[0]:ends[0] - 1])
                if mo.get("full") != between:
                    ctx.disagree("T3:c14.full-snippet", f"{e.get('file')}: model full snippet differs from the text between the tags", pl)
    # ---------------- T3 correspondence: ids, file / function / method names, parameter names (model ops c14.names, c14.params)
    if seg_meta:
        all_tags = sorted(want.values())
        nops = []
        for (e, pl, segs, lines, starts, ends, me) in seg_meta:
            tag = e.get("regionTag") or ""
            m = re.match(r"# \[START (.*)\]\s*$", lines[starts[0] - 1]) if len(starts) == 1 else None
            ftag = m.group(1) if m else None
            h = ftag[len(tag) + 1:] if ftag and ftag.startswith(tag + "_") else ""
            nops.append({"op": "c14.names", "tags": all_tags, "tag": tag, "hash": h, "rpc": me["name"],
                         "internal": sel_status(spec, method_by[(pl["service"], me["name"])][1], me) == "internal"})
            flat = me["sigs"][0].split(",") if me.get("sigs") and not me.get("cs") else []
            nops.append({"op": "c14.params", "cs": bool(me.get("cs")), "input_type": "T", "flattened": [],
                         "sig": [[n.split("."), "t"] for n in flat]})
            if flat:
                ctx.count("method_signature", "dotted path (%d levels)" % max(n.count(".") for n in flat) if any("." in n for n in flat) else "top-level fields only")
            # result type: the model decides presence and wrapping from the RPC's shape in the INPUT descriptors; the element
            # type string (naming: C11's subject) is taken from the entry itself
            rt = e.get("clientMethod", {}).get("resultType")
            nops.append({"op": "c14.result", "void": is_void(me), "ss": bool(me.get("ss")), "cs": bool(me.get("cs")),
                         "lro": bool(me.get("lro")), "paged": expected_form(me, facts) == "RequestPagedAll",
                         "out_type": type_shape(rt)[1] if rt else "T"})
        nres = ctx.driver.ask(nops)
        for k, (e, pl, segs, lines, starts, ends, me) in enumerate(seg_meta):
            mo, mp, mr = nres[3 * k], nres[3 * k + 1], nres[3 * k + 2]
            ctx.traces += 1
            rt = e.get("clientMethod", {}).get("resultType") or None
            if mr.get("result_type") != rt:
                ctx.disagree("T3:c14.result-type", f"{e.get('file')}: model result type {mr.get('result_type')!r} vs metadata {rt!r}", pl)
            if not is_void(me) and not me.get("lro") and expected_form(me, facts) != "RequestPagedAll" and \
                    mr.get("stream_shaped") != mr.get("yields_stream"):
                ctx.disagree("T3:c14.result-type", f"{e.get('file')}: model: stream-shaped result type {mr.get('stream_shaped')} but the "
                             f"calling form yields a stream: {mr.get('yields_stream')} (theorem metadata_result_type_stream_iff)", pl)
            text = "".join(lines)
            m = re.match(r"# \[START (.*)\]\s*$", lines[starts[0] - 1]) if len(starts) == 1 else None
            fn = re.findall(r"^(?:async )?def (sample_\w+)\(", text, re.M)
            called = sample_called_methods(text)
            impl = {"id": m.group(1) if m else None, "file": e.get("file"), "function": fn[0] if len(fn) == 1 else fn,
                    "metadata_method": e.get("clientMethod", {}).get("shortName")}
            mod = {k_: mo.get(k_) for k_ in impl}
            if called is not None:
                impl["called_method"] = called
                mod["called_method"] = [mo.get("called_method")]
            ctx.traces += 1
            if impl != mod:
                ctx.disagree("T3:c14.names", f"{e.get('file')}: model {mod} vs impl {impl}", pl)
            pn = [p.get("name") for p in e.get("clientMethod", {}).get("parameters", [])]
            ctx.traces += 1
            if [x[0] for x in mp.get("params", [])] != pn:
                ctx.disagree("T3:c14.params", f"{e.get('file')}: model parameter names {[x[0] for x in mp.get('params', [])]} vs metadata {pn}", pl)
    # ---------------- T2/T3: the raw render (what the metadata is computed on) vs the emitted file (= fix_whitespace(raw))
    if not collide:
        t2_raw_renders(ctx, spec, api, opts, out_files, entries, payload)
    # ---------------- materialise, run
    root = genrun.materialise(res)
    try:
        session = {"op": "sample_session", "samples": samples}
        if not grpc and rest:
            locs = [rpc.py_locations(api, api.services[f"{fs['package']}.{ss['name']}"]) for fs in spec["files"] for ss in fs.get("services", [])
                    if f"{fs['package']}.{ss['name']}" in api.services]
            session["rest"] = {"transports": [l["rest"] for l in locs]}
        items = []
        for (e, pl, fs, ss, me, asy, form, path_rpc) in plan:
            cm = e.get("clientMethod", {})
            items.append({"client": cm.get("client", {}).get("fullName", ""), "method": cm.get("shortName", ""),
                          "result_type": cm.get("resultType"),
                          "param_types": {p.get("name"): p.get("type") for p in cm.get("parameters", []) if p.get("name") in ("request", "requests")}})
        out = libhost.run(root, [session, {"op": "client_method_info", "items": items}], timeout=600)
    finally:
        genrun.cleanup(root)
    if "samples" not in out[0]:
        ctx.fail("session-failed", f"sample session failed: {str(out[0])[-500:]}", payload)
        return
    infos = out[1].get("items", [{}] * len(plan)) if isinstance(out[1], dict) else [{}] * len(plan)
    codec = rpc.Codec(files)
    for (e, pl, fs, ss, me, asy, form, path_rpc), sres, info in zip(plan, out[0]["samples"], infos):
        fname = e.get("file")
        root_msg = me["input"].lstrip(".")
        # ---- oracle 2: the sample function exists, is a coroutine function iff asyncio, runs to completion, and the call reaches the server
        if sres.get("ok"):
            if sres.get("is_coroutine_function") != asy:
                ctx.fail("sample-kind", f"{fname}: coroutine function = {sres.get('is_coroutine_function')}, metadata async = {asy}", pl)
            if sres.get("params"):
                ctx.fail("sample-params", f"{fname}: sample function takes parameters {sres['params']}", pl)
        else:
            msg = f"{sres.get('raised')}: {sres.get('msg')}"
            key = "sample-raises:" + str(sres.get("raised"))
            tw = me.get("twist")
            inp = facts.msgs.get(root_msg)
            if sres.get("raised") == "TypeError" and "'async for' requires an object with __aiter__" in str(sres.get("msg")) and asy and form == "RequestPagedAll":
                key = "async-paged-sample-not-awaited"
            elif sres.get("raised") == "TypeError" and "is not iterable" in str(sres.get("msg")) and inp is not None and any(
                    fd.label == 3 and fd.type == 11 and facts.required(fd) and not facts.is_map(fd) for fd in inp.field):
                key = "required-repeated-message-given-single"
            elif sres.get("raised") == "AttributeError" and "has no attribute" in str(sres.get("msg")) and inp is not None:
                body_types = [fd.type_name.lstrip(".") for fd in inp.field if fd.type == 11 and (facts.required(fd) or fd.HasField("oneof_index"))]
                if any(t in facts.nested for t in body_types):
                    key = "request-field-type-nested-message-name"
                elif any(not t.startswith(pkg + ".") for t in body_types):
                    key = "request-field-type-from-other-package"
            elif sres.get("raised") == "AttributeError" and "Unknown field for" in str(sres.get("msg")) and inp is not None and any(
                    fd.name == "client" and fd.type == 11 for fd in inp.field):
                key = "message-field-named-client-shadows-client"
            elif sres.get("raised") == "ValueError" and "Invalid request" in str(sres.get("msg")) and not grpc and me.get("http") and "{" in me["http"][1]:
                key = "rest-sample-rejected-by-transcode"
            ctx.fail(key, f"{fname}: sample_{snake(me['name'])} did not run to completion ({sres.get('phase')}): {msg}", pl)
        seen = [x for x in sres.get("server", []) if x["path"] == path_rpc]
        http_seen = sres.get("http", [])
        reached = bool(seen) or (not grpc and bool(http_seen))
        if sres.get("ok") and not reached:
            key = "async-client-streaming-call-never-made" if (asy and form == "RequestStreamingClient") else "no-call-reached-server"
            ctx.fail(key, f"{fname}: the sample returned but the server never received {path_rpc}", pl)
        # ---- oracle 3 + T3: the request on the wire
        if seen and seen[0]["requests"] and root_msg in facts.msgs:
            raw = base64.b64decode(seen[0]["requests"][0])
            dyn = codec.cls(root_msg)()
            dyn.ParseFromString(raw)
            probs = check_present(facts, root_msg, dyn)
            for key, what in probs:
                ctx.fail(key, f"{fname}: {what}", pl)
            mo = model.get(("request", ss["name"], me["name"]))
            if mo and "entries" in mo:
                exp = codec.cls(root_msg)()
                try:
                    set_from_dict(exp, entries_to_dict(mo["entries"]))
                    ctx.traces += 1
                    if exp.SerializeToString(deterministic=True) != dyn.SerializeToString(deterministic=True):
                        ctx.disagree("T3:c14.request-on-the-wire", f"{fname}: model default request {str(exp)[:200]!r} vs received {str(dyn)[:200]!r}", pl)
                except BaseException as ex:  # noqa
                    ctx.disagree("T3:c14.request-on-the-wire", f"{fname}: model entries not applicable to the input descriptors: {ex}", pl)
        # ---- oracle 4: metadata vs the imported client
        cm = e.get("clientMethod", {})
        client_short = cm.get("client", {}).get("shortName")
        bad = []
        if not info.get("client_ok"):
            bad.append(f"client {cm.get('client', {}).get('fullName')!r} is not an importable class ({info.get('error')})")
        else:
            if info.get("client_name") != client_short:
                bad.append(f"client shortName {client_short!r} but the class is {info.get('client_name')!r}")
            if not info.get("method_ok"):
                bad.append(f"client has no method {cm.get('shortName')!r}")
            else:
                inst = re.search(r"^\s+client = [\w.]+?\.(\w+)\(\)\s*$", out_files.get(f"{SDIR}/{fname}", ""), re.M)
                if not inst or inst.group(1) != client_short:
                    bad.append(f"the sample instantiates {inst.group(1) if inst else None!r}, metadata names client {client_short!r}")
                # names AND order of clientMethod.parameters == the real parameter list of the emitted method (inspect.signature
                # on the imported class): request | requests, the flattened keyword parameters, retry, timeout, metadata
                if info.get("params") is not None and [p.get("name") for p in cm.get("parameters", [])] != info.get("params"):
                    ctx.fail("metadata-parameters", f"{fname}: clientMethod.parameters {[p.get('name') for p in cm.get('parameters', [])]} but "
                             f"{client_short}.{cm.get('shortName')}{tuple(info.get('params'))}"
                             + (f" (method_signature {me['sigs'][0]!r})" if me.get("sigs") else ""), pl)
                elif info.get("params") is None:
                    bad.append(f"the signature of {client_short}.{cm.get('shortName')} could not be read ({info.get('sig_error')})")
                if cm.get("resultType"):
                    if not info.get("result_same"):
                        bad.append(f"resultType {cm.get('resultType')!r} is not the method's return type {info.get('ret_leaf')!r}")
                elif not info.get("ret_is_none"):
                    bad.append(f"no resultType but the method returns {info.get('ret_leaf')!r}")
                for pn, ok in (info.get("param_types_ok") or {}).items():
                    if not ok:
                        bad.append(f"parameter {pn} type is not an importable class")
                # the SHAPE of the result and of the request parameter, for every calling form: a stream on one side is a
                # stream on the other (Iterable[X] / Awaitable[AsyncIterable[X]] / Iterator[X] vs a single X), and the sample
                # file treats the call's value the same way
                shape_bad = []
                rt = cm.get("resultType") or ""
                meta_stream = is_stream_type(rt)
                if info.get("ret_stream") is not None and meta_stream != bool(info.get("ret_stream")):
                    shape_bad.append(f"resultType {rt!r} {'is' if meta_stream else 'is not'} a stream type but {client_short}.{cm.get('shortName')} "
                                     f"is annotated -> {'/'.join(info.get('ret_shape') or []) or 'single'}[{info.get('ret_leaf')}]")
                use = sample_call_shape(out_files.get(f"{SDIR}/{fname}", ""))
                if use is not None:
                    ctx.count("sample_result_use", ("iterates " if use["iterates"] else "single ") + form)
                    if meta_stream and not use["iterates"]:
                        shape_bad.append(f"resultType {rt!r} is a stream type but the sample does not iterate the value of the call")
                    if use["iterates"] and not meta_stream and form != "RequestPagedAll":
                        shape_bad.append(f"the sample iterates the value of client.{cm.get('shortName')}(…) as a stream but resultType is {rt!r}")
                    pnames = [p.get("name") for p in cm.get("parameters", [])]
                    extra = [k_ for k_ in use["keywords"] if k_ not in pnames]
                    if extra:
                        shape_bad.append(f"the sample passes {extra} to client.{cm.get('shortName')}, metadata parameters are {pnames}")
                ptypes = {p.get("name"): p.get("type") for p in cm.get("parameters", [])}
                for pn, shp in (info.get("param_shapes") or {}).items():
                    c_stream = any(w in STREAM_WRAPPERS for w in shp)
                    if is_stream_type(ptypes.get(pn)) != c_stream:
                        shape_bad.append(f"parameter {pn} type {ptypes.get(pn)!r} vs the signature's {'/'.join(shp) or 'single'}: stream on one side only")
                for pn, same in (info.get("param_types_same") or {}).items():
                    if not same:
                        shape_bad.append(f"parameter {pn} type {ptypes.get(pn)!r} does not name the class the signature takes")
                if shape_bad:
                    ctx.fail("metadata-stream-shape", f"{fname} [{form}, {'async' if asy else 'sync'}]: " + "; ".join(shape_bad), pl)
        if cm.get("fullName") != f"{cm.get('client', {}).get('fullName')}.{cm.get('shortName')}":
            bad.append(f"clientMethod.fullName {cm.get('fullName')!r}")
        if cm.get("method", {}).get("fullName") != f"{fs['package']}.{ss['name']}.{me['name']}" or \
                cm.get("method", {}).get("service", {}).get("fullName") != f"{fs['package']}.{ss['name']}":
            bad.append(f"method.fullName {cm.get('method', {}).get('fullName')!r}")
        if bad:
            ctx.fail("metadata-vs-client", f"{fname}: " + "; ".join(bad), pl)
        # ---- oracle 5: for the client method this entry names (sync or asyncio class, public or internal `_method`) the
        # `.. code-block:: python` part of its docstring is the text between START and END of THIS sample — the one whose
        # metadata names that method and that flavour (blank lines aside: fix_whitespace reflows the client module)
        doc = info.get("doc")
        text = out_files.get(f"{SDIR}/{fname}", "")
        ls = text.splitlines()
        st = [i for i, l in enumerate(ls) if l.startswith("# [START")]
        en = [i for i, l in enumerate(ls) if l.startswith("# [END")]
        status = sel_status(spec, ss, me)
        ctx.count("docstring_checked", f"{'asyncio' if asy else 'sync'} client, {status} method")
        if doc is not None and len(st) == 1 and len(en) == 1:
            between = [l.rstrip() for l in ls[st[0] + 1:en[0]] if l.strip()]
            dl = doc.splitlines()
            try:
                a = next(i for i, l in enumerate(dl) if l.strip() == ".. code-block:: python")
                b = next(i for i, l in enumerate(dl) if i > a and l.strip() == "Args:")
                block = [l.rstrip() for l in dl[a + 1:b] if l.strip()]
            except StopIteration:
                block = None
            want_block = [" " * 12 + l for l in between]
            where = f"{client_short}.{cm.get('shortName')}.__doc__ ({'asyncio' if asy else 'sync'} client, {status} method)"
            if block is None:
                ctx.fail("docstring-sample-missing", f"{fname}: {where} embeds no sample, although the sample with region tag "
                         f"{e.get('regionTag')!r} names this method", pl)
            elif block != want_block:
                other = by_key.get((ss["name"], me["name"], not asy), [])
                otext = out_files.get(f"{SDIR}/{other[0].get('file')}", "") if len(other) == 1 else ""
                ols = otext.splitlines()
                ost = [i for i, l in enumerate(ols) if l.startswith("# [START")]
                oen = [i for i, l in enumerate(ols) if l.startswith("# [END")]
                is_other = (len(ost) == 1 and len(oen) == 1 and
                            block == [" " * 12 + l.rstrip() for l in ols[ost[0] + 1:oen[0]] if l.strip()])
                ctx.fail("docstring-sample-mismatch", f"{fname}: the snippet in {where} is not the text between the tags"
                         + (f": it is the {'sync' if asy else 'asyncio'} sample {other[0].get('file')}" if is_other else "")
                         + f" (first difference: {next(((x, y) for x, y in zip(block, want_block) if x != y), (len(block), len(want_block)))})", pl)
            mfull = fulls.get(fname)
            if mfull is not None and block is not None:
                ctx.traces += 1
                if [" " * 12 + l.rstrip() for l in mfull.splitlines() if l.strip()] != block:
                    ctx.disagree("T3:c14.docstring-vs-model", f"{fname}: model full snippet vs docstring block differ", pl)
        elif info.get("method_ok") and doc is None:
            ctx.fail("docstring-sample-missing", f"{fname}: method has no docstring", pl)
    return out_files


# ------------------------------------------------------------------ corpus


def load_corpus():
    out = []
    for p in sorted(glob.glob(os.path.join(CORPUS, "*.json"))):
        with open(p) as fh:
            d = json.load(fh)
        out.append((os.path.basename(p), d))
    return out


def run(ctx):
    ctx.rule = ("APIs over the quantifier: 1..3 services x 2..6 RPCs of every calling form (unary, void, paged, LRO, LRO->Empty, "
                "server/client/bidi streaming) x request messages with 0..4 required fields of every type (15 scalar kinds, enums, "
                "repeated scalars/enums, messages 1..3 deep, shared-file messages, resource references; one message type with required "
                "fields / a oneof used twice or more in a request tree: sibling fields, nested after top level, at two depths, as "
                "first member of two oneofs), 0..2 oneofs, non-required noise "
                "(maps, optional, repeated messages), requests from other packages (google.iam.v1, google.protobuf.Empty), flattened "
                "signatures, transports grpc | grpc+rest | rest, selective generation (none | unlisted RPCs internal | unlisted RPCs "
                "omitted; 1..n-1 RPCs listed); one case = one emitted sample; distinct by (API spec, service, rpc, "
                "sync/async, file); every case is non-trivial (a sample is compiled, executed against the loopback server and checked)")
    ctx.assume("docstring comparison ignores blank lines and trailing blanks: gapic.generator.formatter.fix_whitespace reflows blank lines of the client module (C20's subject)")
    ctx.assume("default credentials and channel creation are stubbed (google.auth.default, grpc_helpers[_async].create_channel, REST transport host): external to the emitted code")
    ctx.assume("the loopback server accepts every call and answers with an empty message (LRO: a finished Operation; REST: `{}`)")
    ctx.assume("REST-only APIs are generated without client-streaming RPCs (the REST transport raises NotImplementedError for them by design)")
    ctx.assume("request field names are not words the generator renames (`class` -> `class_`): C12's subject")
    ctx.assume("flattened signature fields are not named request/requests/retry/timeout/metadata (duplicate parameter in the emitted client: C05/C12's subject)")
    ctx.assume("which RPCs and types selective generation keeps is C16's subject; here a listed RPC is public, an unlisted one internal "
               "(generate_omitted_as_internal) or absent, and the samples/metadata/docstrings of what IS emitted are checked")
    ctx.assume("RPC names that are Python keywords are not generated as internal methods (`_import` vs `_import_`: the gap of "
               "render_method_name noted in the model)")
    r = ctx.rng("apis")
    # ---- corpus first (the known findings' inputs and past failures)
    seg_texts = []
    for name, d in load_corpus():
        ctx.count("stream", "corpus")
        files = run_api(ctx, r, d["spec"], "corpus:" + name)
        if files:
            seg_texts += [c for n, c in files.items() if n.startswith(SDIR) and n.endswith(".py")][:4]
    # ---- fresh APIs
    for a in range(ctx.n(22, 320)):
        spec = gen_api(r, a, twists=0.04)
        ctx.count("stream", "generated")
        files = run_api(ctx, r, spec, spec["label"])
        if files:
            texts = [c for n, c in files.items() if n.startswith(SDIR) and n.endswith(".py")]
            seg_texts += r.sample(texts, min(len(texts), 6))
    # ---- T2 sweep of the segment parser on emitted samples and edited variants
    rs = ctx.rng("segments")
    variants = list(seg_texts)
    for t in seg_texts:
        for _ in range(ctx.n(3, 12)):
            variants.append(mutate_sample(rs, t))
    variants = variants[:ctx.n(400, 6000)]
    t2_segments(ctx, variants, "sweep")
    ctx.count("segment_parser_inputs", "texts", len(variants))
    ctx.notes["t2_segment_texts"] = len(variants)


def search(ctx):
    r = ctx.rng("search")
    texts = []
    for a in range(10):
        spec = gen_api(r, 1000 + a, twists=0.0)
        files = run_api(ctx, r, spec, spec["label"])
        if files:
            texts += [c for n, c in files.items() if n.startswith(SDIR) and n.endswith(".py")][:6]
    rs = ctx.rng("search-segments")
    t2_segments(ctx, texts + [mutate_sample(rs, t) for t in texts for _ in range(6)], "search")


def replay(ctx, payload):
    import leanio
    ctx.driver = leanio.Driver()
    if "spec" in payload:
        run_api(ctx, ctx.rng("replay"), payload["spec"], "replay")
    elif "text" in payload:
        t2_segments(ctx, [payload["text"]], "replay")
    for f in ctx.failures:
        print("  failure:", f["key"], "-", f["what"][:300])
    for d in ctx.disagreements:
        print("  disagreement:", d["correspondence"], "-", d["what"][:300])
    return not ctx.failures and not ctx.disagreements


CLAIM = dict(
    text=("Lean 4 proofs on a model of samplegen/snippet_index: exactly one sync and (iff gRPC) one asyncio spec per RPC; region-tag "
          "format; region tags pairwise distinct under the stated no-underscore hypothesis (counterexample proved and replayed); FULL "
          "segment/full_snippet = the lines strictly between the START and END tag lines; the four inner segments are ordered and "
          "contiguous when the markers appear as the template emits them (void-sample counterexample); every required scalar/enum "
          "field gets its non-default mock value, every required leaf path of the request type (through required message fields and "
          "first oneof members, any depth, a message type used any number of times) has an entry in the default request, exactly the first member of each real oneof is selected, nothing outside the "
          "request fields is populated; termination of default request construction under an acyclicity hypothesis and divergence "
          "without it; totality/characterisation of the calling form. Tie: T1 bridge of the four marker regexes; T2 "
          "generate_sample_specs, CallingForm.method_default, generate_request_object, validate_and_transform_request, "
          "Snippet._parse_snippet_segments, SnippetIndex.add_snippet/get_snippet (filed by the async flag, whatever the tag) vs the model; T3 every emitted sample compiled and EXECUTED against loopback gRPC/HTTP "
          "servers, the received request decoded under the input descriptors and compared with the model, metadata vs file vs the "
          "imported client — sync and asyncio classes, public and internal `_method`s under selective generation — (names, parameters, "
          "result type; stream shape of the result and of the request parameter per calling form, sync "
          "and asyncio: metadata vs return/parameter annotation vs whether the sample iterates the call's value; model: resultType is "
          "Iterable[…] exactly for the server-/bidi-streaming forms), docstring snippet vs the text between the tags; "
          "model-independent oracle."),
    technique="Lean 4 theorems over an executable model + translator bridge + differential T2/T3 with sample execution against loopback servers",
    design="7.14",
    note=("Jinja rendering of the sample is reached only through T3. A required message-typed field is populated iff its own "
          "default request is non-empty (theorem + counterexample; known finding). Docstring comparison ignores blank lines."),
)
