"""C15 — gapic_metadata.json and the fix-up script describe the generated surface exactly (DESIGN §7.15)."""
from __future__ import annotations
import ast, copy, json, os, tempfile
import apigen, genrun, libhost

# ---------------------------------------------------------------------------------------------
# generator: APIs per the quantifier (several services, keyword-named and internal methods,
# reserved-word fields) x transports in {grpc, rest, grpc+rest}

PACKAGES = [("acme.lib.v1", "acme/lib/v1"), ("google.cloud.bookstore.v1beta1", "google/cloud/bookstore/v1beta1"),
            ("acme.lib", "acme/lib"), ("acme.inventory.v1p1beta1", "acme/inventory/v1p1beta1"), ("solo.v2", "solo/v2")]
# proto packages that are only <name>.<version> (or <name>): `naming.module_namespace == ()`; the library is emitted as
# the top-level package <name>_<version>
NO_NAMESPACE_PACKAGES = [("solo.v2", "solo/v2"), ("mollusca.v1", "mollusca/v1"), ("shelf.v1beta1", "shelf/v1beta1"),
                         ("inventory.v1p1beta1", "inventory/v1p1beta1"), ("solo", "solo")]
TRANSPORTS = ["grpc", "rest", "grpc+rest", "rest+grpc"]
# (a service whose snake_case name is a Python keyword — `Import`, `Class`, `Lambda` — makes the package
#  unimportable: `from .services.import import ImportClient`; C12/C01's subject, excluded here)
SERVICE_NAMES = ["Library", "Archive", "Catalog", "Importer", "Shelves", "BookStore", "IAMAdmin", "V2Index", "Classes",
                 "Publisher", "AsyncJobs", "Lending", "Base"]
KEYWORD_RPCS = ["Import", "Class", "Return", "Global", "From", "In", "Is", "Not", "Or", "And", "As", "Try", "With",
                "Yield", "Pass", "Raise", "Lambda", "For", "If", "Else", "Del", "Def", "While", "Assert", "Async",
                "Await", "Break", "Continue", "Elif", "Except", "Finally", "Nonlocal", "import", "IMPORT", "CLASS",
                "None", "True", "False", "ImPort"]
PLAIN_RPCS = ["GetBook", "ListBooks", "CreateBook", "DeleteBook", "UpdateBook", "GetV2Book", "Get2FACode",
              "GetIAMBinding", "MoveBook", "get_book_raw", "Get_Shelf", "X", "GetX", "A1B2", "HTTPCheck", "Ping",
              "BatchGetBooks", "Search", "Print", "Exec", "Match", "Type", "List", "Format", "MergeShelves",
              "GetBookV2", "Lookup3D", "ReadOCRText", "Undelete", "_Hidden"]
RESERVED_FIELDS = ["class", "from", "in", "import", "global", "list", "format", "hash", "dir", "any", "all", "type", "id",
                   "next", "not", "or", "pass", "lambda", "yield", "async", "max", "min", "object", "property", "set",
                   "str", "filter", "map", "input", "range", "license", "mapping", "ignore_unknown_fields", "None"]
PLAIN_FIELDS = ["name", "parent", "page_size", "page_token", "book", "shelf", "update_mask", "request", "retry", "timeout",
                "metadata", "validate_only", "etag", "force", "read_mask", "x", "book_id", "order_by", "requestId",
                "Labels", "_private", "f1"]
FIELD_TYPES = ["string", "string", "string", "int32", "bool", "int64", "bytes", "double", "message", "enum"]


LOC, IAM = "google.cloud.location.Locations", "google.iam.v1.IAMPolicy"
MIXIN_RULES = {
    LOC: [{"selector": LOC + ".GetLocation", "get": "/v1/{name=projects/*/locations/*}"},
          {"selector": LOC + ".ListLocations", "get": "/v1/{name=projects/*}/locations"}],
    IAM: [{"selector": IAM + ".GetIamPolicy", "post": "/v1/{resource=shelves/*}:getIamPolicy", "body": "*"},
          {"selector": IAM + ".SetIamPolicy", "post": "/v1/{resource=shelves/*}:setIamPolicy", "body": "*"},
          {"selector": IAM + ".TestIamPermissions", "post": "/v1/{resource=shelves/*}:testIamPermissions", "body": "*"}]}
MIXIN_METHODS = {LOC: ["get_location", "list_locations"], IAM: ["get_iam_policy", "set_iam_policy", "test_iam_permissions"]}
IAM_ROWS = {"get_iam_policy": ["resource", "options"], "set_iam_policy": ["resource", "policy"],
            "test_iam_permissions": ["resource", "permissions"]}


def nocase(s):
    return s.replace("_", "").lower()


def gen_message(r, name):
    n = r.randint(0, 7)
    fields, used = [], set()
    for _ in range(n):
        fn = r.pick(RESERVED_FIELDS) if r.maybe(0.4) else r.pick(PLAIN_FIELDS)
        # a message with both `x` and `x_` is a python-level collision (C12), not this property
        if fn in used or fn + "_" in used or fn.rstrip("_") in used:
            continue
        used.add(fn)
        f = {"name": fn, "type": r.pick(FIELD_TYPES), "required": r.maybe(0.35), "repeated": False,
             "optional": False, "oneof": None, "map": False}
        shape = r.random()
        if shape < 0.15:
            f["repeated"] = True
        elif shape < 0.25:
            # presence is independent of REQUIRED: a REQUIRED field may be proto3 `optional` (synthetic oneof) ...
            f["optional"] = True
        elif shape < 0.35:
            # ... or a member of a real oneof; at any position among required and non-required fields
            f["oneof"] = "choice"
        elif shape < 0.42:
            f["map"] = True
            f["type"] = "string"
        fields.append(f)
    # field numbers are independent of the declaration order (fields added later, regrouped): mostly a
    # shuffled, gapped assignment; sometimes the ordinary 1..n
    nums = list(range(1, len(fields) + 1))
    mode = r.random()
    if mode < 0.65:
        nums = r.sample(range(1, 3 * len(fields) + 4), len(fields))
    elif mode < 0.8:
        nums = list(reversed(nums))
    for f, k in zip(fields, nums):
        f["number"] = k
    return {"name": name, "fields": fields}


def gen_spec(r, idx, transport=None, no_namespace=False):
    """no_namespace: the API's library package has NO namespace part (proto package `<name>.<version>` and no
    python-gapic-namespace option); such a package cannot be imported (C01's subject) and is observed statically"""
    pkg, pdir = r.pick(NO_NAMESPACE_PACKAGES) if no_namespace else r.pick(PACKAGES)
    spec = {"package": pkg, "dir": pdir, "transport": transport or TRANSPORTS[idx % len(TRANSPORTS)],
            "messages": [], "services": [], "n_files": r.pick([1, 1, 2, 2, 3]), "namespace_opt": None, "name_opt": None,
            "add_iam": False, "mixins": []}
    if no_namespace:
        pass
    elif r.maybe(0.15) or pkg.count(".") < 2:
        # a proto package without a namespace component (`solo.v2`) generates since 71dd1fd, but its package
        # __init__ reads `from .solo_v2 import gapic_version` (module_namespace|join('.') + "." + …) and cannot be
        # imported: C01's subject; in THIS stream such packages always get a namespace option. The namespace-less
        # class has its own stream (`no_namespace=True`), observed statically (see static_index)
        spec["namespace_opt"] = r.pick(["corp", "corp.cloud"])
    if r.maybe(0.15):
        spec["name_opt"] = r.pick(["shelfware", "BookKit"])
    nsvc = r.randint(2, 4)
    snames = []
    while len(snames) < nsvc:
        s = r.pick(SERVICE_NAMES)
        # the pool has no pair `Foo` / `FooAsync` (two classes called FooAsyncClient: hypothesis ClassNamesDistinct)
        if s not in snames:
            snames.append(s)
    used_rpc = {}        # nocase(name) -> (name, request message)
    nmsg = 0
    internal_api = r.maybe(0.45)
    # service shapes: a service may declare NO RPC at all (`service Heartbeat {}`: its clients are still emitted and
    # exported), exactly one, only streaming RPCs, only internal RPCs; sometimes the FIRST or the LAST service by
    # name (the metadata is built over the services sorted by name) is the empty one
    shapes = {}
    for sn in snames:
        x = r.random()
        shapes[sn] = "empty" if x < 0.12 else "single" if x < 0.27 else "streaming-only" if x < 0.35 else \
            "internal-only" if x < 0.43 else "ordinary"
    edge = r.random()
    if edge < 0.12:
        shapes[min(snames)] = "empty"
    elif edge < 0.24:
        shapes[max(snames)] = "empty"
    elif edge < 0.28:
        shapes[min(snames)] = shapes[max(snames)] = "empty"
    if any(v == "internal-only" for v in shapes.values()):
        internal_api = True
    spec["shapes"] = shapes
    for sn in snames:
        methods = []
        shape = shapes[sn]
        for _ in range({"empty": 0, "single": 1}.get(shape) if shape in ("empty", "single") else r.randint(1, 5)):
            name = r.pick(KEYWORD_RPCS) if r.maybe(0.4) else r.pick(PLAIN_RPCS)
            if any(nocase(m["name"]) == nocase(name) for m in methods):
                continue
            if nocase(name) in used_rpc:
                prev_name, prev_msg = used_rpc[nocase(name)]
                if prev_name != name:
                    continue            # names equal up to case/underscores across services: corpus only
                inp = prev_msg         # same RPC name in two services: same request (FixupUnambiguous)
            elif r.maybe(0.1):
                inp = "google.protobuf.Empty"
            else:
                nmsg += 1
                m = gen_message(r, f"Req{nmsg}{r.pick(['Request', 'Args', ''])}")
                spec["messages"].append(m)
                inp = m["name"]
            used_rpc.setdefault(nocase(name), (name, inp))
            # server-, client- and bidi-streaming RPCs under EVERY transport set: the client defines the method for
            # each of them also when `rest` is requested (only the REST stub raises NotImplementedError)
            streaming = r.random()
            if shape == "streaming-only":
                streaming = r.pick([0.05, 0.12, 0.18])     # server / client / bidi
            methods.append({"name": name, "input": inp, "internal": shape == "internal-only" or (internal_api and r.maybe(0.5)),
                            "ss": streaming < 0.10 or 0.16 <= streaming < 0.22, "cs": 0.10 <= streaming < 0.22,
                            "lro": 0.22 <= streaming < 0.30})
        if not methods and shape != "empty":
            methods.append({"name": f"Ping{len(spec['services'])}", "input": "google.protobuf.Empty", "internal": shape == "internal-only",
                            "ss": shape == "streaming-only", "cs": False, "lro": False})
        spec["services"].append({"name": sn, "methods": methods})
    allm = [m for s in spec["services"] for m in s["methods"]]
    if internal_api and allm and all(m["internal"] for m in allm):
        # selective generation needs at least one listed method: a public one in a service that is not internal-only
        free = [m for s in spec["services"] if shapes[s["name"]] != "internal-only" for m in s["methods"]]
        if free:
            free[0]["internal"] = False
        else:
            host = next((s for s in spec["services"] if shapes[s["name"]] not in ("internal-only", "empty")), None)
            if host is None:
                host = next(s for s in spec["services"] if shapes[s["name"]] == "internal-only")
                shapes[host["name"]] = "ordinary"
            host["methods"].append({"name": "PingPublic", "input": "google.protobuf.Empty", "internal": False,
                                    "ss": False, "cs": False, "lro": False})
            allm = [m for s in spec["services"] for m in s["methods"]]
    if "grpc" in spec["transport"].split("+") and r.maybe(0.15):
        spec["add_iam"] = True           # legacy IAM methods: three fixed rows in the fix-up table, nothing in the metadata
    if r.maybe(0.2):
        spec["mixins"] = r.pick([[LOC], [IAM], [LOC, IAM]]) if not spec["add_iam"] else [LOC]
    inject = r.random()
    if inject < 0.06:
        # RPC names equal up to letter case (inside the quantifier; repaired by the C15 fix: commit)
        cand = [(s, m) for s in spec["services"] for m in s["methods"]
                if sum(1 for c in m["name"][1:] if c.isupper()) >= 1 and "_" not in m["name"] and m["name"][0].isupper()]
        if cand:
            s, m = r.pick(cand)
            k = max(i for i, c in enumerate(m["name"]) if c.isupper())
            twin = m["name"][:k] + m["name"][k].lower() + m["name"][k + 1:]
            # the capital must follow a lower-case letter, so that the two names have different python method
            # names (`get_book` / `getbook`); `A1B2` / `A1b2` would both be `a1b2` (one python name: C12's subject)
            if m["name"][k - 1].islower() and not any(x["name"] == twin for sv in spec["services"] for x in sv["methods"]):
                nmsg += 1
                msg = gen_message(r, f"Req{nmsg}Twin")
                spec["messages"].append(msg)
                s["methods"].append({"name": twin, "input": msg["name"], "internal": False, "ss": False, "cs": False, "lro": False})
    elif inject < 0.12 and len(spec["services"]) >= 2:
        # one RPC name, two services, different requests (hypothesis FixupUnambiguous; informational)
        s1, s2 = spec["services"][0], spec["services"][1]
        m = s1["methods"][0] if s1["methods"] and shapes[s2["name"]] == "ordinary" else None
        if m is not None and not any(nocase(x["name"]) == nocase(m["name"]) for x in s2["methods"]):
            nmsg += 1
            msg = gen_message(r, f"Req{nmsg}Other")
            spec["messages"].append(msg)
            s2["methods"].append({"name": m["name"], "input": msg["name"], "internal": False, "ss": False, "cs": False, "lro": False})
    if spec["transport"] == "rest" and r.maybe(0.4) and not any(s["name"] in ("Addresses", "RegionOperations") for s in spec["services"]) \
            and not any(nocase(m["name"]) in ("get", "insert") for m in allm):
        # extended operations (compute style) are REST-only in practice; with gRPC see the corpus probe
        msgs, svcs = extop_parts()
        spec["extop"] = True
        spec["messages"] += msgs
        spec["services"] += svcs
    return spec


# requests declared in ANOTHER proto package than the RPC (a dependency file: in proto_file, not in file_to_generate)
SHARED_PACKAGES = ["acme.common", "sharedtypes.v1", "corp.policy.v2"]       # none is a prefix-extension of a target package
WELL_KNOWN_REQUESTS = ["google.iam.v1.SetIamPolicyRequest", "google.iam.v1.GetIamPolicyRequest",
                       "google.iam.v1.TestIamPermissionsRequest", "google.longrunning.WaitOperationRequest",
                       "google.longrunning.ListOperationsRequest", "google.longrunning.GetOperationRequest"]


def add_cross_package(spec, rx):
    """post-pass over a generated spec (own PRNG: the spec stream itself is unchanged): some RPC names get a request
    that lives in a dependency file of another package — a generated message of `spec["shared"]` with scalar, message-,
    enum-typed, repeated and map fields (some REQUIRED, at least one message- and one enum-typed), or a request of
    google.iam.v1 / google.longrunning. RPCs sharing a name keep sharing their request."""
    groups = {}
    for s in spec["services"]:
        if s.get("builtin"):
            continue
        for m in s["methods"]:
            if not m.get("ext"):
                groups.setdefault(m["name"], []).append(m)
    names = sorted(groups)
    if not names:
        return spec
    chosen = [n for n in names if rx.maybe(0.4)] or [rx.pick(names)]
    for n in chosen:
        if rx.maybe(0.3):
            inp = rx.pick(WELL_KNOWN_REQUESTS)
        else:
            sh = spec.setdefault("shared", {"package": rx.pick(SHARED_PACKAGES), "messages": []})
            if sh["messages"] and rx.maybe(0.25):
                inp = sh["package"] + "." + rx.pick(sh["messages"])["name"]
            else:
                msg = gen_message(rx, f"Shared{len(sh['messages']) + 1}{rx.pick(['Request', 'Args', 'Spec'])}")
                top = max([f["number"] for f in msg["fields"]] + [0])
                for fname, typ, p_req in (("spec", "message", 0.5), ("kind", "enum", 0.35), ("tags", "string", 0.2)):
                    if typ != "string" and any(f["type"] == typ and not f["map"] for f in msg["fields"]) and rx.maybe(0.5):
                        continue
                    if any(f["name"] == fname for f in msg["fields"]):
                        continue
                    top += rx.randint(1, 3)
                    msg["fields"].insert(rx.randint(0, len(msg["fields"])),
                                         {"name": fname, "type": typ, "required": rx.maybe(p_req), "repeated": typ == "string" or rx.maybe(0.2),
                                          "optional": False, "oneof": None, "map": False, "number": top})
                sh["messages"].append(msg)
                inp = sh["package"] + "." + msg["name"]
        for m in groups[n]:
            m["input"] = inp
    return spec


def corpus_specs():
    """minimal inputs behind the findings + excluded points of the theorems' hypotheses"""
    def base(transport="grpc"):
        return {"package": "acme.lib.v1", "dir": "acme/lib/v1", "transport": transport, "messages": [], "services": [],
                "two_files": False, "namespace_opt": None, "name_opt": None}
    out = []
    # (1) RPC names that differ only in case: regression input of the C15 fix: commit (unique(case_sensitive=True))
    s = base()
    s["messages"] = [{"name": "GetBookRequest", "fields": [dict(name="name", type="string", required=True, repeated=False, optional=False, oneof=None, map=False)]},
                     {"name": "GetbookRequest", "fields": [dict(name="isbn", type="string", required=False, repeated=False, optional=False, oneof=None, map=False),
                                                            dict(name="shelf", type="string", required=True, repeated=False, optional=False, oneof=None, map=False)]}]
    s["services"] = [{"name": "Library", "methods": [
        {"name": "GetBook", "input": "GetBookRequest", "internal": False, "ss": False, "cs": False, "lro": False},
        {"name": "Getbook", "input": "GetbookRequest", "internal": False, "ss": False, "cs": False, "lro": False}]}]
    out.append(("case_insensitive_unique", s))
    # (2) same RPC name in two services with different requests (hypothesis FixupUnambiguous; DESIGN 7.15)
    s = base("grpc+rest")
    s["messages"] = [{"name": "GetBookRequest", "fields": [dict(name="name", type="string", required=True, repeated=False, optional=False, oneof=None, map=False)]},
                     {"name": "ArchiveGetBookRequest", "fields": [dict(name="isbn", type="string", required=False, repeated=False, optional=False, oneof=None, map=False)]}]
    s["services"] = [{"name": "Library", "methods": [{"name": "GetBook", "input": "GetBookRequest", "internal": False, "ss": False, "cs": False, "lro": False}]},
                     {"name": "Archive", "methods": [{"name": "GetBook", "input": "ArchiveGetBookRequest", "internal": False, "ss": False, "cs": False, "lro": False}]}]
    out.append(("shared_rpc_name", s))
    # (3a) proto package without a namespace component (not importable: observed statically)
    s = base("grpc")
    s["package"], s["dir"] = "solo.v2", "solo/v2"
    s["services"] = [{"name": "Library", "methods": [{"name": "Ping", "input": "google.protobuf.Empty", "internal": False, "ss": False, "cs": False, "lro": False}]}]
    out.append(("no_namespace_package", s))
    # (3b) extended operation with the gRPC transports: the asyncio client only has `insert_unary`
    for tr in ("grpc+rest", "rest"):
        s = base(tr)
        msgs, svcs = extop_parts()
        s["extop"] = True
        s["messages"] = msgs
        s["services"] = [{"name": "Library", "methods": [{"name": "Ping", "input": "google.protobuf.Empty", "internal": False, "ss": False, "cs": False, "lro": False}]}] + svcs
        out.append(("extended_operation_" + tr.replace("+", "_"), s))
    # (3c) field numbers not monotonic in declaration order inside the required and inside the optional group
    s = base("grpc")
    s["messages"] = [{"name": "CreateBookRequest", "fields": [
        _fd("parent", True, number=1), _fd("book_id", False, number=3), _fd("title", True, number=2),
        _fd("validate_only", False, "bool", number=5), _fd("request_id", False, number=4)]},
        {"name": "MoveRequest", "fields": [_fd("parent", True, number=4), _fd("from", True, number=2), _fd("to", False, number=9), _fd("etag", False, number=1)]}]
    s["services"] = [{"name": "Library", "methods": [
        {"name": "CreateBook", "input": "CreateBookRequest", "internal": False, "ss": False, "cs": False, "lro": False},
        {"name": "Move", "input": "MoveRequest", "internal": False, "ss": False, "cs": False, "lro": False}]}]
    out.append(("nonmonotonic_field_numbers", s))
    # (4) keyword-named + internal methods, reserved-word fields, all three kinds, field numbers running AGAINST the
    #     declaration order (the shape of Props.C15.apiEx)
    s = base("grpc+rest")
    s["messages"] = [{"name": "GetBookRequest", "fields": [
        dict(name="filter", type="string", required=False, repeated=False, optional=False, oneof=None, map=False, number=4),
        dict(name="name", type="string", required=True, repeated=False, optional=False, oneof=None, map=False, number=3),
        dict(name="class", type="string", required=False, repeated=False, optional=False, oneof=None, map=False, number=1),
        dict(name="parent", type="string", required=True, repeated=False, optional=False, oneof=None, map=False, number=2)]},
        {"name": "ImportRequest", "fields": [
            dict(name="from", type="string", required=False, repeated=False, optional=False, oneof=None, map=False, number=2),
            dict(name="in", type="int32", required=True, repeated=False, optional=False, oneof=None, map=False, number=1)]}]
    s["services"] = [{"name": "Library", "methods": [
        {"name": "GetBook", "input": "GetBookRequest", "internal": False, "ss": False, "cs": False, "lro": False},
        {"name": "Import", "input": "ImportRequest", "internal": True, "ss": False, "cs": False, "lro": False}]},
        {"name": "Archive", "methods": [{"name": "Return", "input": "google.protobuf.Empty", "internal": False, "ss": False, "cs": False, "lro": False}]}]
    out.append(("keyword_internal_reserved", s))
    # (4b) the same API as a library WITHOUT a namespace part (proto package `<name>.<version>`), every transport set
    for tr in ("grpc", "rest", "grpc+rest"):
        t = copy.deepcopy(s)
        t["package"], t["dir"], t["transport"] = "mollusca.v1", "mollusca/v1", tr
        out.append(("no_namespace_" + tr.replace("+", "_"), t))
    # (4c) services that declare NO RPC (their clients are emitted and exported all the same), first / last / both by
    #      name, next to a single-RPC, a streaming-only and an internal-only service
    mk = lambda n, inp="google.protobuf.Empty", **k: dict({"name": n, "input": inp, "internal": False, "ss": False, "cs": False, "lro": False}, **k)
    for tr, first, last in (("grpc", True, False), ("rest", False, True), ("grpc+rest", True, True)):
        t = base(tr)
        t["messages"] = [{"name": "GetBookRequest", "fields": [_fd("name", True, number=2), _fd("class", False, number=1)]}]
        t["services"] = ([{"name": "Archive", "methods": []}] if first else []) + [
            {"name": "Catalog", "methods": [mk("Watch", "GetBookRequest", ss=True), mk("Talk", ss=True, cs=True)]},
            {"name": "Importer", "methods": [mk("Import", "GetBookRequest", internal=True)]},
            {"name": "Library", "methods": [mk("GetBook", "GetBookRequest")]}] + ([{"name": "Shelves", "methods": []}] if last else [])
        t["n_files"] = 2
        out.append(("empty_service_" + tr.replace("+", "_"), t))
    t = base("grpc+rest")
    t["services"] = [{"name": "Heartbeat", "methods": []}]
    out.append(("empty_service_alone", t))
    # (4d) requests declared in ANOTHER package (dependency file `acme/common/shared.proto`, google.iam.v1,
    #      google.longrunning) with message-, enum-typed, repeated, map and REQUIRED fields, next to a local control
    six = lambda: [_fd("note", number=1), _fd("spec", True, "message", number=2), _fd("parent", True, number=3),
                   _fd("filter_spec", False, "message", number=4), _fd("kind", False, "enum", number=5),
                   dict(_fd("tags", number=6), repeated=True), dict(_fd("labels", number=7), map=True),
                   _fd("class", True, "enum", number=8)]
    # (4e) REQUIRED fields that are proto3 `optional` or members of a real oneof, declared after non-required fields and
    #      before other required ones (presence does not matter for "required first"); local and cross-package request
    def presence():
        return [{"name": "GetBookRequest", "fields": [
                    _fd("view", number=1), dict(_fd("name", True, number=2), oneof="key"), dict(_fd("isbn", number=3), oneof="key"),
                    _fd("parent", True, number=4)]},
                {"name": "DeleteBookRequest", "fields": [_fd("etag", number=1), dict(_fd("name", True, number=2), optional=True)]},
                {"name": "MoveBookRequest", "fields": [
                    dict(_fd("from", number=5), optional=True), dict(_fd("spec", True, "message", number=4), optional=True),
                    _fd("parent", True, number=3), dict(_fd("kind", True, "enum", number=2), oneof="how"),
                    dict(_fd("shelf", False, "message", number=1), oneof="how"), dict(_fd("force", True, "bool", number=9), optional=True)]}]
    for tr in ("grpc", "rest", "grpc+rest"):
        t = base(tr)
        t["messages"] = presence()
        t["shared"] = {"package": "acme.common", "messages": presence()}
        t["services"] = [
            {"name": "Library", "methods": [mk("GetBook", "GetBookRequest"), mk("DeleteBook", "DeleteBookRequest"), mk("MoveBook", "MoveBookRequest")]},
            {"name": "Archive", "methods": [mk("GetOld", "acme.common.GetBookRequest"), mk("DeleteOld", "acme.common.DeleteBookRequest"),
                                            mk("Move", "acme.common.MoveBookRequest")]}]
        out.append(("required_presence_" + tr.replace("+", "_"), t))
    for tr in ("grpc", "rest", "grpc+rest"):
        t = base(tr)
        t["messages"] = [{"name": "LocalRequest", "fields": six()}]
        t["shared"] = {"package": "acme.common", "messages": [{"name": "SharedRequest", "fields": six()}]}
        t["services"] = [
            {"name": "Library", "methods": [mk("ApplyShared", "acme.common.SharedRequest"), mk("ApplyLocal", "LocalRequest"),
                                            mk("SetIamPolicy", "google.iam.v1.SetIamPolicyRequest")]},
            {"name": "Archive", "methods": [mk("WaitFor", "google.longrunning.WaitOperationRequest"),
                                            mk("Import", "acme.common.SharedRequest", internal=True)]}]
        t["n_files"] = 2
        out.append(("cross_package_request_" + tr.replace("+", "_"), t))
    # (5) internal service + keyword RPC under every transport set, three proto files, Locations mixin, legacy IAM
    for tr in TRANSPORTS:
        s = base(tr)
        s["n_files"] = 3
        s["mixins"] = [LOC]
        s["add_iam"] = "grpc" in tr.split("+")
        s["messages"] = [{"name": "PassRequest", "fields": [_fd("global", False, number=2), _fd("name", True, number=5), _fd("async", True, "bool", number=1)]}]
        s["services"] = [
            {"name": "Library", "methods": [
                {"name": "Pass", "input": "PassRequest", "internal": True, "ss": False, "cs": False, "lro": False},
                {"name": "GetBook", "input": "PassRequest", "internal": False, "ss": False, "cs": False, "lro": False}]},
            {"name": "Archive", "methods": [{"name": "Yield", "input": "google.protobuf.Empty", "internal": False, "ss": True, "cs": False, "lro": False}]},
            {"name": "Catalog", "methods": [
                {"name": "Is", "input": "PassRequest", "internal": True, "ss": False, "cs": False, "lro": True},
                {"name": "Upload", "input": "PassRequest", "internal": False, "ss": False, "cs": True, "lro": False},
                {"name": "Talk", "input": "PassRequest", "internal": False, "ss": True, "cs": True, "lro": False},
                {"name": "Watch", "input": "PassRequest", "internal": False, "ss": True, "cs": False, "lro": False}]}]
        out.append(("internal_" + tr.replace("+", "_"), s))
    return out


# ---------------------------------------------------------------------------------------------
# spec -> descriptors / request / model input

def _fd(name, required=False, type="string", number=None):
    d = dict(name=name, type=type, required=required, repeated=False, optional=False, oneof=None, map=False)
    if number is not None:
        d["number"] = number
    return d


def extop_parts():
    """the compute-style extended-operation shape of tests/fragments/test_compute_operation.proto, as spec entries"""
    msgs = [{"name": "GetRegionOperationRequest", "builtin": True,
             "fields": [_fd("operation", True), _fd("project", True), _fd("region", True)]},
            {"name": "InsertAddressRequest", "builtin": True,
             "fields": [_fd("address_resource", False, "message"), _fd("project", True), _fd("region")]}]
    svcs = [{"name": "RegionOperations", "builtin": True, "methods": [
                {"name": "Get", "input": "GetRegionOperationRequest", "internal": False, "ss": False, "cs": False, "lro": False, "ext": "polling"}]},
            {"name": "Addresses", "builtin": True, "methods": [
                {"name": "Insert", "input": "InsertAddressRequest", "internal": False, "ss": False, "cs": False, "lro": False, "ext": "op"}]}]
    return msgs, svcs


def add_extop(f):
    from google.cloud import extended_operations_pb2 as ex
    f.dep("google/cloud/extended_operations.proto")
    op = f.msg("Operation")
    st = op.nested_enum("Status", ["DONE"])
    op.field("name", optional=True).options.Extensions[ex.operation_field] = ex.NAME
    op.field("http_error_message", optional=True).options.Extensions[ex.operation_field] = ex.ERROR_MESSAGE
    op.field("http_error_status_code", "int32", optional=True).options.Extensions[ex.operation_field] = ex.ERROR_CODE
    op.field("status", "enum", type_name=st, optional=True).options.Extensions[ex.operation_field] = ex.STATUS
    g = f.msg("GetRegionOperationRequest")
    g.field("operation", required=True).options.Extensions[ex.operation_response_field] = "name"
    g.field("project", required=True); g.field("region", required=True)
    addr = f.msg("Address"); addr.field("address", optional=True)
    ins = f.msg("InsertAddressRequest")
    ins.field("address_resource", "message", type_name=addr); ins.field("project", required=True); ins.field("region")
    ro = f.service("RegionOperations")
    m = ro.method("Get", g, op, http=("get", "/compute/v1/projects/{project}/regions/{region}/operations/{operation}"),
                  sigs=["project,region,operation"])
    m.options.Extensions[ex.operation_polling_method] = True
    ad = f.service("Addresses")
    m = ad.method("Insert", ins, op, http=("post", "/compute/v1/projects/{project}/regions/{region}/addresses"),
                  body="address_resource", sigs=["project,region,address_resource"])
    m.options.Extensions[ex.operation_service] = "RegionOperations"


def is_local(inp):
    """the request is declared in the target package (spec["messages"]); otherwise `inp` is a full proto name"""
    return "." not in inp


def _add_messages(f, msgs, book, color):
    for m in msgs:
        if m.get("builtin"):
            continue
        mm = f.msg(m["name"])
        for on in sorted({fd["oneof"] for fd in m["fields"] if fd.get("oneof")}):
            mm.pb.oneof_decl.add(name=on)        # real oneofs precede the synthetic ones of proto3 optional
        for fd in m["fields"]:
            kw = dict(required=fd["required"])
            if fd.get("map"):
                mm.map_field(fd["name"], "string", "string", fd.get("number"))
                if fd["required"]:
                    mm.pb.field[-1].options.Extensions[apigen.field_behavior_pb2.field_behavior].append(apigen.field_behavior_pb2.REQUIRED)
                continue
            typ, tn = fd["type"], None
            if typ == "message":
                tn = book
            elif typ == "enum":
                tn = color
            mm.field(fd["name"], typ, fd.get("number"), type_name=tn, repeated=fd.get("repeated", False), oneof=fd.get("oneof"),
                     optional=fd.get("optional", False), **kw)


def build_files(spec):
    pkg, pdir = spec["package"], spec["dir"]
    f = apigen.File(f"{pdir}/lib.proto", pkg)
    files = [f]
    if spec.get("extop"):
        add_extop(f)
    color = f.enum("Color", ["COLOR_UNSPECIFIED", "RED", "BLUE"])
    book = f.msg("Book")
    book.field("name"); book.field("class"); book.field("pages", "int32")
    meta = f.msg("OpMeta"); meta.field("progress", "int32")
    _add_messages(f, spec["messages"], book, color)
    shared = None
    if spec.get("shared"):
        # a DEPENDENCY file of another proto package (in proto_file, not in file_to_generate): requests of the target
        # package's RPCs may be declared there (`ApplyShared(acme.common.SharedRequest)`); not proto-plus
        sh = spec["shared"]
        shared = apigen.File(f"{sh['package'].replace('.', '/')}/shared.proto", sh["package"])
        scolor = shared.enum("SharedColor", ["SHARED_COLOR_UNSPECIFIED", "GREEN", "AMBER"])
        sbook = shared.msg("SharedBook")
        sbook.field("name"); sbook.field("class"); sbook.field("pages", "int32")
        _add_messages(shared, sh["messages"], sbook, scolor)
        f.dep(shared.name)
    if any(m["input"].startswith("google.iam.v1.") for s_ in spec["services"] for m in s_["methods"]):
        f.dep("google/iam/v1/iam_policy.proto")
    extra_files = {}
    for k, s in enumerate(spec["services"]):
        if s.get("builtin"):
            continue
        target = f
        nf = spec.get("n_files") or (2 if spec.get("two_files") else 1)
        if nf > 1 and k % nf != 0:
            slot = k % nf
            if slot not in extra_files:
                extra_files[slot] = apigen.File(f"{pdir}/extra{slot}.proto", pkg).dep(f"{pdir}/lib.proto", *f.pb.dependency)
                files.append(extra_files[slot])
            target = extra_files[slot]
        svc = target.service(s["name"])
        for m in s["methods"]:
            inp = f".{pkg}.{m['input']}" if is_local(m["input"]) else "." + m["input"]
            out = ".google.longrunning.Operation" if m.get("lro") else f".{pkg}.Book"
            svc.method(m["name"], inp, out, http=("post", f"/v1/{s['name'].lower()}/{nocase(m['name'])}x"), body="*",
                       ss=m.get("ss", False), cs=m.get("cs", False),
                       lro=(f"{pkg}.Book", f"{pkg}.OpMeta") if m.get("lro") else None)
    return files, shared


def descriptor_fields(full_name):
    """[(name, REQUIRED?, number)] of a message of the standard dependency files, from its descriptor"""
    pkg, _, name = full_name.rpartition(".")
    for fdp in apigen.dep_files():
        if fdp.package == pkg:
            for mt in fdp.message_type:
                if mt.name == name:
                    return [(fd.name, apigen.field_behavior_pb2.REQUIRED in fd.options.Extensions[apigen.field_behavior_pb2.field_behavior], fd.number)
                            for fd in mt.field]
    raise KeyError(full_name)


def request_field_specs(spec, m):
    """the spec's field dicts of the request ([] for requests of the standard dependency files)"""
    inp = m["input"]
    pool = spec["messages"] if is_local(inp) else [dict(x, name=spec["shared"]["package"] + "." + x["name"]) for x in (spec.get("shared") or {}).get("messages", [])]
    return next((x["fields"] for x in pool if x["name"] == inp), [])


def request_fields(spec, m):
    """[(descriptor field name, REQUIRED?, number)] of the RPC's request, declaration order — from the INPUT: the
    spec's message (target package or dependency file) or the descriptor of a standard dependency file"""
    inp = m["input"]
    if is_local(inp):
        msg = next(x for x in spec["messages"] if x["name"] == inp)
    else:
        sh = spec.get("shared")
        msg = next((x for x in sh["messages"] if sh["package"] + "." + x["name"] == inp), None) if sh else None
        if msg is None:
            return descriptor_fields(inp)
    return [(f["name"], bool(f["required"]), int(f.get("number") or (i + 1))) for i, f in enumerate(msg["fields"])]


def service_yaml(spec):
    pub = [f"{spec['package']}.{s['name']}.{m['name']}" for s in spec["services"] for m in s["methods"] if not m["internal"]]
    selective = len(pub) != sum(len(s["methods"]) for s in spec["services"])
    mixins = spec.get("mixins") or []
    if not selective and not mixins:
        return None
    y = {"type": "google.api.Service", "config_version": 3, "name": "lib.example.com"}
    if selective:
        y["publishing"] = {"library_settings": [{"version": spec["package"], "python_settings": {"common": {
            "selective_gapic_generation": {"methods": pub, "generate_omitted_as_internal": True}}}}]}
    if mixins:
        y["apis"] = [{"name": a} for a in mixins]
        y["http"] = {"rules": [ru for a in mixins for ru in MIXIN_RULES[a]]}
    return y


class Built:
    """descriptors + request for a spec; owns the temporary service yaml"""

    def __init__(self, spec):
        self.spec = spec
        self.files, self.shared = build_files(spec)
        self.yaml_path = None
        params = [f"transport={spec['transport']}", "metadata", "autogen-snippets=false"]
        y = service_yaml(spec)
        if y is not None:
            import yaml
            fd, self.yaml_path = tempfile.mkstemp(prefix="gapicverif_c15_", suffix=".yaml", dir=genrun.SCRATCH)
            with os.fdopen(fd, "w") as fh:
                yaml.safe_dump(y, fh)
            params.append(f"service-yaml={self.yaml_path}")
        if spec.get("namespace_opt"):
            params.append(f"python-gapic-namespace={spec['namespace_opt']}")
        if spec.get("name_opt"):
            params.append(f"python-gapic-name={spec['name_opt']}")
        if spec.get("add_iam"):
            params.append("add-iam-methods")
        # the dependency file of the other package goes into proto_file only (not file_to_generate)
        self.req = apigen.request(([self.shared] if self.shared else []) + self.files, ",".join(params), targets=self.files)

    def close(self):
        if self.yaml_path:
            try:
                os.unlink(self.yaml_path)
            except OSError:
                pass


def input_fields(spec, m):
    """(descriptor field name, required) of the request, declaration order — from the INPUT"""
    return [(n, rq) for n, rq, _ in request_fields(spec, m)]


def input_numbers(spec, m):
    return [k for _, _, k in request_fields(spec, m)]


def model_input(spec, naming, service_order):
    """service_order: names in the order of the real `api.services.values()` (a ChainMap over the proto files:
    later files first) — the only thing read from the schema object besides the naming"""
    by = {s["name"]: s for s in spec["services"]}
    services = [by[n] for n in service_order if n in by] + [s for s in spec["services"] if s["name"] not in service_order]
    return {"op": "c15", "transports": spec["transport"].split("+"),
            "api": {"proto_package": spec["package"], "namespace": list(naming.module_namespace),
                    "versioned_module": naming.versioned_module_name,
                    "services": [{"name": s["name"], "methods": [
                        {"name": m["name"], "internal": bool(m["internal"]), "proto_plus": is_local(m["input"]),
                         "ext_op": m.get("ext") == "op", "fields": [[n, rq, num] for (n, rq), num in zip(input_fields(spec, m), input_numbers(spec, m))]}
                        for m in s["methods"]]} for s in services]}}


def model_md_dict(mo):
    """the model's association lists as the dict the JSON file denotes (later key wins, as in a map)"""
    return {"protoPackage": mo["proto_package"], "libraryPackage": mo["library_package"],
            "services": {s: {"clients": {k: {"libraryClient": c, "rpcs": {rp: {"methods": ms} for rp, ms in rpcs}}
                                         for k, c, rpcs in clients}} for s, clients in mo["services"]}}


def norm_md(d):
    """the JSON form of a proto message omits empty maps: a client entry without `rpcs` (a service that declares no RPC)
    and one with `rpcs: {}` denote the same message; likewise `clients` and `services`"""
    out = {"protoPackage": d.get("protoPackage"), "libraryPackage": d.get("libraryPackage"), "services": {}}
    for sn, sd in (d.get("services") or {}).items():
        out["services"][sn] = {"clients": {k: {"libraryClient": cd.get("libraryClient", ""), "rpcs": cd.get("rpcs") or {}}
                                           for k, cd in (sd.get("clients") or {}).items()}}
    return out


def parse_json_strict(text):
    dups = []

    def hook(pairs):
        keys = [k for k, _ in pairs]
        dups.extend(k for k in set(keys) if keys.count(k) > 1)
        return dict(pairs)
    return json.loads(text, object_pairs_hook=hook), dups


def parse_fixup(src):
    """[(key, [params])] of the METHOD_TO_PARAMS dict literal, duplicates kept, + class name"""
    tree = ast.parse(src)
    for node in ast.walk(tree):
        if isinstance(node, ast.ClassDef):
            for st in node.body:
                tgt = st.target if isinstance(st, ast.AnnAssign) else (st.targets[0] if isinstance(st, ast.Assign) else None)
                if isinstance(tgt, ast.Name) and tgt.id == "METHOD_TO_PARAMS":
                    d = st.value
                    return node.name, [(ast.literal_eval(k), list(ast.literal_eval(v))) for k, v in zip(d.keys, d.values)]
    return None, None


def library_dirs(byname):
    """directories that hold the emitted library: parents of `services/<service>/client.py` (the client classes
    the metadata maps to are defined there)"""
    out = set()
    for n in byname:
        parts = n.split("/")
        if len(parts) >= 4 and parts[-1] == "client.py" and parts[-3] == "services" and parts[0] not in ("tests", "samples", "docs", "scripts"):
            out.add("/".join(parts[:-3]))
    return sorted(out)


def static_index(byname, libdir):
    """what the emitted SOURCE of the library package defines, read with `ast` (no import): for packages that cannot
    be imported (a library without a namespace part: its __init__ reads `from .solo_v2 import gapic_version`, C01).
    {"all": names in __all__ of <libdir>/__init__.py, "classes": {class: {def name: ([parameter names], is async def)}}
     of services/*/client.py + async_client.py, "fields": {message class: [python field names, declaration order]}}"""
    idx = {"all": [], "classes": {}, "fields": {}, "errors": [], "service_classes": {}}

    def tree_of(n):
        try:
            return ast.parse(byname[n])
        except SyntaxError as e:
            idx["errors"].append([n, "SyntaxError", str(e)[:200]])
            return None
    init = libdir + "/__init__.py"
    if init in byname:
        t = tree_of(init)
        for st in (t.body if t else []):
            if isinstance(st, ast.Assign) and any(isinstance(g, ast.Name) and g.id == "__all__" for g in st.targets):
                try:
                    idx["all"] = sorted(ast.literal_eval(st.value))
                except ValueError:
                    pass
    for n in sorted(byname):
        if not n.startswith(libdir + "/"):
            continue
        rel = n[len(libdir) + 1:].split("/")
        if len(rel) == 3 and rel[0] == "services" and rel[2] in ("client.py", "async_client.py"):
            t = tree_of(n)
            for st in (t.body if t else []):
                if isinstance(st, ast.ClassDef):
                    defs = {}
                    for d in st.body:
                        if isinstance(d, (ast.FunctionDef, ast.AsyncFunctionDef)):
                            defs[d.name] = ([a.arg for a in d.args.posonlyargs + d.args.args], isinstance(d, ast.AsyncFunctionDef))
                    idx["classes"][st.name] = defs
                    idx["service_classes"].setdefault(rel[1], {}).setdefault(rel[2], []).append(st.name)
        elif len(rel) == 2 and rel[0] == "types" and rel[1].endswith(".py"):
            t = tree_of(n)
            for st in (ast.walk(t) if t else []):
                if isinstance(st, ast.ClassDef):
                    fl = []
                    for d in st.body:
                        if isinstance(d, ast.AnnAssign) and isinstance(d.target, ast.Name) and isinstance(d.value, ast.Call) \
                                and isinstance(d.value.func, ast.Attribute) and d.value.func.attr in ("Field", "RepeatedField", "MapField"):
                            fl.append(d.target.id)
                    idx["fields"].setdefault(st.name, fl)
    return idx


def static_answer(idx, p):
    """the library host's answer to plan entry `p`, from the static index"""
    what = p[0]
    if what in ("dir", "model-class"):
        c = idx["classes"].get(p[3] if what == "dir" else p[1])
        return {"names": sorted(c)} if c is not None else {"raised": "AttributeError", "msg": "no such class in the emitted source"}
    if what == "registry":
        return {"keys": None}
    if what == "signature":
        d = idx["classes"].get(p[3], {}).get(p[5])
        return {"params": [[a] for a in d[0]], "coroutine": d[1]} if d is not None else {"raised": "AttributeError", "msg": "no such def"}
    if what == "fields":
        fl = idx["fields"].get(p[1])
        return {"value": {f: None for f in fl}} if fl is not None else {"raised": "AttributeError", "msg": "no such message class"}
    return {}


# ---------------------------------------------------------------------------------------------
# the emitted transformer, RUN on old-style call sites

CTRL = ["retry", "timeout", "metadata"]


def gen_calls(r, tdict, foreign, n):
    """call trees {"recv", "key", "args": [[kw|None, value]], "style"}; value = {"lit": src} | call tree"""
    import keyword
    keys = sorted(k for k in tdict if not keyword.iskeyword(k))     # `client.import(…)` is not Python
    ctr = [0]

    def lit():
        ctr[0] += 1
        return {"lit": r.pick([f"'v{ctr[0]}'", f"x{ctr[0]}", f"{ctr[0]}", f"[x{ctr[0]}, 'w']", f"cfg['k{ctr[0]}']"])}

    def call(depth):
        key = r.pick(keys) if keys and r.maybe(0.85) else r.pick(foreign)
        params = tdict.get(key, ["a", "b"])
        style = r.pick(["pos", "pos", "pos", "pos+ctrl", "pos+kw", "pos+kw-skip", "pos+ctrlkw", "fixed", "bare"])

        def val():
            return call(depth + 1) if depth < 2 and r.maybe(0.15) else lit()
        args = []
        npos = r.randint(0, len(params))
        if style == "pos+ctrl":
            npos = len(params) + r.randint(1, 3)
        for _ in range(npos):
            args.append([None, val()])
        if style in ("pos+kw", "pos+kw-skip"):
            # (a request of another package keeps its descriptor names: `class=` is not a Python keyword argument)
            rest = [q for q in params[npos:] if q.isidentifier() and not keyword.iskeyword(q)]
            if style == "pos+kw-skip":
                rest = [q for q in rest if r.maybe(0.6)]
                r.shuffle(rest)
            else:
                rest = rest[:r.randint(0, len(rest))]
            for q in rest:
                args.append([q, val()])
        if style in ("pos+ctrlkw", "pos+kw") and npos <= len(params):
            for cp in CTRL:
                if r.maybe(0.4):
                    args.append([cp, val()])
        if style == "fixed":
            args = [["request", {"lit": "{" + ", ".join(f"'{q}': {k}" for k, q in enumerate(params[:2])) + "}"}]]
            if r.maybe(0.5):
                args.append(["retry", lit()])
        return {"recv": None if style == "bare" else r.pick(["client", "self._client", "lib.make_client()"]),
                "key": key, "args": args, "style": style}
    return [call(0) for _ in range(n)]


def render_call(c, fixed=None):
    """source of a call tree; `fixed` maps id(node) -> model result (None = unchanged)"""
    def rv(v):
        return v["lit"] if "lit" in v else render_call(v, fixed)
    head = (c["recv"] + "." if c["recv"] else "") + c["key"]
    res = fixed.get(id(c)) if fixed is not None else None
    if res is None:
        return head + "(" + ", ".join((f"{kw}=" if kw else "") + rv(v) for kw, v in c["args"]) + ")"
    parts = ["request={" + ", ".join(f"'{name}': {rv(c['args'][i][1])}" for name, i in res["request"]) + "}"]
    parts += [f"{name}={rv(c['args'][i][1])}" for name, i in res["ctrl"]]
    return head + "(" + ", ".join(parts) + ")"


def all_nodes(c):
    for _, v in c["args"]:
        if "lit" not in v:
            yield from all_nodes(v)
    yield c


def norm_src(src):
    return ast.dump(ast.parse(src))


KIND_TRANSPORT = {"grpc": "grpc", "grpc-async": "grpc_asyncio", "rest": "rest"}


def implied_kinds(transport):
    """the statement: grpc => grpc and grpc-async; rest => rest"""
    t = transport.split("+")
    return set((["grpc", "grpc-async"] if "grpc" in t else []) + (["rest"] if "rest" in t else []))


# ---------------------------------------------------------------------------------------------

def run_spec(ctx, spec, label, probe=None):
    """probe: None for in-quantifier inputs; otherwise the name of an excluded point (informational)"""
    b = Built(spec)
    root = None
    payload = {"spec": spec}
    try:
        api, opts = genrun.build_api(b.req)
        mi = model_input(spec, api.naming, [sv.name for sv in api.services.values()])
        mo = ctx.driver.ask([mi])[0]
        if "unsupported" in mo or "error" in mo:
            ctx.unsupported += 1
            ctx.disagree("driver", f"model returned {mo}", payload)
            return
        nrpc = sum(len(s["methods"]) for s in spec["services"])
        kinds = implied_kinds(spec["transport"])
        ctx.case({"label": label, "transport": spec["transport"], "services": len(spec["services"]), "rpcs": nrpc,
                  "internal": sum(m["internal"] for s in spec["services"] for m in s["methods"])},
                 distinct_key=["api", json.dumps(spec, sort_keys=True)])
        ctx.count("transport", spec["transport"]); ctx.count("services", len(spec["services"]))
        ctx.count("package", spec["package"])
        by_name = sorted(s_["name"] for s_ in spec["services"])
        for s_ in spec["services"]:
            ms_ = s_["methods"]
            shp = "no RPC" if not ms_ else "one RPC" if len(ms_) == 1 else "several RPCs"
            ctx.count("service_shape", shp)
            if ms_ and all(m_["internal"] for m_ in ms_):
                ctx.count("service_shape", "only internal RPCs")
            if ms_ and all(m_.get("ss") or m_.get("cs") for m_ in ms_):
                ctx.count("service_shape", "only streaming RPCs")
            if not ms_:
                ctx.count("empty_service_position", "only service" if len(by_name) == 1 else "first by name" if s_["name"] == by_name[0]
                          else "last by name" if s_["name"] == by_name[-1] else "middle")
        for s in spec["services"]:
            for m in s["methods"]:
                ctx.count("rpc_kind", ("internal+" if m["internal"] else "") +
                          ("keyword" if m["name"] in KEYWORD_RPCS else "plain"))
                ctx.count("rpc_streaming", {(False, False): "unary", (False, True): "server", (True, False): "client", (True, True): "bidi"}[
                    (bool(m.get("cs")), bool(m.get("ss")))] + "/" + spec["transport"])
                ctx.count("request_fields", len(input_fields(spec, m)))
                ctx.count("request_declared_in", "target package" if is_local(m["input"]) else "google.protobuf.Empty" if m["input"] == "google.protobuf.Empty"
                          else "dependency file of another package" if not m["input"].startswith("google.") else m["input"].rsplit(".", 1)[0])
                ctx.count("required_fields", sum(1 for _, q in input_fields(spec, m) if q))
                for fd_ in request_field_specs(spec, m):
                    if fd_["required"]:
                        ctx.count("required_field_presence", "proto3 optional" if fd_.get("optional") else "member of a real oneof" if fd_.get("oneof") else "plain")
                nums = input_numbers(spec, m)
                fl_ = input_fields(spec, m)
                groups = [[k for k, (_, q) in zip(nums, fl_) if q], [k for k, (_, q) in zip(nums, fl_) if not q]]
                ctx.count("field_numbers", "monotonic within groups" if all(g == sorted(g) for g in groups) else "NOT monotonic within a group")
        # ------------------------------------------------------------------ T2
        from google.protobuf.json_format import MessageToDict
        from gapic.utils import to_snake_case
        impl_md = MessageToDict(api.gapic_metadata(opts))
        impl_cmp = {k: impl_md.get(k) for k in ("protoPackage", "libraryPackage", "services")}
        ctx.traces += 1
        if norm_md(impl_cmp) != norm_md(model_md_dict(mo)):
            ctx.disagree("T2:c15.gapic_metadata", f"model {json.dumps(model_md_dict(mo), sort_keys=True)[:600]} vs impl {json.dumps(impl_cmp, sort_keys=True)[:600]}", payload)
        names = {n["service"]: n for n in mo["names"]}
        for s in spec["services"]:
            svc = api.services[f"{spec['package']}.{s['name']}"]
            mn = names[s["name"]]
            if (svc.client_name, svc.async_client_name) != (mn["client_name"], mn["async_client_name"]):
                ctx.disagree("T2:c15.client_name", f"{s['name']}: model {mn['client_name']}/{mn['async_client_name']} vs impl {svc.client_name}/{svc.async_client_name}", payload)
            for m, mm in zip(s["methods"], mn["methods"]):
                meth = svc.methods[m["name"]]
                ctx.traces += 1
                if meth.client_method_name != mm["client_method_name"]:
                    ctx.disagree("T2:c15.client_method_name", f"{m['name']}: model {mm['client_method_name']} vs impl {meth.client_method_name}", payload)
                if to_snake_case(meth.client_method_name) != mm["py_method_name"]:
                    ctx.disagree("T2:c15.snake_case", f"{m['name']}: model {mm['py_method_name']} vs impl {to_snake_case(meth.client_method_name)}", payload)
                legacy = [f.name for f in meth.legacy_flattened_fields.values()]
                if legacy != mm["legacy"]:
                    ctx.disagree("T2:c15.legacy_flattened_fields", f"{m['name']}: model {mm['legacy']} vs impl {legacy}", payload)
        # ------------------------------------------------------------------ T3: generate, import, introspect
        res, err = genrun.try_generate(b.req)
        if err:
            ctx.fail("generation-crash:" + err[0], f"generator raised {err[0]}: {err[1]}", payload)
            return
        byname = {f.name: f.content for f in res.file}
        mfiles = [n for n in byname if n.endswith("gapic_metadata.json")]
        ffiles = [n for n in byname if n.startswith("scripts/fixup_") and n.endswith("_keywords.py")]
        if len(mfiles) != 1 or len(ffiles) != 1:
            ctx.fail("artefact-missing", f"expected one gapic_metadata.json and one fix-up script, got {mfiles} {ffiles}", payload)
            return
        try:
            md, dups = parse_json_strict(byname[mfiles[0]])
        except ValueError as e:
            ctx.fail("metadata-not-json", f"gapic_metadata.json does not parse: {e}", payload)
            return
        cls_name, table = parse_fixup(byname[ffiles[0]])
        if table is None:
            ctx.fail("fixup-table-missing", "no METHOD_TO_PARAMS dict literal in the fix-up script", payload)
            return
        root = genrun.materialise(res)
        if b.shared is not None:
            genrun.materialise_pb2(root, b.shared.pb)      # the dependency's own `shared_pb2` module (protoc's job)
        libpkg = md.get("libraryPackage", "")
        ops = [{"op": "import_all", "package": libpkg},
               {"op": "call", "module": ffiles[0][:-3].replace("/", "."), "attr": f"{cls_name}.METHOD_TO_PARAMS.copy"}]
        plan = []       # (what, service, kind, client, rpc, method) aligned with ops[2:]
        for sname, sdesc in sorted(md.get("services", {}).items()):
            for kind, cdesc in sorted(sdesc.get("clients", {}).items()):
                client = cdesc.get("libraryClient", "")
                ops.append({"op": "dir", "module": libpkg, "attr": client}); plan.append(("dir", sname, kind, client, None, None))
                ops.append({"op": "registry", "module": libpkg, "attr": client}); plan.append(("registry", sname, kind, client, None, None))
                for rpc_name, rdesc in sorted(cdesc.get("rpcs", {}).items()):
                    for meth in rdesc.get("methods", []):
                        ops.append({"op": "signature", "module": libpkg, "attr": f"{client}.{meth}"})
                        plan.append(("signature", sname, kind, client, rpc_name, meth))
        req_msgs = sorted({m["input"] for s in spec["services"] for m in s["methods"] if is_local(m["input"])})
        for mname in req_msgs:
            ops.append({"op": "call", "module": libpkg, "attr": f"{mname}.meta.fields.copy"}); plan.append(("fields", mname, None, None, None, None))
        # the model's emitted classes (for the model-vs-emitted tie)
        for cname, _ in mo["classes"]:
            ops.append({"op": "dir", "module": libpkg, "attr": cname}); plan.append(("model-class", cname, None, None, None, None))
        # old-style call sites for the emitted transformer (run in the same child, after everything else)
        rc = ctx.rng("calls", label, json.dumps(spec, sort_keys=True)[:2000])
        tdict0 = dict(table)
        foreign = ["close", "get_transport_class", "frobnicate"] + \
                  [mm["py_method_name"] for n_ in mo["names"] for mm in n_["methods"] if mm["py_method_name"] not in tdict0][:4]
        calls = gen_calls(rc, tdict0, foreign, ctx.n(10, 16))
        sources = [f"y{k} = {render_call(c)}\n" for k, c in enumerate(calls)]
        ops.append({"op": "c15_fixup", "module": ffiles[0][:-3].replace("/", "."), "sources": sources + ["".join(sources)]})
        out = libhost.run(root, ops, timeout=300)
        fix_out = out.pop()
        ops.pop()
        if "child_error" in out[0]:
            ctx.fail("import-crash", f"library host failed: {out[0]['child_error'][-300:]}", payload)
            return
        imp, fx = out[0], out[1]
        ctx.traces += 1
        # the library as EMITTED: the directory that holds services/<service>/client.py
        libdirs = library_dirs(byname)
        libdir = libdirs[0] if len(libdirs) == 1 else None
        importable = not imp.get("errors") and libpkg in imp.get("modules", [])
        # a library without a namespace part (top-level package `solo_v2`) cannot be imported (its __init__ reads
        # `from .solo_v2 import gapic_version`: C01's subject): the classes, methods and request fields are then
        # read from the emitted source with `ast` instead of by introspection; everything else is observed as usual
        static = (not importable) and libdir is not None and "/" not in libdir
        ctx.count("library_package_shape", ("no namespace part" if libdir is not None and "/" not in libdir else "namespaced")
                  + (", observed statically" if static else ""))
        idx = None
        if static:
            idx = static_index(byname, libdir)
            imp = dict(imp, all=idx["all"])
            out = out[:2] + [static_answer(idx, p) for p in plan]
        # ------------------------------------------------------------------ oracle (statement, independent of the model)
        fails = []      # (key, what)
        if libdir is None:
            fails.append(("library-package", f"libraryPackage {libpkg!r}: the client classes are emitted into {libdirs}"))
        elif libpkg != libdir.replace("/", "."):
            fails.append(("library-package", f"libraryPackage {libpkg!r}, but the library (services/*/client.py, gapic_metadata.json: "
                          f"{mfiles[0]}) is emitted as package {libdir.replace('/', '.')!r}"))
        if static and idx["errors"]:
            fails.append(("emitted-source-syntax", f"{idx['errors'][:2]}"))
        if not importable:
            # (also for a library without a namespace part: importable since the C01 fix ecc5587; the static
            #  observation above only keeps the other clauses observable when the import fails)
            fails.append(("library-package-not-importable", f"libraryPackage {libpkg!r}: {(imp.get('errors') or [])[:2]}"))
        if md.get("protoPackage") != spec["package"]:
            fails.append(("proto-package", f"protoPackage {md.get('protoPackage')!r} for files of package {spec['package']!r}"))
        if dups:
            fails.append(("duplicate-json-key", f"duplicate keys {dups}"))
        want_services = {s["name"] for s in spec["services"]}
        if set(md.get("services", {})) != want_services:
            fails.append(("services-listed", f"services listed {sorted(md.get('services', {}))} expected {sorted(want_services)}"))
        # ... and from the EMITTED package towards the metadata: every client class the library package exports
        # (defined in services/<service>/client.py | async_client.py) is the libraryClient of a listed service under
        # each client kind it serves (client.py: grpc and/or rest as requested; async_client.py: grpc-async)
        if libdir is not None:
            if idx is None:
                idx = static_index(byname, libdir)
            exported = set(imp.get("all") or [])
            listed_by_kind = {}
            for sd_ in md.get("services", {}).values():
                for kind_, cd_ in sd_.get("clients", {}).items():
                    listed_by_kind.setdefault(kind_, set()).add(cd_.get("libraryClient", ""))
            n_emitted = 0
            for svcdir, mods in sorted(idx["service_classes"].items()):
                for modname, classes in sorted(mods.items()):
                    for cname in classes:
                        if cname not in exported:
                            continue
                        n_emitted += 1
                        serves = ({"grpc-async"} if modname == "async_client.py" else {"grpc", "rest"}) & kinds
                        for kind_ in sorted(serves):
                            if cname not in listed_by_kind.get(kind_, set()):
                                fails.append((f"emitted-client-unlisted:{kind_}", f"the library package exports {cname} (services/{svcdir}/{modname}) "
                                              f"but no service of gapic_metadata.json maps client kind {kind_!r} to it (services listed: {sorted(md.get('services', {}))})"))
            ctx.count("exported_client_classes", n_emitted)
        dirs, regs, fields_of = {}, {}, {}
        model_class_dir = {}
        sig_ok, coro = {}, {}
        for p, o in zip(plan, out[2:]):
            what = p[0]
            if what == "dir":
                dirs[(p[1], p[2])] = o.get("names")
            elif what == "registry":
                regs[(p[1], p[2])] = o
            elif what == "signature":
                params = [q[0] for q in o.get("params", [])]
                sig_ok[(p[1], p[2], p[4], p[5])] = len(params) >= 2 and params[0] == "self" and params[1] in ("request", "requests")
                if "params" in o:
                    coro[(p[1], p[2])] = coro.get((p[1], p[2]), []) + [(p[4], bool(o.get("coroutine")))]
            elif what == "fields":
                fields_of[p[1]] = list(o["value"].keys()) if isinstance(o.get("value"), dict) else None
            elif what == "model-class":
                model_class_dir[p[1]] = o.get("names")
        for s in spec["services"]:
            sdesc = md.get("services", {}).get(s["name"])
            if sdesc is None:
                continue
            got_kinds = set(sdesc.get("clients", {}))
            if got_kinds != kinds:
                fails.append(("client-kinds", f"{s['name']}: kinds {sorted(got_kinds)} for transport={spec['transport']} (implied {sorted(kinds)})"))
            for kind, cdesc in sdesc.get("clients", {}).items():
                client = cdesc.get("libraryClient", "")
                names_ = dirs.get((s["name"], kind))
                if names_ is None or client not in imp.get("all", []):
                    fails.append((f"client-class-missing:{kind}", f"{s['name']}/{kind}: class {client!r} does not exist in {libpkg}"))
                    continue
                reg = regs.get((s["name"], kind), {})
                if kind in KIND_TRANSPORT:
                    # the class serves the kind: the synchronous client registers the transport label; the asyncio
                    # client's unary RPC methods are coroutine functions (and the synchronous client's are not)
                    unary = {m["name"] for m in s["methods"] if not m.get("ss")}
                    flags = [c for rp, c in coro.get((s["name"], kind), []) if rp in unary]
                    if kind == "grpc-async":
                        okk = all(flags)
                    else:
                        okk = (static or KIND_TRANSPORT[kind] in (reg.get("keys") or [])) and not any(flags)
                    if not okk:
                        fails.append((f"client-kind-class:{kind}", f"{s['name']}/{kind}: class {client} does not serve that kind (registry {reg.get('keys')}, coroutine flags {flags})"))
                rpcs = cdesc.get("rpcs", {})
                want_rpcs = {m["name"] for m in s["methods"]}
                if set(rpcs) != want_rpcs:
                    fails.append(("rpcs-listed", f"{s['name']}/{kind}: rpcs {sorted(rpcs)} expected {sorted(want_rpcs)}"))
                for rpc_name, rdesc in rpcs.items():
                    ms = rdesc.get("methods", [])
                    if len(ms) != 1:
                        fails.append(("rpc-not-once", f"{s['name']}/{kind}/{rpc_name}: methods {ms}"))
                    for meth in ms:
                        if meth not in names_ or not sig_ok.get((s["name"], kind, rpc_name, meth)):
                            # the recorded finding, by its trigger AND its symptom: the RPC carries google.cloud.operation_service
                            # (spec: extop + ext == "op"), gRPC is requested, the kind is grpc-async, and the asyncio client has
                            # `<method>_unary` but not `<method>` (async_client.py.j2 names the method `<m>_unary` when
                            # method.operation_service). Any other missing method — another RPC of the same API, another kind,
                            # `_unary` missing as well, a present method without a request parameter — keeps the unlisted key
                            m_spec = next((x for x in s["methods"] if x["name"] == rpc_name), None)
                            known = (kind == "grpc-async" and "grpc" in spec["transport"].split("+") and bool(spec.get("extop"))
                                     and m_spec is not None and m_spec.get("ext") == "op"
                                     and meth not in names_ and (meth + "_unary") in names_)
                            fails.append(("extended-operation-async-method-missing" if known else f"method-missing:{kind}", f"{s['name']}/{kind}/{rpc_name}: {client}.{meth} is not an RPC method of the emitted class"))
        # fix-up table
        keys = [k for k, _ in table]
        if len(set(keys)) != len(keys):
            fails.append(("fixup-duplicate-key", f"duplicate keys in METHOD_TO_PARAMS: {sorted(k for k in set(keys) if keys.count(k) > 1)}"))
        tdict = dict(table)
        if not isinstance(fx.get("value"), dict) or {k: list(v) for k, v in fx["value"].items()} != tdict:
            fails.append(("fixup-script-not-loadable", f"importing the script gave {str(fx)[:300]}"))
        oracle_order = {}      # table key -> required-first declaration order, from the INPUT descriptors
        by_rpc_name = {}
        for s in spec["services"]:
            for m in s["methods"]:
                by_rpc_name.setdefault(m["name"], []).append(m)
        all_names = sorted(by_rpc_name)
        clash = {n for n in all_names if sum(1 for n2 in all_names if n2.lower() == n.lower()) > 1}
        for name, ms in by_rpc_name.items():
            cands = [k for k in tdict if nocase(k) == nocase(name)]
            expected = []
            for m in ms:
                fl = input_fields(spec, m)
                # a request declared in another package is not a class of the library: its fields keep their descriptor names
                emitted = fields_of.get(m["input"]) if is_local(m["input"]) else []
                if emitted is None:
                    fails.append(("request-class-missing", f"request class {m['input']} not found in {libpkg}"))
                    continue
                py = []
                for n, _ in fl:
                    c = [e for e in emitted if e in (n, n + "_")]
                    py.append(c[0] if len(c) == 1 else n)
                expected.append([p for p, (_, rq) in zip(py, fl) if rq] + [p for p, (_, rq) in zip(py, fl) if not rq])
            if name in clash:
                # RPC names equal up to letter case: each has its own entry; as a group, the entries carry the
                # groups' request orders (which key belongs to which name is the snake_case function's business)
                group = sorted(n for n in all_names if n.lower() == name.lower())
                if name != group[0]:
                    continue
                gk = sorted(k for k in tdict if any(nocase(k) == nocase(n) for n in group))
                if len(gk) != len(group):
                    fails.append(("fixup-missing-rpc", f"METHOD_TO_PARAMS has {len(gk)} entr{'y' if len(gk) == 1 else 'ies'} {gk} for the {len(group)} RPC names {group}"))
                    continue
                want = []
                for n in group:
                    for m in by_rpc_name[n][:1]:
                        fl = input_fields(spec, m)
                        emitted = (fields_of.get(m["input"]) or []) if is_local(m["input"]) else []
                        py = [([e for e in emitted if e in (fn, fn + "_")] or [fn])[0] for fn, _ in fl]
                        want.append([q for q, (_, rq) in zip(py, fl) if rq] + [q for q, (_, rq) in zip(py, fl) if not rq])
                if all(len(by_rpc_name[n]) == 1 for n in group) and \
                        sorted(json.dumps(tdict[k]) for k in gk) != sorted(json.dumps(w) for w in want):
                    fails.append(("fixup-params", f"{group}: table {[tdict[k] for k in gk]}, required-first declaration orders {want}"))
                continue
            if len(cands) != 1:
                fails.append(("fixup-missing-rpc", f"METHOD_TO_PARAMS has {len(cands)} entries for RPC {name!r} (keys {sorted(tdict)[:12]})"))
                continue
            got = tdict[cands[0]]
            if len({json.dumps(e) for e in expected}) > 1:
                ctx.assume("RPC names shared by several services name one request shape (the fix-up table is keyed by RPC name alone; DESIGN 7.15 forced hypothesis)")
                if got is not None and got not in expected:
                    fails.append(("fixup-params", f"{name}: table {got}, none of the requests' orders {expected}"))
            elif got is not None and expected and got != expected[0]:
                fails.append(("fixup-params", f"{name}: table {got}, required-first declaration order {expected[0]}"))
            if len({json.dumps(e) for e in expected}) == 1 and not (spec.get("add_iam") and cands[0] in IAM_ROWS):
                oracle_order[cands[0]] = expected[0]
        if spec.get("add_iam"):
            for k, v in IAM_ROWS.items():
                if tdict.get(k) != v:
                    fails.append(("fixup-iam-row", f"add-iam-methods: METHOD_TO_PARAMS[{k!r}] = {tdict.get(k)} expected {v}"))
        extra = [k for k in tdict if not any(nocase(k) == nocase(n) for n in by_rpc_name)
                 and not (spec.get("add_iam") and k in IAM_ROWS)]
        if extra:
            fails.append(("fixup-extra-entry", f"keys {sorted(extra)} belong to no RPC of {sorted(by_rpc_name)}"))
        # mixin / legacy IAM client methods exist but are not RPCs of the target package: they must not be listed
        listed = {mt for sd in md.get("services", {}).values() for cd in sd.get("clients", {}).values()
                  for rd in cd.get("rpcs", {}).values() for mt in rd.get("methods", [])}
        own = {mm["py_method_name"] for n_ in mo["names"] for mm in n_["methods"]}
        for a in spec.get("mixins") or []:
            ctx.count("mixin_api", a.split(".")[-1])
            for mt in MIXIN_METHODS[a]:
                if mt in listed and mt not in own:
                    fails.append(("mixin-listed", f"mixin method {mt} of {a} is listed in the metadata"))
                if any(names_ is not None and mt not in names_ for names_ in dirs.values()):
                    ctx.count("mixin_method_absent_on_a_client", mt)
        # ---- the emitted transformer on old-style call sites
        fixed_model = {}
        if not isinstance(fix_out.get("outputs"), list) or len(fix_out["outputs"]) != len(sources) + 1:
            fails.append(("fixup-run-crash", f"running the emitted transformer failed: {str(fix_out)[:300]}"))
        else:
            nodes = [nd for c in calls for nd in all_nodes(c)]
            asked = [nd for nd in nodes if nd["recv"] is not None]
            mres = ctx.driver.ask([{"op": "c15.fix", "table": [[k, v] for k, v in table],
                                    "calls": [{"key": nd["key"], "args": [[kw, i] for i, (kw, _) in enumerate(nd["args"])]} for nd in asked]}])[0]["results"]
            for nd, res_ in zip(asked, mres):
                fixed_model[id(nd)] = res_
            outs = fix_out["outputs"]
            whole = outs[-1]
            if isinstance(whole, dict) or "".join(o for o in outs[:-1] if isinstance(o, str)) != whole:
                fails.append(("fixup-run-file", "transforming the statements one by one and as one module differ"))
            for k, (c, src, got) in enumerate(zip(calls, sources, outs)):
                ctx.case(None, distinct_key=["call", label, src])
                ctx.count("call_style", c["style"] + ("" if c["key"] in tdict else ":foreign"))
                ctx.traces += 1
                cpay = dict(payload, call=src.strip())
                if isinstance(got, dict):
                    fails.append(("fixup-run-crash", f"{src.strip()}: {got}"))
                    continue
                try:
                    gnorm = norm_src(got)
                except SyntaxError as e:
                    fails.append(("fixup-run-syntax", f"{src.strip()} -> {got.strip()!r}: {e}"))
                    continue
                want_model = f"y{k} = {render_call(c, fixed_model)}\n"
                if gnorm != norm_src(want_model):
                    ctx.disagree("T3:c15.fix_call", f"{src.strip()}: model {want_model.strip()} vs emitted script {got.strip()}", cpay)
                # oracle: only the shapes the statement's table semantics determine
                flat = all("lit" in v for _, v in c["args"])
                want = None
                if c["style"] == "fixed" or c["style"] == "bare" or (c["key"] not in tdict):
                    want = src if flat else None                      # left alone
                elif c["style"] in ("pos", "pos+ctrl") and flat and c["key"] in oracle_order:
                    order = oracle_order[c["key"]]
                    vals = [v["lit"] for _, v in c["args"]]
                    want = (f"y{k} = {c['recv']}.{c['key']}(request={{" + ", ".join(f"'{q}': {v}" for q, v in zip(order, vals)) + "}"
                            + "".join(f", {cp}={v}" for cp, v in zip(CTRL, vals[len(order):])) + ")\n")
                if want is not None and gnorm != norm_src(want):
                    kk = {"fixed": "fixup-run:already-fixed", "bare": "fixup-run:foreign-call"}.get(c["style"], "fixup-run:positional" if c["key"] in tdict else "fixup-run:foreign-call")
                    fails.append((kk, f"{src.strip()} was rewritten to {got.strip()}; positional argument i belongs to field i of the required-first declaration order: {want.strip()}"))
        for key, what in fails:
            # keys are assigned where the failure is found, from the input's shape and the symptom; the name of a corpus
            # probe never renames a failure
            if probe:
                ctx.count("excluded_point_failures", f"{probe}:{key}")
                if probe in INFORMATIONAL:
                    continue
            ctx.fail(key, f"[{label}] {what}", dict(payload, probe=probe) if probe else payload)
        # ------------------------------------------------------------------ T3: model vs emitted artefacts
        emitted_cmp = {k: md.get(k) for k in ("protoPackage", "libraryPackage", "services")}
        if norm_md(emitted_cmp) != norm_md(model_md_dict(mo)):
            ctx.disagree("T3:c15.metadata_json", f"model {json.dumps(model_md_dict(mo), sort_keys=True)[:500]} vs emitted {json.dumps(emitted_cmp, sort_keys=True)[:500]}", payload)
        mi_t = dict(mi, op="c15.table", add_iam=bool(spec.get("add_iam")))
        model_table = {k: v for k, v in ctx.driver.ask([mi_t])[0]["fixup"]}
        if model_table != tdict:
            ctx.disagree("T3:c15.fixup_table", f"model {json.dumps(model_table, sort_keys=True)[:500]} vs emitted {json.dumps(tdict, sort_keys=True)[:500]}", payload)
        if not (probe and probe in INFORMATIONAL):
            for cname, meths in mo["classes"]:
                have = model_class_dir.get(cname)
                if have is None or not set(meths) <= set(have):
                    ctx.disagree("T3:c15.emitted_classes", f"model class {cname} with {meths}; emitted {'missing' if have is None else sorted(set(meths) - set(have))}", payload)
    finally:
        b.close()
        if root:
            genrun.cleanup(root)


# excluded points that lie inside the property's own quantifier: failures are reported under these key prefixes
INFORMATIONAL = set()    # names of corpus probes outside this property's subject: counted, never reported
PROBE_KEYS = {"extended_operation_grpc_rest": "extended-operation-async-method-missing"}   # corpus entry -> the finding it replays (documentation; not used to rename failures)


def snake_t2(ctx, r, n):
    from gapic.utils import to_snake_case
    names = list(KEYWORD_RPCS) + list(PLAIN_RPCS) + [s + "_" for s in KEYWORD_RPCS[:8]] + ["_" + s for s in PLAIN_RPCS[:8]]
    alpha = "abcXYZ019_"
    for _ in range(n):
        names.append("".join(r.pick(alpha) for _ in range(r.randint(1, 9))))
    names = [x for x in names if x]
    res = ctx.driver.ask([{"op": "c15.snake", "names": names}])[0]["snake"]
    for nme, mo in zip(names, res):
        ctx.case(None, distinct_key=["snake", nme])
        ctx.traces += 1
        if to_snake_case(nme) != mo:
            ctx.disagree("T2:c15.to_snake_case", f"{nme!r}: model {mo!r} vs impl {to_snake_case(nme)!r}", {"name": nme})


def private_driver(ctx):
    """other builders relink lean/.lake/build/bin/driver while this check runs: work on a private copy
    taken under the build lock (removed in `run`'s finally)"""
    import fcntl, shutil, leanio
    if not os.path.exists(leanio.DRIVER_BIN):
        return None
    fd, path = tempfile.mkstemp(prefix="gapicverif_c15_driver_", dir=genrun.SCRATCH)
    os.close(fd)
    with open(os.path.join(leanio.LEAN_DIR, ".lake", "verif.build.lock"), "w") as lock:
        fcntl.flock(lock, fcntl.LOCK_EX)
        shutil.copy2(leanio.DRIVER_BIN, path)
    os.chmod(path, 0o755)
    ctx.driver.cmd = [path]
    return path


def run(ctx):
    path = private_driver(ctx)
    try:
        _run(ctx)
    finally:
        if path:
            try:
                os.unlink(path)
            except OSError:
                pass


def _run(ctx):
    ctx.rule = ("APIs of 2..4 services in one package (1 or 2 proto files; 4 package shapes; optional name/namespace options) with "
                "0..5 RPCs each (service shapes: no RPC at all, exactly one, only streaming, only internal, ordinary; the empty service "
                "sometimes first / last / first and last by name) drawn from keyword-named (any letter case), internal (selective generation, "
                "generate_omitted_as_internal), snake/acronym/digit-named pools; requests of 0..7 fields drawn from reserved-word and "
                "plain pools (REQUIRED at random positions — also on proto3-optional fields and members of a real oneof —, repeated/map/optional/oneof/message/enum; field NUMBERS shuffled/gapped/reversed "
                "independently of the declaration order), Empty requests, streaming and "
                "LRO RPCs, optional Locations/IAMPolicy mixins and add-iam-methods, services spread over 1..3 proto files x transports "
                "{grpc, rest, grpc+rest, rest+grpc}; a second stream of the same APIs as libraries WITHOUT a namespace part (proto package "
                "<name>.<version> or <name>, no namespace option; observed through the emitted source); per API 10..16 old-style call sites for the emitted transformer; distinct by API spec "
                "and by (API, call site); every API is non-trivial")
    ctx.assume("one target proto package without sub-packages: service names are pairwise distinct (WF)")
    ctx.assume("RPC names are pairwise distinct up to case/underscores inside a service's snake_case image (two RPCs mapping to one python method name are C12's subject)")
    ctx.assume("no request message has both `x` and `x_` (python-level field names pairwise distinct)")
    ctx.assume("no service whose snake_case name is a Python keyword (`from .services.import import ImportClient`: C12/C01's subject)")
    ctx.assume("exported client class names are pairwise distinct (ClassNamesDistinct): no service `FooAsync` next to a service `Foo` — both would own a class FooAsyncClient (Props.C15.class_name_clash_counterexample; not generated)")
    ctx.assume("extended-operation RPCs (google.cloud.operation_service) are generated with transport=rest only; with gRPC transports the asyncio client only has `<m>_unary` (Props.C15.names_exist_extended_operation_async_counterexample; corpus probe, known finding)")
    r = ctx.rng("apis")
    # corpus first
    cdir = os.path.join(os.path.dirname(os.path.dirname(os.path.dirname(os.path.abspath(__file__)))), "corpus", "C15")
    builtin = dict(corpus_specs())
    if os.path.isdir(cdir):
        for fn in sorted(os.listdir(cdir)):
            if fn.endswith(".json"):
                with open(os.path.join(cdir, fn)) as fh:
                    blob = json.load(fh)
                builtin[fn[:-5]] = blob.get("payload", blob)["spec"]
    for name, spec in sorted(builtin.items()):
        run_spec(ctx, copy.deepcopy(spec), f"corpus:{name}", probe=name if name in PROBE_KEYS or name in INFORMATIONAL else None)
    snake_t2(ctx, ctx.rng("snake"), ctx.n(200, 3000))
    for i in range(ctx.n(18, 360)):
        spec = gen_spec(r, i)
        if i % 3 == 1:
            add_cross_package(spec, ctx.rng("cross-package", i))
        run_spec(ctx, spec, f"api{i}")
    # libraries without a namespace part (proto package `<name>.<version>`, no namespace option): own stream
    r2 = ctx.rng("apis-no-namespace")
    for i in range(ctx.n(4, 60)):
        spec = gen_spec(r2, i, transport=TRANSPORTS[(i + i // 4) % len(TRANSPORTS)], no_namespace=True)
        if i % 2 == 1:
            add_cross_package(spec, ctx.rng("cross-package-no-namespace", i))
        run_spec(ctx, spec, f"nons{i}")


def search(ctx):
    path = private_driver(ctx)
    try:
        r = ctx.rng("search")
        for i in range(24):
            spec = gen_spec(r, i, no_namespace=(i % 3 == 2))
            if i % 2 == 1:
                add_cross_package(spec, ctx.rng("search-cross-package", i))
            run_spec(ctx, spec, f"search{i}")
    finally:
        if path:
            try:
                os.unlink(path)
            except OSError:
                pass


def replay(ctx, payload):
    import leanio
    ctx.driver = leanio.Driver()
    if "spec" in payload:
        run_spec(ctx, payload["spec"], "replay", probe=payload.get("probe"))
    elif "name" in payload:
        snake_t2(ctx, ctx.rng("replay"), 0)
    for f in ctx.failures:
        print("  failure:", f["key"], "-", f["what"])
    for d in ctx.disagreements:
        print("  model/implementation disagreement (not a failure of the property by itself):", d["correspondence"], "-", d["what"][:300])
    return not ctx.failures


CLAIM = dict(
    text=('Lean 4 proof that, for APIs with pairwise distinct service names and RPC names (per service), the nested '
          'get_or_create construction of API.gapic_metadata lists every (service, client kind, RPC) exactly once — as a multiset '
          'its rows are exactly {(service, kind, client class, rpc, snake_case(client_method_name))} for the kinds implied by the '
          'transports (grpc => grpc + grpc-async, rest => rest) —, that every listed class/method is one the client templates emit '
          '(model of client.py.j2 / async_client.py.j2; hypotheses: exported class names distinct, no extended operations for '
          'grpc-async), that proto and library package are recorded (for a library without a namespace part the library package is the versioned module name itself: library_package_no_namespace), that legacy_flattened_fields is the stable partition '
          '"required first, otherwise declaration order" and a permutation of the request fields, and that the fix-up table has an '
          'entry for every RPC name (carrying exactly that RPC\'s fields when RPCs sharing a name share their request fields). '
          'Also modelled and proved: the add-iam-methods rows of the table (looked up with their fixed parameters) and the emitted '
          'transformer\'s leave_Call (positional argument i -> table name i, surplus positionals -> retry/timeout/metadata, calls '
          'with request= unchanged: idempotent; keyword arguments are re-bound positionally — counterexample theorem); the legacy '
          'order is independent of field numbers; toSnakeCase and makePrivate are proved equal to the functions translated from the source. '
          'Regression theorem for the repaired case-insensitive unique(); counterexample theorems: shared RPC names, extended operations on the asyncio client, '
          'Foo/FooAsync class clash, duplicate service names. Tie: T2 API.gapic_metadata, client_name, async_client_name, '
          'client_method_name, to_snake_case, legacy_flattened_fields vs the model on generated APIs; T3 the emitted '
          'gapic_metadata.json and METHOD_TO_PARAMS (AST + import with libcst) vs the model and, independent of the model, vs '
          'introspection of the imported package (class exists and serves the kind, method exists with a request parameter) and '
          'the input descriptors (required first, declaration order, python-level field names of the emitted request class); in the other '
          'direction every client class the emitted package exports (services/<svc>/client.py, async_client.py, read with ast) must be the '
          'libraryClient of a listed service under each kind it serves (services without RPCs included: metadata_clients_complete_once, '
          'emitted_classes_listed); the emitted '
          'transformer is RUN with libcst on generated old-style call sites (positional, surplus control arguments, keywords in and out '
          'of order, nested calls, already fixed calls, foreign and bare calls) and compared with the model and with the required-first '
          'declaration order of the input descriptors. The library package named by the metadata is compared with the directory the '
          'client classes are emitted into; APIs without a namespace part (proto package <name>.<version>; not importable, C01) are '
          'generated in their own stream and their classes, methods and request fields are read from the emitted source with ast.'),
    technique='Lean 4 theorems (list permutation / no-duplicate arguments over a get_or_create model) + differential T2/T3 against the generator and the emitted package',
    design='7.15',
    note=('Naming (module namespace, versioned module name) is read from the real Naming object and is C11\'s subject. '
          'Jinja evaluation of the fix-up template is reached only through T3. Known finding: extended-operation RPCs on the asyncio client (gRPC transports).'),
)
