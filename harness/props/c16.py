"""C16 — selective generation keeps exactly the listed RPCs and a closed set of types (DESIGN §7.16)."""
from __future__ import annotations
import copy, json, os, tempfile
import apigen, genrun, libhost, rpc

PKG = "acme.lib.v1"
HERE = os.path.dirname(os.path.abspath(__file__))
ROOT = os.path.dirname(os.path.dirname(HERE))
CORPUS = os.path.join(ROOT, "corpus", "C16")

DATA_NAMES = ["Book", "Shelf", "Author", "Tag", "Note", "Outer", "Config", "Blob", "Meta", "Label", "Page", "Cover"]
NESTED_NAMES = ["Inner", "Detail", "Part", "Info"]
ENUM_NAMES = ["Color", "Kind", "State", "Mode"]
SVC_NAMES = ["Library", "Archive", "Catalog"]
SCALARS = ["string", "int32", "bool", "int64", "bytes", "double"]

# --------------------------------------------------------------------------------------------------
# spec generator ("selective" profile of DESIGN §7.16): shared / nested / recursive types, resources,
# LRO, paged and extended-operation methods, services that become empty after the filter.


def _msg(name, fields=None, nested=None, enums=None, resource=None):
    return {"name": name, "fields": fields or [], "nested": nested or [], "enums": enums or [], "resource": resource}


def _walk(msgs, prefix):
    """(full name, msg spec) for every message declared under `prefix`, depth first"""
    for m in msgs:
        full = f"{prefix}.{m['name']}"
        yield full, m
        yield from _walk(m["nested"], full)


def all_messages(spec):
    out = []
    for f in spec["files"]:
        out += list(_walk(f["messages"], f["package"]))
    return out


def all_enums(spec):
    out = []
    for f in spec["files"]:
        out += [f"{f['package']}.{e}" for e in f["enums"]]
        for full, m in _walk(f["messages"], f["package"]):
            out += [f"{full}.{e}" for e in m["enums"]]
    return out


def all_methods(spec, package=None):
    out = []
    for f in spec["files"]:
        if package and f["package"] != package:
            continue
        for s in f["services"]:
            out += [f"{f['package']}.{s['name']}.{m['name']}" for m in s["methods"]]
    return out


def gen_spec(r: apigen.Rng, *, t3=False, ext=None, nested_parent_hazard=None):
    """`t3`: only importable dependencies (installed *_pb2), gRPC-callable method kinds.
    `nested_parent_hazard`: allow a request to reference a nested type whose enclosing message is not
    otherwise referenced (the shape behind the known finding); None = random (rare)."""
    if ext is None:
        ext = (not t3) and r.maybe(0.25)
    if nested_parent_hazard is None:
        nested_parent_hazard = r.maybe(0.12)
    files = []
    shared = {"name": "acme/lib/v1/shared.proto", "package": PKG, "deps": [], "resdefs": [], "enums": [], "messages": [], "services": []}
    lib = {"name": "acme/lib/v1/lib.proto", "package": PKG, "deps": ["acme/lib/v1/shared.proto"], "resdefs": [], "enums": [], "messages": [], "services": []}
    extra = {"name": "acme/lib/v1/extra.proto", "package": PKG, "deps": ["acme/lib/v1/shared.proto"], "resdefs": [], "enums": [], "messages": [], "services": []}
    dep = {"name": "acme/common/common.proto", "package": "acme.common", "deps": [], "resdefs": [], "enums": ["Unit"], "messages": [
        _msg("Money", [{"name": "units", "t": "int64"}, {"name": "unit", "enum": ".acme.common.Unit"}]),
        _msg("Region", [{"name": "name", "t": "string"}], resource=["common.example.com/Region", "regions/{region}"])], "services": []}
    use_dep = (not t3) and r.maybe(0.6)
    if use_dep:
        shared["deps"].append(dep["name"]); lib["deps"].append(dep["name"])
    # ---- data types
    names = list(DATA_NAMES); r.shuffle(names)
    ndata = r.randint(4, 8)
    data = []
    for i in range(ndata):
        m = _msg(names[i])
        if r.maybe(0.45):
            for nn in r.sample(NESTED_NAMES, r.randint(1, 2)):
                sub = _msg(nn)
                if r.maybe(0.25):
                    sub["nested"].append(_msg("Leaf"))
                if r.maybe(0.3):
                    sub["enums"].append("Level")
                m["nested"].append(sub)
        if r.maybe(0.35):
            m["enums"].append(r.pick(["Kind", "Mode"]))
        if r.maybe(0.4):
            m["resource"] = [f"lib.example.com/{m['name']}", f"{m['name'].lower()}s/{{{m['name'].lower()}}}"]
        (shared if r.maybe(0.6) else lib)["messages"].append(m)
        data.append(m)
    for e in r.sample(ENUM_NAMES, r.randint(1, 3)):
        (shared if r.maybe(0.5) else lib)["enums"].append(e)
    spec = {"files": [shared, lib], "target_package": PKG, "version": PKG, "listed": [], "internal": False}
    if use_dep:
        spec["files"].insert(0, dep)
    if r.maybe(0.5):
        shared["resdefs"].append(["other.example.com/Thing", "things/{thing}"])
    # extra file: never referenced from lib/shared; sometimes carries a service of its own
    if r.maybe(0.6):
        extra["messages"].append(_msg("Orphan", [{"name": "x", "t": "string"}], enums=["Flavor"] if r.maybe(0.5) else []))
        extra["enums"].append("Loose")
        if r.maybe(0.5):
            extra["messages"].append(_msg("PingRequest", [{"name": "o", "msg": f".{PKG}.Orphan"}]))
            extra["services"].append({"name": "Pinger", "methods": [
                {"name": "Ping", "input": f".{PKG}.PingRequest", "output": f".{PKG}.Orphan"}]})
        spec["files"].append(extra)

    def type_pools(exclude_hazard=True):
        msgs, enums = [], []
        for f in spec["files"]:
            if f is extra:
                continue
            for full, m in _walk(f["messages"], f["package"]):
                msgs.append(full)
            enums += [f"{f['package']}.{e}" for e in f["enums"]]
            for full, m in _walk(f["messages"], f["package"]):
                enums += [f"{full}.{e}" for e in m["enums"]]
        return msgs, enums

    wkt = [".google.protobuf.Timestamp", ".google.protobuf.Duration", ".google.rpc.Status", ".google.protobuf.FieldMask"]
    res_types = [m["resource"][0] for f in spec["files"] for m in f["messages"] if m.get("resource")] + \
                [x[0] for f in spec["files"] for x in f["resdefs"]] + ["nowhere.example.com/Ghost"]

    def toplevel(full):
        return full.count(".") == len(PKG.split("."))

    def fill(m, full, own_file, budget, nested_ok):
        """random fields for message m (declared as `full`)"""
        msgs, enums = type_pools()
        if not nested_ok:
            # references to a nested type only from inside its own top-level message
            top = ".".join(full.split(".")[:len(PKG.split(".")) + 1])
            msgs = [x for x in msgs if toplevel(x) or x.startswith(top + ".") or not x.startswith(PKG + ".")]
            enums = [x for x in enums if toplevel(x) or x.startswith(top + ".") or not x.startswith(PKG + ".")]
        k = 0
        m["fields"].append({"name": "name", "t": "string"})
        for _ in range(budget):
            k += 1
            c = r.random()
            fn = f"f{k}"
            if c < 0.3:
                m["fields"].append({"name": fn, "t": r.pick(SCALARS), "repeated": r.maybe(0.2)})
            elif c < 0.6 and msgs:
                tgt = full if r.maybe(0.12) else r.pick(msgs)       # self-recursion now and then
                m["fields"].append({"name": fn, "msg": "." + tgt, "repeated": r.maybe(0.3)})
            elif c < 0.72 and enums:
                m["fields"].append({"name": fn, "enum": "." + r.pick(enums), "repeated": r.maybe(0.2)})
            elif c < 0.8 and msgs:
                m["fields"].append({"name": fn, "map": "." + r.pick(msgs)})
            elif c < 0.86:
                m["fields"].append({"name": fn, "msg": r.pick(wkt)})
            elif c < 0.96:
                m["fields"].append({"name": fn, "t": "string", ("child_ref" if r.maybe(0.3) else "ref"): r.pick(res_types)})
            else:
                m["fields"].append({"name": fn, "map": None})
    for f in (shared, lib):
        for full, m in list(_walk(f["messages"], PKG)):
            fill(m, full, f, r.randint(0, 3), nested_ok=nested_parent_hazard)
    # ---- services
    op_msg = None
    if ext:
        op_msg = _msg("Operation", [{"name": "name", "t": "string", "opfield": 1}, {"name": "status", "enum": f".{PKG}.Operation.Status", "opfield": 2},
                                    {"name": "error_code", "t": "int32", "opfield": 3}, {"name": "error_message", "t": "string", "opfield": 4}],
                      enums=["Status"])
        lib["messages"].append(op_msg)
    nsvc = r.randint(1, 3)
    msgs, enums = type_pools()
    data_top = [x for x in msgs if toplevel(x) and x.split(".")[-1] in [d["name"] for d in data]]
    mcount = 0
    for si in range(nsvc):
        svc = {"name": SVC_NAMES[si], "methods": []}
        for _ in range(r.randint(1, 4)):
            if mcount >= 8:
                break
            mcount += 1
            tgt = r.pick(data_top)
            short = tgt.split(".")[-1]
            kinds = ["get", "get", "list", "lro", "create", "stream"]
            kind = r.pick(kinds)
            mname = {"get": "Get", "list": "List", "lro": "Export", "create": "Create", "stream": "Watch"}[kind] + short + (str(mcount) if any(
                mm["name"].startswith({"get": "Get", "list": "List", "lro": "Export", "create": "Create", "stream": "Watch"}[kind] + short) for s2 in lib["services"] + [svc] for mm in s2["methods"]) else "")
            rq = _msg(mname + "Request")
            fill(rq, f"{PKG}.{rq['name']}", lib, r.randint(0, 3), nested_ok=nested_parent_hazard)
            meth = {"name": mname, "input": f".{PKG}.{rq['name']}", "output": "." + tgt}
            if kind == "list":
                rq["fields"] += [{"name": "page_size", "t": "int32"}, {"name": "page_token", "t": "string"}]
                rs = _msg(mname + "Response", [{"name": "items", "msg": "." + tgt, "repeated": True}, {"name": "next_page_token", "t": "string"}])
                lib["messages"].append(rs)
                meth["output"] = f".{PKG}.{rs['name']}"
            elif kind == "lro":
                meta = _msg(mname + "Metadata", [{"name": "progress", "t": "int32"}])
                if r.maybe(0.5):
                    meta["fields"].append({"name": "last", "msg": "." + r.pick(data_top)})
                (shared if r.maybe(0.4) else lib)["messages"].append(meta)
                meth["output"] = ".google.longrunning.Operation"
                # operation_info type names are resolved relative to the package: use both spellings
                meth["lro"] = [short if r.maybe(0.5) else tgt, meta["name"] if r.maybe(0.5) else f"{PKG}.{meta['name']}"]
            elif kind == "stream":
                meth["ss"] = True
            elif kind == "create" and r.maybe(0.3):
                meth["output"] = ".google.protobuf.Empty"
            lib["messages"].append(rq)
            svc["methods"].append(meth)
        lib["services"].append(svc)
    if ext:
        ops = {"name": "RegionOperations", "methods": []}
        lib["messages"].append(_msg("GetRegionOperationRequest", [{"name": "operation", "t": "string", "opresp": 1}, {"name": "zone", "t": "string"}]))
        lib["messages"].append(_msg("WaitOperationRequest", [{"name": "operation", "t": "string"}, {"name": "hint", "msg": "." + r.pick(data_top)}]))
        ops["methods"].append({"name": "Get", "input": f".{PKG}.GetRegionOperationRequest", "output": f".{PKG}.Operation", "polling": True})
        ops["methods"].append({"name": "Wait", "input": f".{PKG}.WaitOperationRequest", "output": f".{PKG}.Operation"})
        lib["services"].append(ops)
        starter = _msg("InsertThingRequest", [{"name": "zone", "t": "string", "opreq": "zone"}, {"name": "thing", "msg": "." + r.pick(data_top)}])
        lib["messages"].append(starter)
        r.pick(lib["services"][:-1])["methods"].append({"name": "InsertThing", "input": f".{PKG}.InsertThingRequest", "output": f".{PKG}.Operation", "opservice": "RegionOperations"})
    # a file in shared may not reference lib (no import cycle): drop such fields
    lib_names = {full for full, _ in _walk(lib["messages"], PKG)} | {f"{PKG}.{e}" for e in lib["enums"]}
    lib_names |= {f"{full}.{e}" for full, m in _walk(lib["messages"], PKG) for e in m["enums"]}
    for full, m in _walk(shared["messages"], PKG):
        m["fields"] = [fd for fd in m["fields"] if not any((fd.get(k) or "").lstrip(".") in lib_names for k in ("msg", "enum", "map"))]
    # ---- the listed subset
    meths = all_methods(spec, PKG)
    k = r.randint(1, min(5, len(meths)))
    spec["listed"] = sorted(r.sample(meths, k))
    spec["internal"] = r.maybe(0.5)
    return spec


def subsets(r, spec, n):
    """n further (listed, internal) choices for the same API (incl. single-method and all-but-one subsets)"""
    meths = all_methods(spec, PKG)
    out = []
    for i in range(n):
        c = r.random()
        if c < 0.3:
            sub = [r.pick(meths)]
        elif c < 0.45 and len(meths) > 1:
            drop = r.pick(meths); sub = [m for m in meths if m != drop]
        elif c < 0.55:
            sub = list(meths)
        else:
            sub = r.sample(meths, r.randint(1, min(5, len(meths))))
        out.append((sorted(sub), r.maybe(0.5)))
    return out

# --------------------------------------------------------------------------------------------------
# spec -> descriptors (apigen stands in for protoc)


def build_files(spec):
    from google.cloud import extended_operations_pb2 as ex
    files = []
    for fs in spec["files"]:
        f = apigen.File(fs["name"], fs["package"])
        for d in fs["deps"]:
            f.dep(d)
        f.dep("google/rpc/status.proto", "google/cloud/extended_operations.proto")
        for t, pat in fs["resdefs"]:
            f.resource_definition(t, pat)
        for e in fs["enums"]:
            f.enum(e, [f"{e.upper()}_UNSPECIFIED", f"{e.upper()}_ONE", f"{e.upper()}_TWO"])

        def emit(m, ms):
            for e in ms["enums"]:
                m.nested_enum(e, ["UNDEFINED_STATUS", "DONE", "PENDING"] if e == "Status" else [f"{e.upper()}_UNSPECIFIED", f"{e.upper()}_A"])
            for sub in ms["nested"]:
                emit(m.nested(sub["name"]), sub)
            if ms.get("resource"):
                m.resource(ms["resource"][0], ms["resource"][1])
            for fd in ms["fields"]:
                kw = {}
                if fd.get("ref"):
                    kw["ref"] = fd["ref"]
                if fd.get("child_ref"):
                    kw["child_ref"] = fd["child_ref"]
                if "map" in fd:
                    if fd["map"]:
                        m.map_field(fd["name"], "string", "message", vtype_name=fd["map"])
                    else:
                        m.map_field(fd["name"], "string", "int32")
                    continue
                if fd.get("msg"):
                    pf = m.field(fd["name"], "message", type_name=fd["msg"], repeated=fd.get("repeated", False), **kw)
                elif fd.get("enum"):
                    pf = m.field(fd["name"], "enum", type_name=fd["enum"], repeated=fd.get("repeated", False), **kw)
                else:
                    pf = m.field(fd["name"], fd.get("t", "string"), repeated=fd.get("repeated", False), **kw)
                if fd.get("opfield"):
                    pf.options.Extensions[ex.operation_field] = fd["opfield"]
                if fd.get("opresp"):
                    pf.options.Extensions[ex.operation_response_field] = "name"
                if fd.get("opreq"):
                    pf.options.Extensions[ex.operation_request_field] = fd["opreq"]
        for ms in fs["messages"]:
            emit(f.msg(ms["name"]), ms)
        for ss in fs["services"]:
            svc = f.service(ss["name"])
            for mm in ss["methods"]:
                http = None
                if spec.get("rest"):
                    http = ("post", f"/v1/{ss['name'].lower()}/{mm['name']}")
                pm = svc.method(mm["name"], mm["input"], mm["output"], lro=tuple(mm["lro"]) if mm.get("lro") else None,
                                ss=mm.get("ss", False), http=http, body="*" if http else None)
                if mm.get("opservice"):
                    pm.options.Extensions[ex.operation_service] = mm["opservice"]
                if mm.get("polling"):
                    pm.options.Extensions[ex.operation_polling_method] = True
        files.append(f)
    return files


def service_yaml(spec, listed=None, internal=None, version=None, extra_settings=()):
    listed = spec["listed"] if listed is None else listed
    internal = spec["internal"] if internal is None else internal
    ls = [{"version": version or spec["version"], "python_settings": {"common": {"selective_gapic_generation": {
        "methods": list(listed), "generate_omitted_as_internal": bool(internal)}}}}]
    for v, ms in extra_settings:
        ls.append({"version": v, "python_settings": {"common": {"selective_gapic_generation": {"methods": list(ms)}}}})
    return {"type": "google.api.Service", "config_version": 3, "name": "lib.example.com", "publishing": {"library_settings": ls}}


class Yaml:
    """service yaml on disk for the duration of a `with` block (the generator takes a path)"""

    def __init__(self, doc):
        self.doc = doc

    def __enter__(self):
        fd, self.path = tempfile.mkstemp(prefix="c16_", suffix=".yaml", dir=genrun.SCRATCH)
        with os.fdopen(fd, "w") as fh:
            json.dump(self.doc, fh)          # JSON is YAML
        return self.path

    def __exit__(self, *a):
        try:
            os.unlink(self.path)
        except OSError:
            pass


def make_request(spec, files, yaml_path=None, transport="grpc"):
    params = f"transport={transport},autogen-snippets=false"
    if yaml_path:
        params += f",service-yaml={yaml_path}"
    targets = [f for f, fs in zip(files, spec["files"]) if fs["package"] == spec["target_package"]]
    return apigen.request(files, params, targets=targets)

# --------------------------------------------------------------------------------------------------
# the oracle's own reachability, on the INPUT descriptors (independent of gapic and of the Lean model)


class Descs:
    def __init__(self, files, package):
        from google.api import resource_pb2
        from google.longrunning import operations_pb2
        from google.cloud import extended_operations_pb2 as ex
        self.package = package
        self.msgs, self.enums, self.methods, self.services = {}, {}, {}, {}
        self.nested_of, self.parent_of = {}, {}
        self.res_decl = {}
        self.file_of = {}
        allf = [f.pb if hasattr(f, "pb") else f for f in files] + list(apigen.dep_files())
        for fd in allf:
            def walk(m, prefix, parent):
                full = f"{prefix}.{m.name}"
                self.msgs[full] = m
                self.file_of[full] = fd.name
                self.parent_of[full] = parent
                self.nested_of[full] = []
                for e in m.enum_type:
                    self.enums[f"{full}.{e.name}"] = e
                    self.parent_of[f"{full}.{e.name}"] = full
                    self.file_of[f"{full}.{e.name}"] = fd.name
                    self.nested_of[full].append(f"{full}.{e.name}")
                for n in m.nested_type:
                    self.nested_of[full].append(f"{full}.{n.name}")
                    walk(n, full, full)
                rt = m.options.Extensions[resource_pb2.resource].type
                if rt and parent is None:
                    self.res_decl.setdefault(rt, full)
            for m in fd.message_type:
                walk(m, fd.package, None)
            for e in fd.enum_type:
                self.enums[f"{fd.package}.{e.name}"] = e
                self.parent_of[f"{fd.package}.{e.name}"] = None
                self.file_of[f"{fd.package}.{e.name}"] = fd.name
            for s in fd.service:
                self.services[f"{fd.package}.{s.name}"] = (fd, s)
                for mm in s.method:
                    self.methods[f"{fd.package}.{s.name}.{mm.name}"] = (fd, s, mm)
        self.resource_pb2, self.operations_pb2, self.ex = resource_pb2, operations_pb2, ex

    def resolve(self, name, pkg):
        name = name.lstrip(".")
        return name if name in self.msgs else f"{pkg}.{name}"

    def reach(self, listed):
        """(types, methods, services) the statement obliges the library to keep"""
        todo, types = [], set()
        methods, services = set(), set()
        for fq in listed:
            if fq not in self.methods:
                continue
            fd, s, mm = self.methods[fq]
            if not fd.package.startswith(self.package):
                continue
            methods.add(fq); services.add(f"{fd.package}.{s.name}")
            todo += [mm.input_type.lstrip("."), mm.output_type.lstrip(".")]
            oi = mm.options.Extensions[self.operations_pb2.operation_info]
            if mm.output_type == ".google.longrunning.Operation" and oi.response_type:
                todo += [self.resolve(oi.response_type, fd.package), self.resolve(oi.metadata_type, fd.package)]
            ops = mm.options.Extensions[self.ex.operation_service]
            if ops:
                osvc = next(x for x in fd.service if x.name == ops)
                poll = next(x for x in osvc.method if x.options.Extensions[self.ex.operation_polling_method])
                services.add(f"{fd.package}.{ops}"); methods.add(f"{fd.package}.{ops}.{poll.name}")
                todo += [poll.input_type.lstrip("."), poll.output_type.lstrip(".")]
        while todo:
            t = todo.pop()
            if t in types:
                continue
            types.add(t)
            if t in self.enums:
                continue
            m = self.msgs[t]
            todo += self.nested_of[t]
            for f in m.field:
                if f.type_name:
                    todo.append(f.type_name.lstrip("."))
                ref = f.options.Extensions[self.resource_pb2.resource_reference]
                rt = ref.type or ref.child_type
                if rt and rt in self.res_decl:
                    todo.append(self.res_decl[rt])
        return types, methods, services

    def in_target(self, full):
        return full.startswith(self.package + ".") and self.file_of.get(full, "").startswith("acme/")

    def with_enclosing(self, types):
        """types plus the messages enclosing them plus everything declared inside those (what a python class
        tree must contain at least if the nested class is to exist)"""
        out = set(types)
        todo = list(types)
        while todo:
            t = todo.pop()
            p = self.parent_of.get(t)
            for x in ([p] if p else []) + self.nested_of.get(t, []):
                if x not in out:
                    out.add(x); todo.append(x)
        # and whatever those reference
        more = True
        while more:
            more = False
            for t in list(out):
                if t in self.msgs:
                    for f in self.msgs[t].field:
                        n = f.type_name.lstrip(".")
                        if n and n not in out:
                            out.add(n); more = True
                        ref = f.options.Extensions[self.resource_pb2.resource_reference]
                        rt = ref.type or ref.child_type
                        if rt and rt in self.res_decl and self.res_decl[rt] not in out:
                            out.add(self.res_decl[rt]); more = True
                    for x in self.nested_of[t]:
                        if x not in out:
                            out.add(x); more = True
                p = self.parent_of.get(t)
                if p and p not in out:
                    out.add(p); more = True
        return out

# --------------------------------------------------------------------------------------------------
# extraction of the REAL type graph from the schema objects (T2): nodes are numbered with a python
# dict keyed by the metadata.Address objects themselves, i.e. with the real __eq__/__hash__.


class Graph:
    def __init__(self, api):
        import collections
        self.api = api
        self.ids = {}
        self.names = {}
        self.msgs = {}
        self.inconsistent = []
        self._seen = set()
        self.resmap = collections.ChainMap(*(p.resource_messages for p in api.all_protos.values()))
        for proto in api.all_protos.values():
            for m in proto.all_messages.values():
                self._msg(m)
            for e in proto.all_enums.values():
                self.aid(e.ident)
        self.resources = []
        for k in self.resmap:
            self._msg(self.resmap[k])
            self.resources.append([k, self.aid(self.resmap[k].ident)])
        self.protos, self.deps = [], []
        for name, proto in api.all_protos.items():
            (self.protos if name in api.protos else self.deps).append(self._proto(name, proto))

    def aid(self, addr):
        if addr not in self.ids:
            self.ids[addr] = len(self.ids)
            self.names[self.ids[addr]] = addr.proto
        return self.ids[addr]

    def _msg(self, m):
        if id(m) in self._seen:
            return
        self._seen.add(id(m))
        a = self.aid(m.ident)
        st = {"addr": a,
              "fields": [[self.aid(f.message.ident) if f.message else None, self.aid(f.enum.ident) if f.enum else None,
                          f.resource_reference] for f in m.fields.values()],
              "nested_enums": [self.aid(e.ident) for e in m.nested_enums.values()],
              "nested_msgs": [self.aid(n.ident) for n in m.nested_messages.values()]}
        if a in self.msgs and self.msgs[a] != st:
            self.inconsistent.append(m.ident.proto)
        self.msgs.setdefault(a, st)
        for f in m.fields.values():
            if f.message:
                self._msg(f.message)
        for n in m.nested_messages.values():
            self._msg(n)

    def _method(self, m):
        for t in (m.input, m.output):
            self._msg(t)
        lro = None
        if m.lro:
            self._msg(m.lro.response_type); self._msg(m.lro.metadata_type)
            lro = [self.aid(m.lro.response_type.ident), self.aid(m.lro.metadata_type.ident)]
        ext = None
        if m.extended_lro and m.operation_service:
            self._msg(m.extended_lro.request_type); self._msg(m.extended_lro.operation_type)
            ext = {"svc": m.operation_service, "request": self.aid(m.extended_lro.request_type.ident),
                   "operation": self.aid(m.extended_lro.operation_type.ident)}
        return {"addr": self.aid(m.ident), "name": m.name, "fqn": m.ident.proto, "input": self.aid(m.input.ident),
                "output": self.aid(m.output.ident), "lro": lro, "ext": ext, "polling": bool(m.is_operation_polling_method),
                "internal": bool(m.is_internal)}

    def _proto(self, name, proto):
        return {"name": name,
                "services": [{"addr": self.aid(s.meta.address), "name": s.name,
                              "methods": [self._method(m) for m in s.methods.values()]} for s in proto.services.values()],
                "messages": [self.aid(v.ident) for v in proto.all_messages.values()],
                "enums": [self.aid(v.ident) for v in proto.all_enums.values()]}

    def json(self):
        return {"protos": self.protos, "deps": self.deps, "msgs": list(self.msgs.values()), "resources": self.resources}

    def summary(self, proto, name=None):
        """the same observables of a (possibly pruned / internal-marked) real Proto as the driver reports"""
        if proto is None:
            return None
        return {"name": name if name is not None else proto.name,
                "services": [{"addr": self.ids.get(s.meta.address, -1), "name": s.name, "internal": bool(s.is_internal),
                              "client_name": s.client_name, "async_client_name": s.async_client_name,
                              "methods": [{"addr": self.ids.get(m.ident, -1), "name": m.name, "internal": bool(m.is_internal),
                                           "client_method_name": m.client_method_name} for m in s.methods.values()]}
                             for s in proto.services.values()],
                "messages": [self.ids.get(v.ident, -1) for v in proto.all_messages.values()],
                "enums": [self.ids.get(v.ident, -1) for v in proto.all_enums.values()]}


def real_allowlist(g: Graph, listed):
    al = set()
    for proto in g.api.protos.values():
        proto.add_to_address_allowlist(address_allowlist=al, method_allowlist=set(listed), resource_messages=g.resmap)
    return al


def settings_json(doc):
    out = []
    for ls in doc["publishing"]["library_settings"]:
        sg = ls.get("python_settings", {}).get("common", {}).get("selective_gapic_generation", {})
        out.append({"version": ls.get("version", ""), "methods": list(sg.get("methods", [])),
                    "internal": bool(sg.get("generate_omitted_as_internal", False))})
    return out


def parse_settings_error(e):
    """ClientLibrarySettingsError(yaml.dump(all_errors)) -> the driver's error shape"""
    import yaml
    d = yaml.safe_load(str(e)) or {}
    out = {}
    for ver, v in d.items():
        if v == ["Duplicate version"]:
            out[ver] = "duplicate"
        else:
            sel = v[0]["selective_gapic_generation"]
            out[ver] = {m: {"Method does not exist.": "missing", "Mismatched version for method.": "mismatch"}[msg] for m, msg in sel.items()}
    return out


def build_selective(spec, files, doc):
    """API.build with the service yaml -> ('built', api) | ('rejected', errors) | ('crash', signature)"""
    from gapic.schema import api as gapi
    with Yaml(doc) as yp:
        req = make_request(spec, files, yp)
        try:
            api, _ = genrun.build_api(req)
            return "built", api
        except gapi.ClientLibrarySettingsError as e:
            return "rejected", parse_settings_error(e)
        except BaseException as e:  # noqa
            return "crash", (genrun.crash_signature(e), str(e)[:300])

# --------------------------------------------------------------------------------------------------
# oracle helpers (statement level, independent of the model)


def snake(name):
    out = []
    for i, ch in enumerate(name):
        if ch.isupper() and i and (name[i - 1].islower() or name[i - 1].isdigit() or (i + 1 < len(name) and name[i + 1].islower())):
            out.append("_")
        out.append(ch.lower())
    return "".join(out)


def hazards(d: Descs, required):
    """required nested types whose enclosing message the statement does not oblige the library to keep"""
    return sorted(t for t in required if d.in_target(t) and d.parent_of.get(t) and d.parent_of[t] not in required)


def features(spec, d, listed, req_types):
    fs = set()
    for f in spec["files"]:
        for s in f["services"]:
            ms = [f"{f['package']}.{s['name']}.{m['name']}" for m in s["methods"]]
            if f["package"] == PKG and not any(m in listed for m in ms):
                fs.add("service-empty-after-filter")
            for m in s["methods"]:
                fq = f"{f['package']}.{s['name']}.{m['name']}"
                if fq in listed:
                    if m.get("lro"): fs.add("lro-kept")
                    if m["name"].startswith("List"): fs.add("paged-kept")
                    if m.get("opservice"): fs.add("extended-lro-kept")
                    if m.get("ss"): fs.add("stream-kept")
                elif m.get("lro"):
                    fs.add("lro-dropped")
    for t in req_types:
        if t in d.msgs:
            if d.parent_of.get(t): fs.add("nested-kept")
            for fld in d.msgs[t].field:
                if fld.type_name.lstrip(".") == t: fs.add("recursive-kept")
                ref = fld.options.Extensions[d.resource_pb2.resource_reference]
                if (ref.type or ref.child_type) in d.res_decl: fs.add("resource-ref-kept")
    for f in spec["files"]:
        if f["package"] == PKG:
            names = [full for full, _ in _walk(f["messages"], PKG)] + [f"{PKG}.{e}" for e in f["enums"]]
            if names and not any(n in req_types for n in names) and not any(f"{PKG}.{s['name']}.{m['name']}" in listed for s in f["services"] for m in s["methods"]):
                fs.add("file-dropped")
    return sorted(fs)


def oracle_schema(ctx, spec, d, api0, api_sel, listed, internal, payload):
    """the statement, read off API.build's result"""
    req_types, req_methods, req_services = d.reach(listed)
    required = {t for t in req_types if d.in_target(t)}
    hz = hazards(d, req_types)
    got_methods = set(api_sel.all_methods)
    got_services = set(api_sel.services)
    got_types = {k for k in list(api_sel.messages) + list(api_sel.enums)}
    all_methods0 = set(api0.all_methods)
    if not internal:
        if got_methods != req_methods:
            ctx.fail("rpc-set", f"kept RPCs {sorted(got_methods)} != listed (+polling) {sorted(req_methods)}", payload)
        if got_services != req_services:
            ctx.fail("service-set", f"kept services {sorted(got_services)} != {sorted(req_services)}", payload)
        if required - got_types:
            ctx.fail("type-missing", f"reachable types pruned: {sorted(required - got_types)[:5]}", payload)
        allowed = {t for t in d.with_enclosing(req_types) if d.in_target(t)} if hz else required
        if got_types - allowed:
            ctx.fail("type-extra", f"unreachable types kept: {sorted(got_types - allowed)[:5]}", payload)
        orphans = sorted(t for t in got_types if d.parent_of.get(t) and d.parent_of[t] not in got_types)
        if orphans:
            ctx.fail("nested-kept-parent-pruned",
                     f"nested types kept without the message that declares them: {orphans[:4]} (no python class can hold them)", payload)
    else:
        if got_methods != all_methods0 or got_services != set(api0.services):
            ctx.fail("internal-omits", f"internal mode dropped RPCs/services: {sorted(all_methods0 - got_methods)[:5]}", payload)
        t0 = set(api0.messages) | set(api0.enums)
        if got_types != t0:
            ctx.fail("internal-omits", f"internal mode changed the type set: {sorted(t0 ^ got_types)[:5]}", payload)
        for sk, s in api_sel.services.items():
            unl = [m for m in s.methods.values() if f"{sk}.{m.name}" not in listed]
            want_client = ("Base" if unl else "") + s.name + "Client"
            want_async = ("Base" if unl else "") + s.name + "AsyncClient"
            if s.client_name != want_client or s.async_client_name != want_async:
                ctx.fail("internal-names", f"{sk}: client classes {s.client_name}/{s.async_client_name}, expected {want_client}/{want_async}", payload)
            for m in s.methods.values():
                want = m.name if f"{sk}.{m.name}" in listed else "_" + m.name
                if m.client_method_name != want:
                    ctx.fail("internal-names", f"{sk}.{m.name}: client method {m.client_method_name}, expected {want}", payload)
    # dependencies untouched (both modes)
    for name, p0 in api0.all_protos.items():
        if name in api0.protos:
            continue
        p1 = api_sel.all_protos.get(name)
        if p1 is None or list(p1.all_messages) != list(p0.all_messages) or list(p1.all_enums) != list(p0.all_enums) \
                or list(p1.services) != list(p0.services):
            ctx.fail("dependency-touched", f"dependency proto {name} changed by selective generation", payload)
    return hz

# --------------------------------------------------------------------------------------------------
# T2: real functions vs the Lean model on the extracted graph


def t2_api(ctx, r, spec, nsub, label, variants=None):
    files = build_files(spec)
    req0 = make_request(spec, files)
    api0, _ = genrun.build_api(req0)
    g = Graph(api0)
    d = Descs(files, PKG)
    gj = g.json()
    if g.inconsistent:
        ctx.assume("wrappers with the same ident have the same fields (violated for %s)" % g.inconsistent[:2])
        ctx.unsupported += 1
    if variants is None:
        variants = [(spec["listed"], spec["internal"])] + subsets(r, spec, nsub)
    ops, plan = [], []
    for listed, internal in variants:
        al = real_allowlist(g, listed)
        al_ids = sorted(g.ids.get(a, -1) for a in al)
        pruned = [g.summary(p.prune_messages_for_selective_generation(address_allowlist=al), name) for name, p in api0.protos.items()]
        marked = [g.summary(p.with_internal_methods(public_methods=set(listed)), name) for name, p in api0.protos.items()]
        doc = service_yaml(spec, listed, internal)
        kind, built = build_selective(spec, files, doc)
        ops += [{"op": "c16.allowlist", "api": gj, "listed": listed},
                {"op": "c16.prune", "api": gj, "allowlist": [x for x in al_ids if x >= 0]},
                {"op": "c16.internal", "api": gj, "public": listed},
                {"op": "c16.third_pass", "api": gj, "settings": settings_json(doc), "proto_package": api0.naming.proto_package,
                 "package": spec["target_package"]}]
        plan.append((listed, internal, al_ids, pruned, marked, kind, built))
    res = ctx.driver.ask(ops)
    for i, (listed, internal, al_ids, pruned, marked, kind, built) in enumerate(plan):
        mo_al, mo_pr, mo_in, mo_tp = res[4 * i: 4 * i + 4]
        payload = {"kind": "t2", "spec": spec, "listed": listed, "internal": internal}
        req_types, _, _ = d.reach(listed)
        feats = features(spec, d, listed, req_types)
        ctx.case({"listed": listed, "internal": internal, "features": feats, "allowlist_size": len(al_ids)},
                 distinct_key=["t2", json.dumps(gj, sort_keys=True)[:0] + label, json.dumps(listed), internal, json.dumps(spec, sort_keys=True)])
        ctx.count("mode", "internal" if internal else "omit")
        ctx.count("listed_rpcs", len(listed))
        for ft in feats:
            ctx.count("features", ft)
        ctx.traces += 1
        if any("unsupported" in m or "error" in m for m in (mo_al, mo_pr, mo_in, mo_tp)):
            ctx.unsupported += 1
            ctx.disagree("T2:c16.driver", f"driver refused: {[m for m in (mo_al, mo_pr, mo_in, mo_tp) if 'unsupported' in m or 'error' in m][:1]}", payload)
            continue
        if not (mo_al["wf"] and mo_al["wf_addrs"]):
            ctx.unsupported += 1
            ctx.disagree("T2:c16.wf", "the extracted graph does not meet Api.wf / Api.wfAddrs (the theorems' hypothesis)", payload)
        if -1 in al_ids:
            ctx.disagree("T2:c16.allowlist", "the real allow-list holds an address no schema object carries", payload)
        if sorted(mo_al["allowlist"]) != al_ids:
            ctx.disagree("T2:c16.allowlist", "model allow-list != Proto.add_to_address_allowlist: only model %s only real %s" % (
                [g.names.get(x) for x in set(mo_al["allowlist"]) - set(al_ids)][:4], [g.names.get(x) for x in set(al_ids) - set(mo_al["allowlist"])][:4]), payload)
        if mo_pr["protos"] != pruned:
            ctx.disagree("T2:c16.prune", "model pruneProto != Proto.prune_messages_for_selective_generation", payload)
        if mo_in["protos"] != marked:
            ctx.disagree("T2:c16.internal", "model withInternal/clientMethodName/clientName != with_internal_methods", payload)
        # whole third pass
        if kind == "crash":
            ctx.fail("build-crash:" + built[0], f"API.build raised {built[0]}: {built[1]}", payload)
            continue
        if kind == "rejected":
            ctx.fail("valid-settings-rejected", f"API.build rejected existing methods of this version: {built}", payload)
            if mo_tp.get("outcome") != "rejected" or mo_tp.get("errors") != built:
                ctx.disagree("T2:c16.third_pass", f"model {mo_tp.get('outcome')} vs real rejected {built}", payload)
            continue
        real_protos = [g.summary(p, name) for name, p in built.all_protos.items()]
        if mo_tp.get("outcome") == "unchanged":
            model_protos = [g.summary(p, name) for name, p in api0.all_protos.items()]
        else:
            model_protos = mo_tp.get("protos")
        if mo_tp.get("outcome") == "rejected" or model_protos != real_protos:
            ctx.disagree("T2:c16.third_pass", f"model third pass ({mo_tp.get('outcome')}) != API.build's all_protos", payload)
        hz = oracle_schema(ctx, spec, d, api0, built, listed, internal, payload)
        if hz and not internal:
            ctx.count("hazard", "nested-type-without-enclosing-message")
    return api0, g, d, files


def validation_cases(ctx, r, spec):
    """Listing an unknown method or one from another version is rejected (API.build raises)."""
    files = build_files(spec)
    api0, _ = genrun.build_api(make_request(spec, files))
    meths = sorted(api0.all_methods)
    good = r.sample(meths, min(2, len(meths)))
    cases = [
        ("unknown-method", service_yaml(spec, good + [f"{PKG}.{r.pick(SVC_NAMES)}.Nope{r.randrange(100)}"], r.maybe()), True),
        ("unknown-service", service_yaml(spec, [f"{PKG}.Nowhere.Get"], False), True),
        ("dependency-method", service_yaml(spec, good + ["google.longrunning.Operations.GetOperation"], False), True),
        ("other-version-entry", service_yaml(spec, good, False, extra_settings=[("acme.lib.v2", [r.pick(meths)])]), True),
        ("other-version-unknown", service_yaml(spec, good, False, extra_settings=[("acme.lib.v2", ["acme.lib.v2.Library.Get"])]), True),
        ("listed-under-other-version-only", service_yaml(spec, [r.pick(meths)], False, version="acme.lib.v2"), True),
        ("duplicate-version", service_yaml(spec, good, False, extra_settings=[(PKG, good[:1])]), None),
        ("empty-methods", service_yaml(spec, [], r.maybe()), False),
        ("other-version-empty", service_yaml(spec, good, False, extra_settings=[("acme.lib.v2", [])]), False),
    ]
    g = Graph(api0)
    gj = g.json()
    ops = [{"op": "c16.third_pass", "api": gj, "settings": settings_json(doc), "proto_package": api0.naming.proto_package,
            "package": PKG} for _, doc, _ in cases]
    ops += [{"op": "c16.validate", "all_methods": meths, "settings": settings_json(doc)} for _, doc, _ in cases]
    res = ctx.driver.ask(ops)
    for i, (name, doc, want_reject) in enumerate(cases):
        payload = {"kind": "validate", "spec": spec, "doc": doc, "name": name}
        kind, built = build_selective(spec, files, doc)
        mo, mv = res[i], res[len(cases) + i]
        ctx.case({"validation": name, "outcome": kind}, distinct_key=["validate", name, json.dumps(doc, sort_keys=True), json.dumps(meths)])
        ctx.count("validation", f"{name}:{kind}")
        ctx.traces += 1
        if kind == "crash":
            ctx.fail("build-crash:" + built[0], f"API.build raised {built[0]}: {built[1]}", payload)
            continue
        if want_reject is True and kind != "rejected":
            ctx.fail("bad-method-accepted:" + name, f"settings '{name}' were accepted", payload)
        if want_reject is False and kind != "built":
            ctx.fail("valid-settings-rejected", f"settings '{name}' were rejected: {built}", payload)
        # the function itself, on the unselective schema
        from gapic.schema import api as gapi
        from google.api import client_pb2
        from google.protobuf import json_format
        ls = [json_format.ParseDict(x, client_pb2.ClientLibrarySettings()) for x in doc["publishing"]["library_settings"]]
        try:
            api0.enforce_valid_library_settings(ls)
            ferr = {}
        except gapi.ClientLibrarySettingsError as e:
            ferr = parse_settings_error(e)
        if mv.get("errors") != ferr:
            ctx.disagree("T2:c16.validate", f"model validateSettings {mv.get('errors')} != enforce_valid_library_settings {ferr}", payload)
        if kind == "rejected":
            if mo.get("outcome") != "rejected" or mo.get("errors") != built:
                ctx.disagree("T2:c16.third_pass", f"model {mo.get('outcome')} {mo.get('errors')} vs real rejected {built}", payload)
        else:
            real_protos = [g.summary(p, nm) for nm, p in built.all_protos.items()]
            model_protos = [g.summary(p, nm) for nm, p in api0.all_protos.items()] if mo.get("outcome") == "unchanged" else mo.get("protos")
            if mo.get("outcome") == "rejected" or model_protos != real_protos:
                ctx.disagree("T2:c16.third_pass", f"model third pass ({mo.get('outcome')}) != API.build for settings '{name}'", payload)
