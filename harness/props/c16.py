"""C16 — selective generation keeps exactly the listed RPCs and a closed set of types (DESIGN §7.16)."""
from __future__ import annotations
import copy, json, os, tempfile
import apigen, genrun, libhost, rpc

PKG = "acme.lib.v1"
HERE = os.path.dirname(os.path.abspath(__file__))
ROOT = os.path.dirname(os.path.dirname(HERE))
CORPUS = os.path.join(ROOT, "corpus", "C16")

DATA_NAMES = ["Book", "Shelf", "Author", "Tag", "Note", "Outer", "Config", "Blob", "Meta", "Label", "Page", "Cover"]
NESTED_NAMES = ["Inner", "Detail", "Part", "Info"]
ENUM_NAMES = ["Color", "Kind", "State", "Mode"]
SVC_NAMES = ["Library", "Archive", "Catalog"]
# service names that already carry the mark the internal mode adds to client classes (`Base`), alone, doubled, and
# next to the service whose prefixed name they equal (Foo + BaseFoo: Base+Foo == BaseFoo)
MARKED_SVC_POOLS = [["Baseline", "Library", "BaseLibrary"], ["Base", "BaseBase", "Archive"], ["Library", "BaseLibrary", "BaseBaseLibrary"],
                    ["Basemap", "BaseCatalog", "Catalog"], ["Underscore", "BaseUnderscore", "Baseball"], ["BaseService", "Service", "Based"]]
SCALARS = ["string", "int32", "bool", "int64", "bytes", "double"]

# --------------------------------------------------------------------------------------------------
# spec generator ("selective" profile of DESIGN §7.16): shared / nested / recursive types, resources,
# LRO, paged and extended-operation methods, services that become empty after the filter.


def _msg(name, fields=None, nested=None, enums=None, resource=None):
    return {"name": name, "fields": fields or [], "nested": nested or [], "enums": enums or [], "resource": resource}


def _walk(msgs, prefix):
    """(full name, msg spec) for every message declared under `prefix`, depth first"""
    for m in msgs:
        full = f"{prefix}.{m['name']}"
        yield full, m
        yield from _walk(m["nested"], full)


def all_messages(spec):
    out = []
    for f in spec["files"]:
        out += list(_walk(f["messages"], f["package"]))
    return out


def all_enums(spec):
    out = []
    for f in spec["files"]:
        out += [f"{f['package']}.{e}" for e in f["enums"]]
        for full, m in _walk(f["messages"], f["package"]):
            out += [f"{full}.{e}" for e in m["enums"]]
    return out


def all_methods(spec, package=None):
    out = []
    for f in spec["files"]:
        if package and f["package"] != package and not f["package"].startswith(package + "."):
            continue
        for s in f["services"]:
            out += [f"{f['package']}.{s['name']}.{m['name']}" for m in s["methods"]]
    return out


def gen_spec(r: apigen.Rng, *, t3=False, ext=None, nested_parent_hazard=None, marked_names=None):
    """`t3`: only importable dependencies (installed *_pb2), gRPC-callable method kinds.
    `nested_parent_hazard`: allow a request to reference a nested type whose enclosing message is not
    otherwise referenced (the shape behind the known finding); None = random (rare)."""
    if ext is None:
        ext = (not t3) and r.maybe(0.25)
    if nested_parent_hazard is None:
        nested_parent_hazard = r.maybe(0.12)
    files = []
    shared = {"name": "acme/lib/v1/shared.proto", "package": PKG, "deps": [], "resdefs": [], "enums": [], "messages": [], "services": []}
    lib = {"name": "acme/lib/v1/lib.proto", "package": PKG, "deps": ["acme/lib/v1/shared.proto"], "resdefs": [], "enums": [], "messages": [], "services": []}
    extra = {"name": "acme/lib/v1/extra.proto", "package": PKG, "deps": ["acme/lib/v1/shared.proto"], "resdefs": [], "enums": [], "messages": [], "services": []}
    dep = {"name": "acme/common/common.proto", "package": "acme.common", "deps": [], "resdefs": [], "enums": ["Unit"], "messages": [
        _msg("Money", [{"name": "units", "t": "int64"}, {"name": "unit", "enum": ".acme.common.Unit"}]),
        _msg("Region", [{"name": "name", "t": "string"}], resource=["common.example.com/Region", "regions/{region}"])], "services": []}
    use_dep = (not t3) and r.maybe(0.6)
    if use_dep:
        shared["deps"].append(dep["name"]); lib["deps"].append(dep["name"])
    # a file that holds ONLY enums (enums.proto layout), a file whose messages are reachable ONLY through
    # resource references, and a file of a sub-package of the target package
    enumsf = {"name": "acme/lib/v1/enums.proto", "package": PKG, "deps": [], "resdefs": [], "enums": r.sample(["Genre", "Rating", "Format"], r.randint(1, 3)),
              "messages": [], "services": []} if r.maybe(0.6) else None
    resf = {"name": "acme/lib/v1/resources.proto", "package": PKG, "deps": [], "resdefs": [], "enums": [], "messages": [], "services": []} if r.maybe(0.55) else None
    subf = {"name": "acme/lib/v1/sub/widgets.proto", "package": PKG + ".sub", "deps": [], "resdefs": [], "enums": ["Shape"], "messages": [
        _msg("Widget", [{"name": "name", "t": "string"}, {"name": "shape", "enum": f".{PKG}.sub.Shape"}], enums=["Finish"] if r.maybe(0.5) else []),
        _msg("Gadget", [{"name": "w", "msg": f".{PKG}.sub.Widget", "repeated": True}])], "services": []} if r.maybe(0.4) else None
    if enumsf:
        shared["deps"].append(enumsf["name"]); lib["deps"].append(enumsf["name"])
    if resf:
        if enumsf:
            resf["deps"].append(enumsf["name"])
        lib["deps"].append(resf["name"])
        for rn in r.sample(["Depot", "Vault"], r.randint(1, 2)):
            rm = _msg(rn, resource=[f"lib.example.com/{rn}", f"{rn.lower()}s/{{{rn.lower()}}}"])
            if r.maybe(0.5):
                rm["nested"].append(_msg("Spec", [{"name": "size", "t": "int32"}]))
                rm["fields"].append({"name": "spec", "msg": f".{PKG}.{rn}.Spec"})
            if r.maybe(0.4):
                rm["enums"].append("Tier")
            if enumsf and r.maybe(0.6):
                rm["fields"].append({"name": "genre", "enum": f".{PKG}.{r.pick(enumsf['enums'])}"})
            rm["fields"].insert(0, {"name": "name", "t": "string"})
            resf["messages"].append(rm)
    if subf:
        lib["deps"].append(subf["name"])
    # ---- data types
    names = list(DATA_NAMES); r.shuffle(names)
    ndata = r.randint(4, 8)
    data = []
    for i in range(ndata):
        m = _msg(names[i])
        if r.maybe(0.45):
            for nn in r.sample(NESTED_NAMES, r.randint(1, 2)):
                sub = _msg(nn)
                if r.maybe(0.25):
                    sub["nested"].append(_msg("Leaf"))
                if r.maybe(0.3):
                    sub["enums"].append("Level")
                m["nested"].append(sub)
        if r.maybe(0.35):
            m["enums"].append(r.pick(["Kind", "Mode"]))
        if r.maybe(0.4):
            m["resource"] = [f"lib.example.com/{m['name']}", f"{m['name'].lower()}s/{{{m['name'].lower()}}}"]
        (shared if r.maybe(0.6) else lib)["messages"].append(m)
        data.append(m)
    for e in r.sample(ENUM_NAMES, r.randint(1, 3)):
        (shared if r.maybe(0.5) else lib)["enums"].append(e)
    spec = {"files": [x for x in (dep if use_dep else None, enumsf, shared, resf, subf, lib) if x], "target_package": PKG, "version": PKG,
            "listed": [], "internal": False}
    if r.maybe(0.5):
        shared["resdefs"].append(["other.example.com/Thing", "things/{thing}"])
    # extra file: never referenced from lib/shared; sometimes carries a service of its own
    if r.maybe(0.6):
        extra["messages"].append(_msg("Orphan", [{"name": "x", "t": "string"}], enums=["Flavor"] if r.maybe(0.5) else []))
        extra["enums"].append("Loose")
        if r.maybe(0.5):
            extra["messages"].append(_msg("PingRequest", [{"name": "o", "msg": f".{PKG}.Orphan"}]))
            extra["services"].append({"name": "Pinger", "methods": [
                {"name": "Ping", "input": f".{PKG}.PingRequest", "output": f".{PKG}.Orphan"}]})
        spec["files"].append(extra)

    def type_pools(exclude_hazard=True):
        msgs, enums = [], []
        for f in spec["files"]:
            if f is extra or f is resf:          # resf: reachable through resource references only
                continue
            for full, m in _walk(f["messages"], f["package"]):
                msgs.append(full)
            enums += [f"{f['package']}.{e}" for e in f["enums"]]
            for full, m in _walk(f["messages"], f["package"]):
                enums += [f"{full}.{e}" for e in m["enums"]]
        return msgs, enums

    wkt = [".google.protobuf.Timestamp", ".google.protobuf.Duration", ".google.rpc.Status", ".google.protobuf.FieldMask"]
    res_types = [m["resource"][0] for f in spec["files"] for m in f["messages"] if m.get("resource")] + \
                [x[0] for f in spec["files"] for x in f["resdefs"]] + ["nowhere.example.com/Ghost"]

    def toplevel(full):
        return any(full == f"{f['package']}.{m['name']}" for f in spec["files"] for m in f["messages"]) or \
            any(full == f"{f['package']}.{e}" for f in spec["files"] for e in f["enums"])

    def top_of(full):
        c = [f"{f['package']}.{m['name']}" for f in spec["files"] for m in f["messages"]
             if full == f"{f['package']}.{m['name']}" or full.startswith(f"{f['package']}.{m['name']}.")]
        return max(c, key=len) if c else full

    def fill(m, full, own_file, budget, nested_ok):
        """random fields for message m (declared as `full`)"""
        msgs, enums = type_pools()
        if not nested_ok:
            # references to a nested type only from inside its own top-level message
            top = top_of(full)
            msgs = [x for x in msgs if toplevel(x) or x.startswith(top + ".") or not x.startswith(PKG + ".")]
            enums = [x for x in enums if toplevel(x) or x.startswith(top + ".") or not x.startswith(PKG + ".")]
        k = 0
        m["fields"].append({"name": "name", "t": "string"})
        for _ in range(budget):
            k += 1
            c = r.random()
            fn = f"f{k}"
            one = {"oneof": "choice"} if r.maybe(0.18) else {}      # oneof members are ordinary edges
            if c < 0.3:
                m["fields"].append(dict({"name": fn, "t": r.pick(SCALARS), "repeated": (not one) and r.maybe(0.2)}, **one))
            elif c < 0.6 and msgs:
                tgt = full if r.maybe(0.12) else r.pick(msgs)       # self-recursion now and then
                m["fields"].append(dict({"name": fn, "msg": "." + tgt, "repeated": (not one) and r.maybe(0.3)}, **one))
            elif c < 0.72 and enums:
                m["fields"].append(dict({"name": fn, "enum": "." + r.pick(enums), "repeated": (not one) and r.maybe(0.2)}, **one))
            elif c < 0.8 and msgs:
                m["fields"].append({"name": fn, "map": "." + r.pick(msgs)})
            elif c < 0.86:
                m["fields"].append({"name": fn, "msg": r.pick(wkt)})
            elif c < 0.96:
                m["fields"].append({"name": fn, "t": "string", ("child_ref" if r.maybe(0.3) else "ref"): r.pick(res_types)})
            else:
                m["fields"].append({"name": fn, "map": None})
    for f in (shared, lib):
        for full, m in list(_walk(f["messages"], PKG)):
            fill(m, full, f, r.randint(0, 3), nested_ok=nested_parent_hazard)
    # ---- services
    op_msg = None
    if ext:
        op_msg = _msg("Operation", [{"name": "name", "t": "string", "opfield": 1}, {"name": "status", "enum": f".{PKG}.Operation.Status", "opfield": 2},
                                    {"name": "error_code", "t": "int32", "opfield": 3}, {"name": "error_message", "t": "string", "opfield": 4}],
                      enums=["Status"])
        lib["messages"].append(op_msg)
    nsvc = r.randint(1, 3)
    svc_names = SVC_NAMES
    if marked_names is None:
        marked_names = r.maybe(0.3)
    if marked_names:
        svc_names = list(r.pick(MARKED_SVC_POOLS)); r.shuffle(svc_names)
        nsvc = max(nsvc, 2)          # any two names of a pool include one that starts with `Base`
    msgs, enums = type_pools()
    data_top = [x for x in msgs if toplevel(x) and x.split(".")[-1] in [d["name"] for d in data]]
    mcount = 0
    for si in range(nsvc):
        svc = {"name": svc_names[si], "methods": []}
        for _ in range(r.randint(1, 4)):
            if mcount >= 8:
                break
            mcount += 1
            tgt = r.pick(data_top)
            short = tgt.split(".")[-1]
            kinds = ["get", "get", "list", "lro", "create", "stream"]
            kind = r.pick(kinds)
            mname = {"get": "Get", "list": "List", "lro": "Export", "create": "Create", "stream": "Watch"}[kind] + short + (str(mcount) if any(
                mm["name"].startswith({"get": "Get", "list": "List", "lro": "Export", "create": "Create", "stream": "Watch"}[kind] + short) for s2 in lib["services"] + [svc] for mm in s2["methods"]) else "")
            if marked_names and kind != "list" and r.maybe(0.3):
                # RPC names that spell out the mark the internal mode adds to methods (a literal leading `_` is C12's business)
                mname = r.pick(["Underscore", "Private", "Base"]) + mname.rstrip("0123456789") + str(mcount)
            rq = _msg(mname + "Request")
            fill(rq, f"{PKG}.{rq['name']}", lib, r.randint(0, 3), nested_ok=nested_parent_hazard)
            meth = {"name": mname, "input": f".{PKG}.{rq['name']}", "output": "." + tgt}
            if kind == "list":
                rq["fields"] += [{"name": "page_size", "t": "int32"}, {"name": "page_token", "t": "string"}]
                rs = _msg(mname + "Response", [{"name": "items", "msg": "." + tgt, "repeated": True}, {"name": "next_page_token", "t": "string"}])
                lib["messages"].append(rs)
                meth["output"] = f".{PKG}.{rs['name']}"
            elif kind == "lro":
                meta = _msg(mname + "Metadata", [{"name": "progress", "t": "int32"}])
                if r.maybe(0.5):
                    meta["fields"].append({"name": "last", "msg": "." + r.pick(data_top)})
                (shared if r.maybe(0.4) else lib)["messages"].append(meta)
                meth["output"] = ".google.longrunning.Operation"
                # operation_info type names are resolved relative to the package: use both spellings
                meth["lro"] = [short if r.maybe(0.5) else tgt, meta["name"] if r.maybe(0.5) else f"{PKG}.{meta['name']}"]
            elif kind == "stream":
                meth["ss"] = True
            elif kind == "create" and r.maybe(0.3):
                meth["output"] = ".google.protobuf.Empty"
            lib["messages"].append(rq)
            svc["methods"].append(meth)
        lib["services"].append(svc)
    if ext:
        # The operation service carries the polling method next to RPCs of its own (Wait, Delete) which a user may
        # list as well; DECLARATION ORDER is free: the operation service may come before, between or after the
        # services whose RPCs start operations, its polling method is not always its first method, one operation
        # service usually serves several starting RPCs, and (T2 only) a starting RPC may live in the operation
        # service itself.
        ops = {"name": "RegionOperations", "methods": []}
        lib["messages"].append(_msg("GetRegionOperationRequest", [{"name": "operation", "t": "string", "opresp": 1}, {"name": "zone", "t": "string"}]))
        lib["messages"].append(_msg("WaitOperationRequest", [{"name": "operation", "t": "string"}, {"name": "hint", "msg": "." + r.pick(data_top)}]))
        om = [{"name": "Get", "input": f".{PKG}.GetRegionOperationRequest", "output": f".{PKG}.Operation", "polling": True},
              {"name": "Wait", "input": f".{PKG}.WaitOperationRequest", "output": f".{PKG}.Operation"}]
        if r.maybe(0.5):
            lib["messages"].append(_msg("DeleteRegionOperationRequest", [{"name": "operation", "t": "string"}, {"name": "zone", "t": "string"}]))
            lib["messages"].append(_msg("DeleteRegionOperationResponse"))
            om.append({"name": "Delete", "input": f".{PKG}.DeleteRegionOperationRequest", "output": f".{PKG}.DeleteRegionOperationResponse"})
        r.shuffle(om)
        ops["methods"] = om
        hosts = list(lib["services"])
        lib["services"].insert(r.randint(0, len(lib["services"])), ops)
        for sn in ["InsertThing", "PatchThing"][:1 + int(r.maybe(0.4))]:
            lib["messages"].append(_msg(sn + "Request", [{"name": "zone", "t": "string", "opreq": "zone"}, {"name": "thing", "msg": "." + r.pick(data_top)}]))
            host = ops if ((not t3) and r.maybe(0.15)) else r.pick(hosts)
            host["methods"].insert(r.randint(0, len(host["methods"])),
                                   {"name": sn, "input": f".{PKG}.{sn}Request", "output": f".{PKG}.Operation", "opservice": "RegionOperations"})
    # shared may not reference lib or the sub-package file (no import cycle / not imported): drop such fields
    lib_names = set()
    for lf in (lib, subf):
        if lf:
            lib_names |= {full for full, _ in _walk(lf["messages"], lf["package"])} | {f"{lf['package']}.{e}" for e in lf["enums"]}
            lib_names |= {f"{full}.{e}" for full, m in _walk(lf["messages"], lf["package"]) for e in m["enums"]}
    for full, m in _walk(shared["messages"], PKG):
        m["fields"] = [fd for fd in m["fields"] if not any((fd.get(k) or "").lstrip(".") in lib_names for k in ("msg", "enum", "map"))]
    # ---- the listed subset
    meths = all_methods(spec, PKG)
    k = r.randint(1, min(5, len(meths)))
    spec["listed"] = sorted(r.sample(meths, k))
    spec["internal"] = r.maybe(0.5)
    if t3:
        spec["rest"] = r.maybe(0.45)          # transport=grpc+rest (every method carries an http rule)
        spec["mixins"] = r.maybe(0.4)         # Locations + Operations mixins in the service yaml
    return spec


def ext_roles(spec):
    """(starting RPCs, polling RPCs, the other RPCs of operation services) of the target package, declaration order"""
    starters, polling, ops_other = [], [], []
    for f in spec["files"]:
        if f["package"] != PKG:
            continue
        opsvc = {m["opservice"] for s in f["services"] for m in s["methods"] if m.get("opservice")}
        for s in f["services"]:
            for m in s["methods"]:
                fq = f"{PKG}.{s['name']}.{m['name']}"
                if m.get("opservice"):
                    starters.append(fq)
                elif m.get("polling"):
                    polling.append(fq)
                elif s["name"] in opsvc:
                    ops_other.append(fq)
    return starters, polling, ops_other


def ext_subset(r, spec):
    """a subset in which the polling method is NEEDED but not listed, next to listed RPCs of the operation service
    itself (so that the operation service is on the list for a reason of its own); None without extended operations"""
    starters, polling, ops_other = ext_roles(spec)
    if not starters or not ops_other:
        return None
    sub = set(r.sample(starters, r.randint(1, len(starters)))) | set(r.sample(ops_other, r.randint(1, len(ops_other))))
    rest = [m for m in all_methods(spec, PKG) if m not in sub and m not in polling]
    if rest and r.maybe(0.4):
        sub |= set(r.sample(rest, r.randint(1, min(2, len(rest)))))
    return sorted(sub)


def clash_subset(r, spec):
    """services Foo and BaseFoo in one API: every RPC of BaseFoo listed, some RPC of Foo not (internal mode then names
    both client classes BaseFooClient); None if the API has no such pair"""
    svcs = {s["name"]: s for f, s in target_services(spec)}
    pairs = [(n[4:], n) for n in svcs if n.startswith("Base") and n[4:] in svcs and svcs[n[4:]]["methods"] and svcs[n]["methods"]]
    if not pairs:
        return None
    foo, basefoo = r.pick(pairs)
    fm = [f"{PKG}.{foo}.{m['name']}" for m in svcs[foo]["methods"]]
    sub = set(f"{PKG}.{basefoo}.{m['name']}" for m in svcs[basefoo]["methods"]) | set(r.sample(fm, r.randint(0, len(fm) - 1)))
    return sorted(sub)


VIEW_LAYOUTS = {          # which packages declare services: () = the target package itself, ("sub",) = acme.lib.v1.sub, ...
    "mixed": [(), ("sub",)],
    "twosubs": [("sub",), ("aux",)],
    "nested": [("sub",), ("sub", "deep")],
    "mixed-nested": [(), ("sub",), ("sub", "deep")],
    "sub-only": [("sub",)],
}
VIEW_SVC_NAMES = ["Library", "Widgets", "Gears", "Tools", "Depot", "Vault", "Annex"]
VIEW_DATA_NAMES = ["Book", "Widget", "Gear", "Tool", "Crate", "Shelf", "Gadget", "Cog", "Kit", "Bin"]


def gen_views_spec(r: apigen.Rng, *, t3=False, layout=None):
    """services in more than one package view: the target package and proto sub-packages of it (each sub-package is
    rendered as a view of its own: own services/, types/, __init__), types shared across views through a root file
    without services and (sometimes) a types-only sub-package file."""
    layout = layout or r.pick(sorted(VIEW_LAYOUTS))
    shared = {"name": "acme/lib/v1/shared.proto", "package": PKG, "deps": [], "resdefs": [], "enums": ["Color"], "messages": [
        _msg("Tag", [{"name": "name", "t": "string"}, {"name": "color", "enum": f".{PKG}.Color"}], enums=["Kind"]),
        _msg("Meta", [{"name": "name", "t": "string"}, {"name": "tag", "msg": f".{PKG}.Tag"}],
             nested=[_msg("Part", [{"name": "size", "t": "int32"}])])], "services": []}
    shared["messages"][1]["fields"].append({"name": "part", "msg": f".{PKG}.Meta.Part"})
    files = [shared]
    pool = [f".{PKG}.Tag", f".{PKG}.Meta", f".{PKG}.Meta.Part"]          # message types later files may refer to
    epool = [f".{PKG}.Color", f".{PKG}.Tag.Kind"]
    if r.maybe(0.5):
        parts = {"name": "acme/lib/v1/sub/parts.proto", "package": PKG + ".sub", "deps": [shared["name"]], "resdefs": [], "enums": ["Grade"],
                 "messages": [_msg("Bolt", [{"name": "name", "t": "string"}, {"name": "tag", "msg": f".{PKG}.Tag"}]),
                              _msg("Nut", [{"name": "name", "t": "string"}, {"name": "grade", "enum": f".{PKG}.sub.Grade"}])], "services": []}
        files.append(parts)
        pool += [f".{PKG}.sub.Bolt", f".{PKG}.sub.Nut"]; epool.append(f".{PKG}.sub.Grade")
    dnames = list(VIEW_DATA_NAMES); r.shuffle(dnames)
    snames = list(VIEW_SVC_NAMES)
    for vi, view in enumerate(VIEW_LAYOUTS[layout]):
        pkg = ".".join([PKG] + list(view))
        vf = {"name": "/".join(["acme/lib/v1"] + list(view) + [f"svc{vi}.proto"]), "package": pkg, "deps": [x["name"] for x in files],
              "resdefs": [], "enums": [], "messages": [], "services": []}
        data = []
        if not view:
            # the target package's own files do not refer to types of its sub-packages (python modules importing each
            # other across the package/sub-package boundary in both directions is C01's subject, not this one's)
            vpool = [t for t in pool if not t.startswith(f".{PKG}.sub.")]
            vepool = [t for t in epool if not t.startswith(f".{PKG}.sub.")]
        else:
            vpool, vepool = pool, epool
        for _ in range(r.randint(1, 2)):
            dn = dnames.pop()
            m = _msg(dn, [{"name": "name", "t": "string"}])
            for k in range(r.randint(0, 2)):
                c = r.random()
                if c < 0.55:
                    m["fields"].append({"name": f"f{k}", "msg": r.pick(vpool), "repeated": r.maybe(0.3)})
                elif c < 0.8:
                    m["fields"].append({"name": f"f{k}", "enum": r.pick(vepool)})
                else:
                    m["fields"].append({"name": f"f{k}", "t": r.pick(SCALARS)})
            if r.maybe(0.3):
                m["enums"].append("State")
            vf["messages"].append(m); data.append(f".{pkg}.{dn}")
        for si in range(1 if r.maybe(0.7) else 2):
            svc = {"name": snames.pop(0), "methods": []}
            for mi in range(r.randint(1, 3)):
                tgt = r.pick(data + ([r.pick(vpool)] if r.maybe(0.25) else []))
                short = tgt.split(".")[-1]
                kind = r.pick(["get", "get", "list", "create"])
                mname = {"get": "Get", "list": "List", "create": "Create"}[kind] + short + svc["name"][:1] + str(mi)
                rq = _msg(mname + "Request", [{"name": "name", "t": "string"}])
                if r.maybe(0.4):
                    rq["fields"].append({"name": "hint", "msg": r.pick(vpool + data)})
                meth = {"name": mname, "input": f".{pkg}.{rq['name']}", "output": tgt}
                if kind == "list":
                    rq["fields"] += [{"name": "page_size", "t": "int32"}, {"name": "page_token", "t": "string"}]
                    rs = _msg(mname + "Response", [{"name": "items", "msg": tgt, "repeated": True}, {"name": "next_page_token", "t": "string"}])
                    vf["messages"].append(rs)
                    meth["output"] = f".{pkg}.{rs['name']}"
                elif kind == "create" and r.maybe(0.4):
                    meth["output"] = ".google.protobuf.Empty"
                vf["messages"].append(rq)
                svc["methods"].append(meth)
            vf["services"].append(svc)
        files.append(vf)
        pool += data
    spec = {"files": files, "target_package": PKG, "version": PKG, "listed": [], "internal": False, "layout": layout}
    meths = all_methods(spec, PKG)
    spec["listed"] = sorted(r.sample(meths, r.randint(1, min(4, len(meths)))))
    spec["internal"] = r.maybe(0.5)
    if t3:
        spec["rest"] = r.maybe(0.4)
        spec["mixins"] = False          # mixins in sub-package views are C17's subject
    return spec


def view_variants(r, spec):
    """subsets that matter for views: one RPC of every service-bearing package (omit and internal), every RPC of the API,
    the RPCs of ONE package only, one RPC of one package in internal mode"""
    by_pkg = {}
    for f, s in target_services(spec):
        by_pkg.setdefault(f["package"], []).extend(f"{f['package']}.{s['name']}.{m['name']}" for m in s["methods"])
    one_each = sorted(r.pick(ms) for ms in by_pkg.values())
    only = r.pick(sorted(by_pkg))
    return [(one_each, False), (one_each, True), (sorted(m for ms in by_pkg.values() for m in ms), False),
            (sorted(by_pkg[only]), False), ([r.pick(by_pkg[r.pick(sorted(by_pkg))])], True)]


def subsets(r, spec, n):
    """n further (listed, internal) choices for the same API (incl. single-method and all-but-one subsets)"""
    meths = all_methods(spec, PKG)
    out = []
    for i in range(n):
        if i == n - 1 and n > 1 or (n == 1 and not ext_roles(spec)[0]):
            sub = clash_subset(r, spec)
            if sub:
                out.append((sub, True))
                continue
        if i == 0 and ext_roles(spec)[0]:
            sub = ext_subset(r, spec)
            if sub:
                out.append((sub, r.maybe(0.3)))
                continue
        c = r.random()
        if c < 0.3:
            sub = [r.pick(meths)]
        elif c < 0.45 and len(meths) > 1:
            drop = r.pick(meths); sub = [m for m in meths if m != drop]
        elif c < 0.55:
            sub = list(meths)
        else:
            sub = r.sample(meths, r.randint(1, min(5, len(meths))))
        out.append((sorted(sub), r.maybe(0.5)))
    return out

# --------------------------------------------------------------------------------------------------
# spec -> descriptors (apigen stands in for protoc)


def build_files(spec):
    from google.cloud import extended_operations_pb2 as ex
    files = []
    for fs in spec["files"]:
        f = apigen.File(fs["name"], fs["package"])
        for d in fs["deps"]:
            f.dep(d)
        f.dep("google/rpc/status.proto", "google/cloud/extended_operations.proto")
        for t, pat in fs["resdefs"]:
            f.resource_definition(t, pat)
        for e in fs["enums"]:
            f.enum(e, [f"{e.upper()}_UNSPECIFIED", f"{e.upper()}_ONE", f"{e.upper()}_TWO"])

        def emit(m, ms):
            for e in ms["enums"]:
                m.nested_enum(e, ["UNDEFINED_STATUS", "DONE", "PENDING"] if e == "Status" else [f"{e.upper()}_UNSPECIFIED", f"{e.upper()}_A"])
            for sub in ms["nested"]:
                emit(m.nested(sub["name"]), sub)
            if ms.get("resource"):
                m.resource(ms["resource"][0], ms["resource"][1])
            for fd in ms["fields"]:
                kw = {}
                if fd.get("ref"):
                    kw["ref"] = fd["ref"]
                if fd.get("child_ref"):
                    kw["child_ref"] = fd["child_ref"]
                if "map" in fd:
                    if fd["map"]:
                        m.map_field(fd["name"], "string", "message", vtype_name=fd["map"])
                    else:
                        m.map_field(fd["name"], "string", "int32")
                    continue
                if fd.get("oneof"):
                    kw["oneof"] = fd["oneof"]
                if fd.get("msg"):
                    pf = m.field(fd["name"], "message", type_name=fd["msg"], repeated=fd.get("repeated", False), **kw)
                elif fd.get("enum"):
                    pf = m.field(fd["name"], "enum", type_name=fd["enum"], repeated=fd.get("repeated", False), **kw)
                else:
                    pf = m.field(fd["name"], fd.get("t", "string"), repeated=fd.get("repeated", False), **kw)
                if fd.get("opfield"):
                    pf.options.Extensions[ex.operation_field] = fd["opfield"]
                if fd.get("opresp"):
                    pf.options.Extensions[ex.operation_response_field] = "name"
                if fd.get("opreq"):
                    pf.options.Extensions[ex.operation_request_field] = fd["opreq"]
        for ms in fs["messages"]:
            emit(f.msg(ms["name"]), ms)
        for ss in fs["services"]:
            svc = f.service(ss["name"])
            for mm in ss["methods"]:
                http = None
                if spec.get("rest"):
                    http = ("post", f"/v1/{ss['name'].lower()}/{mm['name']}")
                pm = svc.method(mm["name"], mm["input"], mm["output"], lro=tuple(mm["lro"]) if mm.get("lro") else None,
                                ss=mm.get("ss", False), http=http, body="*" if http else None)
                if mm.get("opservice"):
                    pm.options.Extensions[ex.operation_service] = mm["opservice"]
                if mm.get("polling"):
                    pm.options.Extensions[ex.operation_polling_method] = True
        files.append(f)
    return files


def service_yaml(spec, listed=None, internal=None, version=None, extra_settings=()):
    listed = spec["listed"] if listed is None else listed
    internal = spec["internal"] if internal is None else internal
    ls = [{"version": version or spec["version"], "python_settings": {"common": {"selective_gapic_generation": {
        "methods": list(listed), "generate_omitted_as_internal": bool(internal)}}}}]
    for v, ms in extra_settings:
        ls.append({"version": v, "python_settings": {"common": {"selective_gapic_generation": {"methods": list(ms)}}}})
    return {"type": "google.api.Service", "config_version": 3, "name": "lib.example.com", "publishing": {"library_settings": ls}}


class Yaml:
    """service yaml on disk for the duration of a `with` block (the generator takes a path)"""

    def __init__(self, doc):
        self.doc = doc

    def __enter__(self):
        fd, self.path = tempfile.mkstemp(prefix="c16_", suffix=".yaml", dir=genrun.SCRATCH)
        with os.fdopen(fd, "w") as fh:
            json.dump(self.doc, fh)          # JSON is YAML
        return self.path

    def __exit__(self, *a):
        try:
            os.unlink(self.path)
        except OSError:
            pass


def make_request(spec, files, yaml_path=None, transport="grpc", extra=""):
    params = f"transport={transport},autogen-snippets=false" + extra
    if yaml_path:
        params += f",service-yaml={yaml_path}"
    targets = [f for f, fs in zip(files, spec["files"])
               if fs["package"] == spec["target_package"] or fs["package"].startswith(spec["target_package"] + ".")]
    return apigen.request(files, params, targets=targets)

# --------------------------------------------------------------------------------------------------
# the oracle's own reachability, on the INPUT descriptors (independent of gapic and of the Lean model)


class Descs:
    def __init__(self, files, package):
        from google.api import resource_pb2
        from google.longrunning import operations_pb2
        from google.cloud import extended_operations_pb2 as ex
        self.package = package
        self.msgs, self.enums, self.methods, self.services = {}, {}, {}, {}
        self.nested_of, self.parent_of = {}, {}
        self.res_decl = {}
        self.file_of = {}
        allf = [f.pb if hasattr(f, "pb") else f for f in files] + list(apigen.dep_files())
        for fd in allf:
            def walk(m, prefix, parent):
                full = f"{prefix}.{m.name}"
                self.msgs[full] = m
                self.file_of[full] = fd.name
                self.parent_of[full] = parent
                self.nested_of[full] = []
                for e in m.enum_type:
                    self.enums[f"{full}.{e.name}"] = e
                    self.parent_of[f"{full}.{e.name}"] = full
                    self.file_of[f"{full}.{e.name}"] = fd.name
                    self.nested_of[full].append(f"{full}.{e.name}")
                for n in m.nested_type:
                    self.nested_of[full].append(f"{full}.{n.name}")
                    walk(n, full, full)
                rt = m.options.Extensions[resource_pb2.resource].type
                if rt and parent is None:
                    self.res_decl.setdefault(rt, full)
            for m in fd.message_type:
                walk(m, fd.package, None)
            for e in fd.enum_type:
                self.enums[f"{fd.package}.{e.name}"] = e
                self.parent_of[f"{fd.package}.{e.name}"] = None
                self.file_of[f"{fd.package}.{e.name}"] = fd.name
            for s in fd.service:
                self.services[f"{fd.package}.{s.name}"] = (fd, s)
                for mm in s.method:
                    self.methods[f"{fd.package}.{s.name}.{mm.name}"] = (fd, s, mm)
        self.resource_pb2, self.operations_pb2, self.ex = resource_pb2, operations_pb2, ex

    def resolve(self, name, pkg):
        name = name.lstrip(".")
        return name if name in self.msgs else f"{pkg}.{name}"

    def reach(self, listed):
        """(types, methods, services) the statement obliges the library to keep"""
        todo, types = [], set()
        methods, services = set(), set()
        for fq in listed:
            if fq not in self.methods:
                continue
            fd, s, mm = self.methods[fq]
            if not fd.package.startswith(self.package):
                continue
            methods.add(fq); services.add(f"{fd.package}.{s.name}")
            todo += [mm.input_type.lstrip("."), mm.output_type.lstrip(".")]
            oi = mm.options.Extensions[self.operations_pb2.operation_info]
            if mm.output_type == ".google.longrunning.Operation" and oi.response_type:
                todo += [self.resolve(oi.response_type, fd.package), self.resolve(oi.metadata_type, fd.package)]
            ops = mm.options.Extensions[self.ex.operation_service]
            if ops:
                osvc = next(x for x in fd.service if x.name == ops)
                poll = next(x for x in osvc.method if x.options.Extensions[self.ex.operation_polling_method])
                services.add(f"{fd.package}.{ops}"); methods.add(f"{fd.package}.{ops}.{poll.name}")
                todo += [poll.input_type.lstrip("."), poll.output_type.lstrip(".")]
        while todo:
            t = todo.pop()
            if t in types:
                continue
            types.add(t)
            if t in self.enums:
                continue
            m = self.msgs[t]
            todo += self.nested_of[t]
            for f in m.field:
                if f.type_name:
                    todo.append(f.type_name.lstrip("."))
                ref = f.options.Extensions[self.resource_pb2.resource_reference]
                rt = ref.type or ref.child_type
                if rt and rt in self.res_decl:
                    todo.append(self.res_decl[rt])
        return types, methods, services

    def in_target(self, full):
        return full.startswith(self.package + ".") and self.file_of.get(full, "").startswith("acme/")

    def with_enclosing(self, types):
        """types plus the messages enclosing them plus everything declared inside those (what a python class
        tree must contain at least if the nested class is to exist)"""
        out = set(types)
        todo = list(types)
        while todo:
            t = todo.pop()
            p = self.parent_of.get(t)
            for x in ([p] if p else []) + self.nested_of.get(t, []):
                if x not in out:
                    out.add(x); todo.append(x)
        # and whatever those reference
        more = True
        while more:
            more = False
            for t in list(out):
                if t in self.msgs:
                    for f in self.msgs[t].field:
                        n = f.type_name.lstrip(".")
                        if n and n not in out:
                            out.add(n); more = True
                        ref = f.options.Extensions[self.resource_pb2.resource_reference]
                        rt = ref.type or ref.child_type
                        if rt and rt in self.res_decl and self.res_decl[rt] not in out:
                            out.add(self.res_decl[rt]); more = True
                    for x in self.nested_of[t]:
                        if x not in out:
                            out.add(x); more = True
                p = self.parent_of.get(t)
                if p and p not in out:
                    out.add(p); more = True
        return out

# --------------------------------------------------------------------------------------------------
# extraction of the REAL type graph from the schema objects (T2): nodes are numbered with a python
# dict keyed by the metadata.Address objects themselves, i.e. with the real __eq__/__hash__.


class Graph:
    def __init__(self, api):
        import collections
        self.api = api
        self.ids = {}
        self.names = {}
        self.msgs = {}
        self.inconsistent = []
        self._seen = set()
        self.resmap = collections.ChainMap(*(p.resource_messages for p in api.all_protos.values()))
        for proto in api.all_protos.values():
            for m in proto.all_messages.values():
                self._msg(m)
            for e in proto.all_enums.values():
                self.aid(e.ident)
        self.resources = []
        for k in self.resmap:
            self._msg(self.resmap[k])
            self.resources.append([k, self.aid(self.resmap[k].ident)])
        self.protos, self.deps = [], []
        for name, proto in api.all_protos.items():
            (self.protos if name in api.protos else self.deps).append(self._proto(name, proto))

    def aid(self, addr):
        if addr not in self.ids:
            self.ids[addr] = len(self.ids)
            self.names[self.ids[addr]] = addr.proto
        return self.ids[addr]

    def _msg(self, m):
        if id(m) in self._seen:
            return
        self._seen.add(id(m))
        a = self.aid(m.ident)
        st = {"addr": a,
              "fields": [[self.aid(f.message.ident) if f.message else None, self.aid(f.enum.ident) if f.enum else None,
                          f.resource_reference] for f in m.fields.values()],
              "nested_enums": [self.aid(e.ident) for e in m.nested_enums.values()],
              "nested_msgs": [self.aid(n.ident) for n in m.nested_messages.values()]}
        if a in self.msgs and self.msgs[a] != st:
            self.inconsistent.append(m.ident.proto)
        self.msgs.setdefault(a, st)
        for f in m.fields.values():
            if f.message:
                self._msg(f.message)
        for n in m.nested_messages.values():
            self._msg(n)

    def _method(self, m):
        for t in (m.input, m.output):
            self._msg(t)
        lro = None
        if m.lro:
            self._msg(m.lro.response_type); self._msg(m.lro.metadata_type)
            lro = [self.aid(m.lro.response_type.ident), self.aid(m.lro.metadata_type.ident)]
        ext = None
        if m.extended_lro and m.operation_service:
            self._msg(m.extended_lro.request_type); self._msg(m.extended_lro.operation_type)
            ext = {"svc": m.operation_service, "request": self.aid(m.extended_lro.request_type.ident),
                   "operation": self.aid(m.extended_lro.operation_type.ident)}
        return {"addr": self.aid(m.ident), "name": m.name, "fqn": m.ident.proto, "input": self.aid(m.input.ident),
                "output": self.aid(m.output.ident), "lro": lro, "ext": ext, "polling": bool(m.is_operation_polling_method),
                "internal": bool(m.is_internal)}

    def _proto(self, name, proto):
        return {"name": name,
                "services": [{"addr": self.aid(s.meta.address), "name": s.name,
                              "methods": [self._method(m) for m in s.methods.values()]} for s in proto.services.values()],
                "messages": [self.aid(v.ident) for v in proto.all_messages.values()],
                "enums": [self.aid(v.ident) for v in proto.all_enums.values()]}

    def json(self):
        return {"protos": self.protos, "deps": self.deps, "msgs": list(self.msgs.values()), "resources": self.resources}

    def summary(self, proto, name=None):
        """the same observables of a (possibly pruned / internal-marked) real Proto as the driver reports"""
        if proto is None:
            return None
        return {"name": name if name is not None else proto.name,
                "services": [{"addr": self.ids.get(s.meta.address, -1), "name": s.name, "internal": bool(s.is_internal),
                              "client_name": s.client_name, "async_client_name": s.async_client_name,
                              "methods": [{"addr": self.ids.get(m.ident, -1), "name": m.name, "internal": bool(m.is_internal),
                                           "client_method_name": m.client_method_name,
                                           # (stem, suffix) of the python methods client.py.j2 emits for the RPC
                                           "surface": [[m.client_method_name, ""]] +
                                                      ([[m.client_method_name, "_unary"]] if (m.extended_lro and m.operation_service) else [])}
                                          for m in s.methods.values()]}
                             for s in proto.services.values()],
                "messages": [self.ids.get(v.ident, -1) for v in proto.all_messages.values()],
                "enums": [self.ids.get(v.ident, -1) for v in proto.all_enums.values()],
                "top_messages": [self.ids.get(v.ident, -1) for v in proto.messages.values()],
                "top_enums": [self.ids.get(v.ident, -1) for v in proto.enums.values()],
                "emitted": [x for v in proto.messages.values() for x in self._declared(v)] +
                           [self.ids.get(v.ident, -1) for v in proto.enums.values()]}

    def _declared(self, m):
        """the classes _message.py.j2 writes for a top-level message: itself, its nested enums, its nested messages (recursively)"""
        out = [self.ids.get(m.ident, -1)] + [self.ids.get(e.ident, -1) for e in m.nested_enums.values()]
        for n in m.nested_messages.values():
            out += self._declared(n)
        return out


def real_allowlist(g: Graph, listed):
    al = set()
    for proto in g.api.protos.values():
        proto.add_to_address_allowlist(address_allowlist=al, method_allowlist=set(listed), resource_messages=g.resmap)
    return al


def settings_json(doc):
    out = []
    for ls in doc["publishing"]["library_settings"]:
        sg = ls.get("python_settings", {}).get("common", {}).get("selective_gapic_generation", {})
        out.append({"version": ls.get("version", ""), "methods": list(sg.get("methods", [])),
                    "internal": bool(sg.get("generate_omitted_as_internal", False))})
    return out


def parse_settings_error(e):
    """ClientLibrarySettingsError(yaml.dump(all_errors)) -> the driver's error shape"""
    import yaml
    d = yaml.safe_load(str(e)) or {}
    out = {}
    for ver, v in d.items():
        if v == ["Duplicate version"]:
            out[ver] = "duplicate"
        else:
            sel = v[0]["selective_gapic_generation"]
            out[ver] = {m: {"Method does not exist.": "missing", "Mismatched version for method.": "mismatch"}[msg] for m, msg in sel.items()}
    return out


def build_selective(spec, files, doc):
    """API.build with the service yaml -> ('built', api) | ('rejected', errors) | ('crash', signature)"""
    from gapic.schema import api as gapi
    with Yaml(doc) as yp:
        req = make_request(spec, files, yp)
        try:
            api, _ = genrun.build_api(req)
            return "built", api
        except gapi.ClientLibrarySettingsError as e:
            return "rejected", parse_settings_error(e)
        except BaseException as e:  # noqa
            return "crash", (genrun.crash_signature(e), str(e)[:300])

# --------------------------------------------------------------------------------------------------
# oracle helpers (statement level, independent of the model)


def snake(name):
    out = []
    for i, ch in enumerate(name):
        if ch.isupper() and i and (name[i - 1].islower() or name[i - 1].isdigit() or (i + 1 < len(name) and name[i + 1].islower())):
            out.append("_")
        out.append(ch.lower())
    return "".join(out)


def hazards(d: Descs, required):
    """required nested types whose enclosing message the statement does not oblige the library to keep"""
    return sorted(t for t in required if d.in_target(t) and d.parent_of.get(t) and d.parent_of[t] not in required)


KNOWN_HAZARD = "nested-kept-parent-pruned"


def hazard_closure(d: Descs, hz):
    """the hazard types and everything declared inside them"""
    out, todo = set(), list(hz)
    while todo:
        t = todo.pop()
        if t not in out:
            out.add(t); todo += d.nested_of.get(t, [])
    return out


def top_ancestor(d: Descs, t):
    while d.parent_of.get(t):
        t = d.parent_of[t]
    return t


def hazard_tainted_files(d: Descs, hz, required):
    """proto files whose python module cannot be used when the hazard types have no class: files with a kept message
    that has a field of a hazard type, and (proto-plus builds one descriptor pool entry per file, dependencies first)
    files with a kept message that has a field of a type of such a file"""
    lost = hazard_closure(d, hz)
    kept = [t for t in required if t in d.msgs]
    tainted = {d.file_of[t] for t in kept if any(f.type_name.lstrip(".") in lost for f in d.msgs[t].field)}
    more = True
    while more:
        more = False
        for t in kept:
            if d.file_of[t] in tainted:
                continue
            if any(d.file_of.get(f.type_name.lstrip(".")) in tainted for f in d.msgs[t].field if f.type_name):
                tainted.add(d.file_of[t]); more = True
    return tainted


def hazard_import_symptom(d: Descs, hz, required, errors):
    """the recorded import failures of the known finding: AttributeError, module '<pkg>.types.<file>' has no attribute
    '<top-level message that declares a hazard type and was pruned>', or TypeError, couldn't resolve name '<hazard type>'
    while the file's descriptor is built — and nothing else"""
    import re
    if not hz or not errors:
        return False
    tops = {top_ancestor(d, t) for t in hz}
    want = {(os.path.basename(d.file_of[t])[:-len(".proto")], t.rsplit(".", 1)[1]) for t in tops}
    lost = hazard_closure(d, hz)
    tainted = hazard_tainted_files(d, hz, required)
    for e in errors:
        if len(e) >= 3 and e[1] == "TypeError":
            # same cause, met by the protobuf runtime while the module is imported: the file's descriptor names the hazard type
            m = re.fullmatch(r"Couldn't build proto file into descriptor pool: couldn't resolve name '([\w.]+)'", e[2].strip())
            if m and (m.group(1) in lost or d.file_of.get(m.group(1)) in tainted):
                continue        # the hazard type itself, or a type of a file whose descriptor could not be built because of it
            return False
        if len(e) < 3 or e[1] != "AttributeError":
            return False
        m = re.fullmatch(r"module 'acme\.lib_v1(?:\.\w+)*\.types\.(\w+)' has no attribute '(\w+)'", e[2])
        if not m or (m.group(1), m.group(2)) not in want:
            return False
    return True


def hazard_unusable_symptom(d: Descs, hz, required, bad):
    """the recorded first-use failure of the known finding: TypeError 'NoneType' object is not callable, on classes of
    a module that (transitively) needs a hazard type — and nothing else"""
    if not hz or not bad:
        return False
    tainted = hazard_tainted_files(d, hz, required)
    for b in bad:
        if b.get("kind") == "error" or not b.get("full") or not str(b.get("error", "")).startswith("TypeError: 'NoneType' object is not callable"):
            return False
        if d.file_of.get(b["full"]) not in tainted:
            return False
    return True


KNOWN_MULTIVIEW = "multi-view:settings-validated-per-view"


def view_settings_errors(api):
    """[(view, text, parsed)] for every sub-package view of the real (selective) API whose all_library_settings raises"""
    from gapic.schema import api as gapi
    out = []

    def walk(a):
        for _, sub in a.subpackages.items():
            try:
                sub.all_library_settings
            except gapi.ClientLibrarySettingsError as e:
                try:
                    parsed = parse_settings_error(e)
                except Exception:  # noqa
                    parsed = None
                out.append((tuple(sub.subpackage_view), str(e), parsed))
            walk(sub)
    walk(api)
    return out


def multiview_symptom(spec, api_sel, listed, internal, req_services, err):
    """the recorded defect and nothing else: the generator stops with ClientLibrarySettingsError because the view of a
    proto sub-package that declares a service of the library validates the allow-list against its own methods only —
    the error names exactly the listed methods that live outside that view, each as 'Method does not exist.'"""
    if not err or not str(err[0]).startswith("ClientLibrarySettingsError@schema/api.py:enforce_valid_library_settings"):
        return False
    for v, text, parsed in view_settings_errors(api_sel):
        if text[:300] != err[1] or not v:
            continue
        vs = "." + ".".join(v)
        holders = [s for f, s in target_services(spec) if view_of(f["package"]) == vs and (internal or f"{f['package']}.{s['name']}" in req_services)]
        outside = {m for m in listed if not (m.rsplit(".", 2)[0] + ".").startswith(PKG + vs + ".")}
        if holders and outside and parsed == {spec["version"]: {m: "missing" for m in outside}}:
            return True
    return False


def features(spec, d, listed, req_types):
    fs = set()
    for f in spec["files"]:
        for s in f["services"]:
            ms = [f"{f['package']}.{s['name']}.{m['name']}" for m in s["methods"]]
            if f["package"] == PKG and not any(m in listed for m in ms):
                fs.add("service-empty-after-filter")
            for m in s["methods"]:
                fq = f"{f['package']}.{s['name']}.{m['name']}"
                if fq in listed:
                    if m.get("lro"): fs.add("lro-kept")
                    if m["name"].startswith("List"): fs.add("paged-kept")
                    if m.get("opservice"): fs.add("extended-lro-kept")
                    if m.get("ss"): fs.add("stream-kept")
                elif m.get("lro"):
                    fs.add("lro-dropped")
    if spec.get("layout"):
        fs.add("views:" + spec["layout"])
        lp = {m.rsplit(".", 2)[0] for m in listed}
        fs.add("views:listed-in-%d-package%s" % (len(lp), "" if len(lp) == 1 else "s"))
    tnames = [s["name"] for f, s in target_services(spec)]
    for f, s in target_services(spec):
        unl = [m for m in s["methods"] if f"{f['package']}.{s['name']}.{m['name']}" not in listed]
        if s["name"].startswith("Base"):
            fs.add("name:service-starts-with-Base" + ("-some-rpc-unlisted" if unl else "-all-listed"))
            if s["name"][4:] in tnames:
                fs.add("name:services-Foo-and-BaseFoo")
                other = next(x for _, x in target_services(spec) if x["name"] == s["name"][4:])
                if not unl and any(f"{PKG}.{other['name']}.{m['name']}" not in listed for m in other["methods"]):
                    fs.add("name:BaseFoo-all-listed-Foo-not")
        if any(m["name"].startswith(("Underscore", "Private", "Base")) for m in unl):
            fs.add("name:rpc-spells-a-mark-unlisted")
    starters, polling, ops_other = ext_roles(spec)
    kept_starters = [m for m in starters if m in listed]
    if kept_starters:
        order = all_methods(spec, PKG)
        svc_of = lambda fq: fq.rsplit(".", 1)[0]
        svc_order = []
        for m in order:
            if svc_of(m) not in svc_order:
                svc_order.append(svc_of(m))
        if any(p in listed for p in polling):
            fs.add("ext:polling-listed-too")
        else:
            fs.add("ext:polling-needed-not-listed")
            if any(m in listed for m in ops_other):
                fs.add("ext:operation-service-rpc-listed-polling-not")
        for p in polling:
            for m in kept_starters:
                if svc_of(m) == svc_of(p):
                    fs.add("ext:starter-in-operation-service")
                elif svc_order.index(svc_of(p)) < svc_order.index(svc_of(m)):
                    fs.add("ext:operation-service-declared-before-starter")
                else:
                    fs.add("ext:operation-service-declared-after-starter")
            if order.index(p) > min(order.index(m) for m in order if svc_of(m) == svc_of(p)):
                fs.add("ext:polling-not-first-method")
        if len(kept_starters) > 1:
            fs.add("ext:several-starters-one-operation-service")
    for t in req_types:
        if t in d.msgs:
            if d.parent_of.get(t): fs.add("nested-kept")
            for fld in d.msgs[t].field:
                if fld.type_name.lstrip(".") == t: fs.add("recursive-kept")
                ref = fld.options.Extensions[d.resource_pb2.resource_reference]
                if (ref.type or ref.child_type) in d.res_decl: fs.add("resource-ref-kept")
    for t in req_types:
        if t.startswith(PKG + ".sub."): fs.add("subpackage-type-kept")
        if t in d.msgs and any(fld.HasField("oneof_index") and not fld.proto3_optional and fld.type_name for fld in d.msgs[t].field):
            fs.add("oneof-member-edge")
    for f in spec["files"]:
        if f["package"].startswith(PKG) and not f["messages"] and not f["services"] and f["enums"]:
            fs.add("enum-only-file-" + ("kept" if any(f"{PKG}.{e}" in req_types for e in f["enums"]) else "dropped"))
        if f["name"].endswith("resources.proto"):
            fs.add("reference-only-file-" + ("kept" if any(f"{PKG}.{m['name']}" in req_types for m in f["messages"]) else "dropped"))
    for f in spec["files"]:
        if f["package"] == PKG:
            names = [full for full, _ in _walk(f["messages"], PKG)] + [f"{PKG}.{e}" for e in f["enums"]]
            if names and not any(n in req_types for n in names) and not any(f"{PKG}.{s['name']}.{m['name']}" in listed for s in f["services"] for m in s["methods"]):
                fs.add("file-dropped")
    return sorted(fs)


def oracle_schema(ctx, spec, d, api0, api_sel, listed, internal, payload):
    """the statement, read off API.build's result"""
    req_types, req_methods, req_services = d.reach(listed)
    required = {t for t in req_types if d.in_target(t)}
    hz = hazards(d, req_types)
    got_methods = set(api_sel.all_methods)
    got_services = set(api_sel.services)
    got_types = {k for k in list(api_sel.messages) + list(api_sel.enums)}
    all_methods0 = set(api0.all_methods)
    if not internal:
        if got_methods != req_methods:
            ctx.fail("rpc-set", f"kept RPCs {sorted(got_methods)} != listed (+polling) {sorted(req_methods)}", payload)
        if got_services != req_services:
            ctx.fail("service-set", f"kept services {sorted(got_services)} != {sorted(req_services)}", payload)
        if required - got_types:
            ctx.fail("type-missing", f"reachable types pruned: {sorted(required - got_types)[:5]}", payload)
        allowed = {t for t in d.with_enclosing(req_types) if d.in_target(t)} if hz else required
        if got_types - allowed:
            ctx.fail("type-extra", f"unreachable types kept: {sorted(got_types - allowed)[:5]}", payload)
        # the kept RPCs and their clients are exposed under the names the full library gives them (no internal marks)
        for sk, s in api_sel.services.items():
            s0 = api0.services.get(sk)
            if s0 is None:
                continue
            if (s.client_name, s.async_client_name) != (s0.client_name, s0.async_client_name):
                ctx.fail("client-classes", f"{sk}: client classes {s.client_name}/{s.async_client_name} in omitting mode, "
                         f"the full library has {s0.client_name}/{s0.async_client_name}", payload)
            for mk, m in s.methods.items():
                if mk in s0.methods and m.client_method_name != s0.methods[mk].client_method_name:
                    ctx.fail("rpc-set", f"{sk}.{m.name}: client method {m.client_method_name} in omitting mode, "
                             f"{s0.methods[mk].client_method_name} in the full library", payload)
        orphans = sorted(t for t in got_types if d.parent_of.get(t) and d.parent_of[t] not in got_types)
        if orphans:
            # the known finding is: a nested type the listed RPCs NEED, whose declaring message they do not need.  Any other
            # orphan (its declaring message is needed and was pruned, or the orphan itself is not needed) is something else.
            ctx.fail(KNOWN_HAZARD if set(orphans) <= set(hz) else "nested-orphan-unexpected",
                     f"nested types kept without the message that declares them: {orphans[:4]} (no python class can hold them)"
                     + ("" if set(orphans) <= set(hz) else f"; only {hz[:4]} are needed-without-their-parent in this input"), payload)
    else:
        if got_methods != all_methods0 or got_services != set(api0.services):
            ctx.fail("internal-omits", f"internal mode dropped RPCs/services: {sorted(all_methods0 - got_methods)[:5]}", payload)
        t0 = set(api0.messages) | set(api0.enums)
        if got_types != t0:
            ctx.fail("internal-omits", f"internal mode changed the type set: {sorted(t0 ^ got_types)[:5]}", payload)
        for sk, s in api_sel.services.items():
            unl = [m for m in s.methods.values() if f"{sk}.{m.name}" not in listed]
            want_client = ("Base" if unl else "") + s.name + "Client"
            want_async = ("Base" if unl else "") + s.name + "AsyncClient"
            if s.client_name != want_client or s.async_client_name != want_async:
                ctx.fail("internal-names", f"{sk}: client classes {s.client_name}/{s.async_client_name}, expected {want_client}/{want_async}", payload)
            for m in s.methods.values():
                want = m.name if f"{sk}.{m.name}" in listed else "_" + m.name
                if m.client_method_name != want:
                    ctx.fail("internal-names", f"{sk}.{m.name}: client method {m.client_method_name}, expected {want}", payload)
    # dependencies untouched (both modes)
    for name, p0 in api0.all_protos.items():
        if name in api0.protos:
            continue
        p1 = api_sel.all_protos.get(name)
        if p1 is None or list(p1.all_messages) != list(p0.all_messages) or list(p1.all_enums) != list(p0.all_enums) \
                or list(p1.services) != list(p0.services):
            ctx.fail("dependency-touched", f"dependency proto {name} changed by selective generation", payload)
    return hz

# --------------------------------------------------------------------------------------------------
# T2: real functions vs the Lean model on the extracted graph


def t2_api(ctx, r, spec, nsub, label, variants=None):
    files = build_files(spec)
    req0 = make_request(spec, files)
    api0, _ = genrun.build_api(req0)
    g = Graph(api0)
    d = Descs(files, PKG)
    gj = g.json()
    if g.inconsistent:
        ctx.assume("wrappers with the same ident have the same fields (violated for %s)" % g.inconsistent[:2])
        ctx.unsupported += 1
    if variants is None:
        variants = [(spec["listed"], spec["internal"])] + subsets(r, spec, nsub)
    ops, plan = [], []
    for listed, internal in variants:
        al = real_allowlist(g, listed)
        al_ids = sorted(g.ids.get(a, -1) for a in al)
        pruned = [g.summary(p.prune_messages_for_selective_generation(address_allowlist=al), name) for name, p in api0.protos.items()]
        marked = [g.summary(p.with_internal_methods(public_methods=set(listed)), name) for name, p in api0.protos.items()]
        doc = service_yaml(spec, listed, internal)
        kind, built = build_selective(spec, files, doc)
        ops += [{"op": "c16.allowlist", "api": gj, "listed": listed},
                {"op": "c16.prune", "api": gj, "allowlist": [x for x in al_ids if x >= 0]},
                {"op": "c16.internal", "api": gj, "public": listed},
                {"op": "c16.third_pass", "api": gj, "settings": settings_json(doc), "proto_package": api0.naming.proto_package,
                 "package": spec["target_package"]}]
        plan.append((listed, internal, al_ids, pruned, marked, kind, built))
    res = ctx.driver.ask(ops)
    for i, (listed, internal, al_ids, pruned, marked, kind, built) in enumerate(plan):
        mo_al, mo_pr, mo_in, mo_tp = res[4 * i: 4 * i + 4]
        payload = {"kind": "t2", "spec": spec, "listed": listed, "internal": internal}
        req_types, _, _ = d.reach(listed)
        feats = features(spec, d, listed, req_types)
        ctx.case({"listed": listed, "internal": internal, "features": feats, "allowlist_size": len(al_ids)},
                 distinct_key=["t2", json.dumps(listed), internal, json.dumps(spec, sort_keys=True)])
        ctx.count("mode", "internal" if internal else "omit")
        ctx.count("listed_rpcs", len(listed))
        for ft in feats:
            ctx.count("features", ft)
        ctx.traces += 1
        if any("unsupported" in m or "error" in m for m in (mo_al, mo_pr, mo_in, mo_tp)):
            ctx.unsupported += 1
            ctx.disagree("T2:c16.driver", f"driver refused: {[m for m in (mo_al, mo_pr, mo_in, mo_tp) if 'unsupported' in m or 'error' in m][:1]}", payload)
            continue
        if not (mo_al["wf"] and mo_al["wf_addrs"] and mo_al.get("wf_services", False)):
            ctx.unsupported += 1
            ctx.disagree("T2:c16.wf", "the extracted graph does not meet Api.wf / Api.wfAddrs / Api.wfServices (the theorems' hypotheses)", payload)
        if -1 in al_ids:
            ctx.disagree("T2:c16.allowlist", "the real allow-list holds an address no schema object carries", payload)
        if sorted(mo_al["allowlist"]) != al_ids:
            ctx.disagree("T2:c16.allowlist", "model allow-list != Proto.add_to_address_allowlist: only model %s only real %s" % (
                [g.names.get(x) for x in set(mo_al["allowlist"]) - set(al_ids)][:4], [g.names.get(x) for x in set(al_ids) - set(mo_al["allowlist"])][:4]), payload)
        if mo_pr["protos"] != pruned:
            ctx.disagree("T2:c16.prune", "model pruneProto != Proto.prune_messages_for_selective_generation", payload)
        if mo_in["protos"] != marked:
            ctx.disagree("T2:c16.internal", "model withInternal/clientMethodName/clientName != with_internal_methods", payload)
        # whole third pass
        if kind == "crash":
            ctx.fail("build-crash:" + built[0], f"API.build raised {built[0]}: {built[1]}", payload)
            continue
        if kind == "rejected":
            ctx.fail("valid-settings-rejected", f"API.build rejected existing methods of this version: {built}", payload)
            if mo_tp.get("outcome") != "rejected" or mo_tp.get("errors") != built:
                ctx.disagree("T2:c16.third_pass", f"model {mo_tp.get('outcome')} vs real rejected {built}", payload)
            continue
        real_protos = [g.summary(p, name) for name, p in built.all_protos.items()]
        if mo_tp.get("outcome") == "unchanged":
            model_protos = [g.summary(p, name) for name, p in api0.all_protos.items()]
        else:
            model_protos = mo_tp.get("protos")
        if mo_tp.get("outcome") == "rejected" or model_protos != real_protos:
            ctx.disagree("T2:c16.third_pass", f"model third pass ({mo_tp.get('outcome')}) != API.build's all_protos", payload)
        hz = oracle_schema(ctx, spec, d, api0, built, listed, internal, payload)
        if hz and not internal:
            ctx.count("hazard", "nested-type-without-enclosing-message")
    return api0, g, d, files


def validation_cases(ctx, r, spec):
    """Listing an unknown method or one from another version is rejected (API.build raises)."""
    files = build_files(spec)
    api0, _ = genrun.build_api(make_request(spec, files))
    meths = sorted(api0.all_methods)
    good = r.sample(meths, min(2, len(meths)))
    cases = [
        ("unknown-method", service_yaml(spec, good + [f"{PKG}.{r.pick(SVC_NAMES)}.Nope{r.randrange(100)}"], r.maybe()), True),
        ("unknown-service", service_yaml(spec, [f"{PKG}.Nowhere.Get"], False), True),
        ("dependency-method", service_yaml(spec, good + ["google.longrunning.Operations.GetOperation"], False), True),
        ("other-version-entry", service_yaml(spec, good, False, extra_settings=[("acme.lib.v2", [r.pick(meths)])]), True),
        ("other-version-unknown", service_yaml(spec, good, False, extra_settings=[("acme.lib.v2", ["acme.lib.v2.Library.Get"])]), True),
        ("listed-under-other-version-only", service_yaml(spec, [r.pick(meths)], False, version="acme.lib.v2"), True),
        ("duplicate-version", service_yaml(spec, good, False, extra_settings=[(PKG, good[:1])]), None),
        ("empty-methods", service_yaml(spec, [], r.maybe()), False),
        ("other-version-empty", service_yaml(spec, good, False, extra_settings=[("acme.lib.v2", [])]), False),
    ]
    g = Graph(api0)
    gj = g.json()
    ops = [{"op": "c16.third_pass", "api": gj, "settings": settings_json(doc), "proto_package": api0.naming.proto_package,
            "package": PKG} for _, doc, _ in cases]
    ops += [{"op": "c16.validate", "all_methods": meths, "settings": settings_json(doc)} for _, doc, _ in cases]
    res = ctx.driver.ask(ops)
    for i, (name, doc, want_reject) in enumerate(cases):
        payload = {"kind": "validate", "spec": spec, "doc": doc, "name": name}
        kind, built = build_selective(spec, files, doc)
        mo, mv = res[i], res[len(cases) + i]
        ctx.case({"validation": name, "outcome": kind}, distinct_key=["validate", name, json.dumps(doc, sort_keys=True), json.dumps(meths)])
        ctx.count("validation", f"{name}:{kind}")
        ctx.traces += 1
        if kind == "crash":
            ctx.fail("build-crash:" + built[0], f"API.build raised {built[0]}: {built[1]}", payload)
            continue
        if want_reject is True and kind != "rejected":
            ctx.fail("bad-method-accepted:" + name, f"settings '{name}' were accepted", payload)
        if want_reject is False and kind != "built":
            ctx.fail("valid-settings-rejected", f"settings '{name}' were rejected: {built}", payload)
        # the function itself, on the unselective schema
        from gapic.schema import api as gapi
        from google.api import client_pb2
        from google.protobuf import json_format
        ls = [json_format.ParseDict(x, client_pb2.ClientLibrarySettings()) for x in doc["publishing"]["library_settings"]]
        try:
            api0.enforce_valid_library_settings(ls)
            ferr = {}
        except gapi.ClientLibrarySettingsError as e:
            ferr = parse_settings_error(e)
        if mv.get("errors") != ferr:
            ctx.disagree("T2:c16.validate", f"model validateSettings {mv.get('errors')} != enforce_valid_library_settings {ferr}", payload)
        if kind == "rejected":
            if mo.get("outcome") != "rejected" or mo.get("errors") != built:
                ctx.disagree("T2:c16.third_pass", f"model {mo.get('outcome')} {mo.get('errors')} vs real rejected {built}", payload)
        else:
            real_protos = [g.summary(p, nm) for nm, p in built.all_protos.items()]
            model_protos = [g.summary(p, nm) for nm, p in api0.all_protos.items()] if mo.get("outcome") == "unchanged" else mo.get("protos")
            if mo.get("outcome") == "rejected" or model_protos != real_protos:
                ctx.disagree("T2:c16.third_pass", f"model third pass ({mo.get('outcome')}) != API.build for settings '{name}'", payload)

ENTRY_KINDS = ["valid", "unknown-method", "unknown-service", "other-version", "dependency-method"]


def ordered_lists(ctx, r):
    """allow-lists of 2-4 entries mixing valid / unknown-method / unknown-service / other-version / dependency-method
    entries in EVERY order (all sequences of length 2 and 3, a sample of length 4; a list with an invalid entry BEFORE a
    valid last one is as invalid as one that ends with it), both modes.  The statement: rejected iff SOME entry is invalid."""
    import itertools
    from gapic.schema import api as gapi
    from google.api import client_pb2
    from google.protobuf import json_format
    spec = prefix_probe_spec()           # acme.lib.v1 (target) next to acme.lib.v1beta1 in one request
    files = build_files(spec)
    api0, _ = genrun.build_api(make_request(spec, files))
    meths = sorted(api0.all_methods)
    valid = [m for m in meths if m.startswith(PKG + ".")]
    g = Graph(api0)
    gj = g.json()

    def entry(kind, i):
        if kind == "valid":
            return valid[i % len(valid)]
        if kind == "unknown-method":
            return f"{PKG}.Library.PurgeBooks{i}"
        if kind == "unknown-service":
            return f"{PKG}.Archive{i}.GetBook"
        if kind == "other-version":
            return "acme.lib.v1beta1.Library.GetThing"
        return "google.longrunning.Operations.GetOperation"
    seqs = [q for n in (2, 3) for q in itertools.product(ENTRY_KINDS, repeat=n)]
    four = list(itertools.product(ENTRY_KINDS, repeat=4))
    seqs += r.sample(four, ctx.n(80, len(four)))
    # the same unknown name twice, around a valid one
    dup = [("unknown-method", "valid", "unknown-method"), ("unknown-method", "unknown-method", "valid")]
    cases = []
    for q in seqs:
        cases.append((q, [entry(k, i) for i, k in enumerate(q)]))
    for q in dup:
        cases.append((q + ("same-name",), [entry(k, 0) for k in q]))
    docs = [(q, ms, service_yaml(spec, ms, bool(i % 2))) for i, (q, ms) in enumerate(cases)]
    res = ctx.driver.ask([{"op": "c16.validate", "all_methods": meths, "settings": settings_json(doc)} for _, _, doc in docs])
    deep = set(r.sample(range(len(docs)), min(len(docs), ctx.n(40, 400))))
    deep |= {i for i, (q, _, _) in enumerate(docs) if len(q) <= 3 and q[-1] == "valid" and any(k != "valid" for k in q)}
    mo3 = {}
    order = sorted(deep)
    for i, mo in zip(order, ctx.driver.ask([{"op": "c16.third_pass", "api": gj, "settings": settings_json(docs[i][2]),
                                             "proto_package": api0.naming.proto_package, "package": PKG} for i in order])):
        mo3[i] = mo
    for i, ((q, ms, doc), mv) in enumerate(zip(docs, res)):
        shape = ">".join(q)
        want_reject = any(k != "valid" for k in q if k != "same-name")
        payload = {"kind": "validate", "spec": spec, "doc": doc, "name": "ordered:" + shape, "want_reject": want_reject,
                   "key": "bad-method-accepted:ordered"}
        ctx.case({"validation": "ordered", "entries": list(q)}, distinct_key=["ordered", json.dumps(ms), i % 2])
        ctx.count("ordered_lists", "len%d:%s" % (len(ms), "all-valid" if not want_reject else
                                                  ("invalid-before-valid-last" if q[-1] == "valid" or (q[-1] == "same-name" and q[-2] == "valid") else "invalid-last")))
        ctx.traces += 1
        ls = [json_format.ParseDict(x, client_pb2.ClientLibrarySettings()) for x in doc["publishing"]["library_settings"]]
        try:
            api0.enforce_valid_library_settings(ls)
            ferr = {}
        except gapi.ClientLibrarySettingsError as e:
            ferr = parse_settings_error(e)
        if bool(ferr) != want_reject:
            ctx.fail("bad-method-accepted:ordered" if want_reject else "valid-settings-rejected",
                     f"enforce_valid_library_settings {'accepted' if want_reject else 'rejected'} the allow-list {ms} (entries: {shape})", payload)
        elif want_reject:
            # every invalid entry is reported, whatever its position
            bad = {m for m, k in zip(ms, q) if k != "valid"}
            named = set(next(iter(ferr.values()))) if ferr and isinstance(next(iter(ferr.values())), dict) else set()
            if named != bad:
                ctx.fail("bad-method-accepted:ordered", f"the error names {sorted(named)}, the invalid entries are {sorted(bad)} (entries: {shape})", payload)
        if mv.get("errors") != ferr:
            ctx.disagree("T2:c16.validate", f"model validateSettings {mv.get('errors')} != enforce_valid_library_settings {ferr} for {ms}", payload)
        if i in deep:
            kind, built = build_selective(spec, files, doc)
            ctx.traces += 1
            if kind == "crash":
                ctx.fail("build-crash:" + built[0], f"API.build raised {built[0]}: {built[1]}", payload)
                continue
            if (kind == "rejected") != want_reject:
                ctx.fail("bad-method-accepted:ordered" if want_reject else "valid-settings-rejected",
                         f"API.build {'accepted' if want_reject else 'rejected'} the allow-list {ms} (entries: {shape})", payload)
            mo = mo3[i]
            if kind == "rejected" and (mo.get("outcome") != "rejected" or mo.get("errors") != built):
                ctx.disagree("T2:c16.third_pass", f"model {mo.get('outcome')} {mo.get('errors')} vs real rejected {built} for {ms}", payload)
            if kind == "built" and mo.get("outcome") == "rejected":
                ctx.disagree("T2:c16.third_pass", f"model rejects {mo.get('errors')}, API.build accepts {ms}", payload)

# --------------------------------------------------------------------------------------------------
# T3: the emitted selective library vs the full library, the oracle's reachability and the model


def rpc_names(m, internal=False):
    base = snake(m["name"])
    names = [base] + ([base + "_unary"] if m.get("opservice") else [])
    return ["_" + n for n in names] if internal else names


def target_services(spec):
    """(file, service) of the target package and of its sub-packages (each sub-package is rendered as a view of its own)"""
    return [(f, s) for f in spec["files"] if f["package"] == PKG or f["package"].startswith(PKG + ".") for s in f["services"]]


def view_of(package):
    """'' for the target package, '.sub' / '.sub.deep' for its sub-packages: the suffix of the python package of that view"""
    return package[len(PKG):]


def views(spec):
    """the distinct view suffixes of the files of the target package, root first"""
    out = [""]
    for f in spec["files"]:
        if f["package"].startswith(PKG + ".") and view_of(f["package"]) not in out:
            out.append(view_of(f["package"]))
    return out


MIXIN_NAMES = {"get_location", "list_locations", "get_operation", "cancel_operation"}
# every method a mixin can put on a client (fixed names of google.longrunning.Operations, Locations, IAMPolicy)
CANON_MIXIN_METHODS = {"list_operations", "get_operation", "delete_operation", "cancel_operation", "wait_operation",
                       "get_location", "list_locations", "get_iam_policy", "set_iam_policy", "test_iam_permissions"}


def with_mixins(spec, doc):
    """service yaml + the Locations / Operations mixins (C17's mechanism; here: selective settings must not disturb them)"""
    doc = dict(doc or {"type": "google.api.Service", "config_version": 3, "name": "lib.example.com"})
    doc["apis"] = [{"name": f"{f['package']}.{s['name']}"} for f, s in target_services(spec)] + \
                  [{"name": "google.cloud.location.Locations"}, {"name": "google.longrunning.Operations"}]
    doc["http"] = {"rules": [
        {"selector": "google.cloud.location.Locations.GetLocation", "get": "/v1/{name=projects/*/locations/*}"},
        {"selector": "google.cloud.location.Locations.ListLocations", "get": "/v1/{name=projects/*}/locations"},
        {"selector": "google.longrunning.Operations.GetOperation", "get": "/v1/{name=operations/*}"},
        {"selector": "google.longrunning.Operations.CancelOperation", "post": "/v1/{name=operations/*}:cancel", "body": "*"}]}
    return doc


def lib_doc(spec, listed=None, internal=None):
    """the service yaml of one library variant; listed=None -> the FULL library"""
    doc = None if listed is None else service_yaml(spec, listed, internal)
    return with_mixins(spec, doc) if spec.get("mixins") else doc


def call_plan(r, spec, codec):
    """one scripted call per RPC (same bytes for every library built from this API)"""
    plan = {}
    for f, s in target_services(spec):
        for m in s["methods"]:
            fq = f"{f['package']}.{s['name']}.{m['name']}"
            if m.get("opservice") or m.get("polling") or m["output"] == f".{PKG}.Operation":
                continue                      # extended operations: surface only (REST polling is C08's business)
            path = f"/{f['package']}.{s['name']}/{m['name']}"
            inp = m["input"].lstrip(".")
            req = rpc.rand_msg(r, codec, inp, p_set=0.7)
            call = {"fqn": fq, "input": inp, "request_b64": codec.encode_b64(inp, req), "consume": "value", "path": path,
                    "literal": ({"name": r.pick(["shelves/s1", "x", "projects/p/things/t"])}
                                if any(fd.name == "name" for fd in codec.pool.FindMessageTypeByName(inp).fields) else {}),
                    "http_path": f"/v1/{s['name'].lower()}/{m['name']}"}
            out = m["output"].lstrip(".")
            if m.get("lro"):
                d_resp = rpc.rand_msg(r, codec, codec_resolve(codec, m["lro"][0]), p_set=0.7)
                d_meta = rpc.rand_msg(r, codec, codec_resolve(codec, m["lro"][1]), p_set=0.7)
                op = {"name": "operations/op1", "done": True,
                      "response": dict({"@type": "type.googleapis.com/" + codec_resolve(codec, m["lro"][0])}, **d_resp),
                      "metadata": dict({"@type": "type.googleapis.com/" + codec_resolve(codec, m["lro"][1])}, **d_meta)}
                call["replies"] = [codec.encode_b64("google.longrunning.Operation", op)]
                call["consume"] = "lro"
                call["result_type"] = codec_resolve(codec, m["lro"][0])
            elif m.get("ss"):
                call["replies"] = [codec.encode_b64(out, rpc.rand_msg(r, codec, out, p_set=0.7)) for _ in range(2)]
                call["consume"] = "stream"
            elif m["name"].startswith("List"):
                page = rpc.rand_msg(r, codec, out, p_set=0.9, force=("items",))
                page.pop("next_page_token", None)
                call["replies"] = [codec.encode_b64(out, page)]
                call["reply_json"] = json.dumps(page)
                call["consume"] = "pager"
            else:
                rep = rpc.rand_msg(r, codec, out, p_set=0.7)
                call["replies"] = [codec.encode_b64(out, rep)]
                call["reply_json"] = json.dumps(rep)
            plan[fq] = call
    return plan


def codec_resolve(codec, name):
    name = name.lstrip(".")
    try:
        codec.pool.FindMessageTypeByName(name)
        return name
    except KeyError:
        return f"{PKG}.{name}"


def has_sub(spec):
    return any(f["package"] == PKG + ".sub" for f in spec["files"])


def run_library(spec, files, api, doc, plan, call_names, deep=True):
    """generate (with `doc` as service yaml), import, observe, call over sync gRPC, asyncio gRPC and REST.
    call_names: {fqn: python method name} for the calls to make."""
    transport = "grpc+rest" if spec.get("rest") else "grpc"
    if doc is None:
        res, err = genrun.try_generate(make_request(spec, files, None, transport=transport, extra=",metadata"))
    else:
        with Yaml(doc) as yp:
            res, err = genrun.try_generate(make_request(spec, files, yp, transport=transport, extra=",metadata"))
    if err:
        return {"gen_error": err}
    root = genrun.materialise(res)
    try:
        pkg = "acme.lib_v1"
        ops = [{"op": "import_all", "package": pkg}, {"op": "proto_classes", "module": pkg + ".types"}]
        sub_is = []
        for v in views(spec)[1:]:
            sub_is.append(len(ops))
            ops.append({"op": "proto_classes", "module": pkg + v + ".types"})
        exp_is = {}
        for v in views(spec):
            exp_is[v] = len(ops)
            ops.append({"op": "package_exports", "package": pkg + v})
        svc_index = {}
        for f, s in target_services(spec):
            svc_index[s["name"]] = len(ops)
            ops.append({"op": "client_surface", "module": f"{pkg}{view_of(f['package'])}.services.{snake(s['name'])}"})
        sess_index = {}
        for sk, svc in api.services.items():
            calls, rest_calls = [], []
            for m in svc.methods.values():
                fq = f"{sk}.{m.name}"
                if fq in call_names and fq in plan:
                    c = plan[fq]
                    base = {"method": call_names[fq], "py_request": rpc.py_type(m.input), "request_b64": c["request_b64"],
                            "consume": c["consume"], "fqn": fq, "call_kwargs": {"timeout": 9.0}}
                    calls.append(dict(base, mode="request-instance", script={c["path"]: [{"replies": c["replies"]}]}))
                    if deep and c["consume"] == "value":
                        # what a caller writes by hand, as a SECOND call on the same client
                        calls.append(dict(base, mode="request-literal-dict", request_literal=c["literal"], literal=True,
                                          script={c["path"]: [{"replies": c["replies"]}]}))
                    if "reply_json" in c:
                        rest_calls.append(dict(base, mode="request-instance", script=[{"status": 200, "body": c["reply_json"]}]))
            if calls:
                loc = rpc.py_locations(api, svc)
                kinds = {"grpc": {"op": "grpc_session", "client": loc["client"], "transport": loc["grpc"], "async": False, "calls": calls}}
                if deep:
                    acalls = [c for c in calls if not c.get("literal")]
                    kinds["grpc_async"] = {"op": "grpc_session", "client": loc["async_client"], "transport": loc["grpc_asyncio"],
                                           "async": True, "calls": acalls}
                    if spec.get("rest") and rest_calls:
                        kinds["rest"] = {"op": "rest_session", "client": loc["client"], "transport": loc["rest"], "calls": rest_calls}
                for kind, o in kinds.items():
                    sess_index[(sk, kind)] = (len(ops), o["calls"])
                    ops.append(o)
        out = libhost.run(root, ops, timeout=400)
        types = out[1]
        parts = [out[i] for i in [1] + sub_is if "classes" in out[i]]
        if parts:       # a view without kept types has no types module; what is missing shows as missing classes
            types = {"classes": [c for p_ in parts for c in p_["classes"]], "all": types.get("all", [])}
        md = None
        for f in res.file:
            if f.name.endswith("gapic_metadata.json"):
                md = json.loads(f.content)
        return {"import": out[0], "types": types, "surface": {k: out[i] for k, i in svc_index.items()}, "exports": out[exp_is[""]],
                "view_exports": {v: out[i] for v, i in exp_is.items()},
                "sessions": {k: (out[i], calls) for k, (i, calls) in sess_index.items()},
                "files": sorted(f.name for f in res.file), "metadata": md}
    finally:
        genrun.cleanup(root)


def canon_call(res, codec, call):
    """what a caller and the server can observe of one call, decoded under the INPUT descriptors"""
    out = {"raised": res.get("raised")}

    def norm(x):
        if isinstance(x, dict):
            if x.get("kind") == "message" and "b64" in x:
                return {"type": x["type"], "value": codec.decode(x["type"], x["b64"]), "plus": x.get("plus")}
            return {k: norm(v) for k, v in x.items() if k not in ("py",)}
        if isinstance(x, list):
            return [norm(v) for v in x]
        return x
    if "ok" in res:
        out["ok"] = norm(res["ok"])
    srv = []
    for rec in res.get("server", []):
        if "verb" in rec:           # REST
            try:
                body = json.loads(rec["body"]) if rec["body"] else None
            except ValueError:
                body = rec["body"]
            srv.append({"verb": rec["verb"], "path": rec["path"], "query": sorted(rec["query"].split("&")), "body": body})
        else:
            srv.append({"path": rec["path"], "requests": [codec.decode(call["input"], b) for b in rec["requests"]],
                        "metadata": sorted([k, v] for k, v in rec["metadata"] if k.startswith("x-goog-request"))})
    out["server"] = srv
    # only the RPC's own stub: the operations-client stubs are created once per transport, by whichever LRO call comes first
    out["stubs"] = [[s[0], s[1]] for s in res.get("stubs", []) if s[0] == call.get("path")]
    return out


def emitted_types(lib, d):
    """proto full names of the classes the emitted types packages define (target package)"""
    cls = lib["types"].get("classes", [])
    return {c["full"] for c in cls if c["kind"] != "error"}, [c for c in cls if c["kind"] == "error" or not c.get("usable")]


def expected_client_classes(spec, internal, listed, req_services, view=None):
    """{service name: (sync class, async class)} the statement gives every service the library holds: the service's
    own name + Client/AsyncClient, with the prefix `Base` iff internal mode and some RPC of the service is unlisted"""
    out = {}
    for f, s in target_services(spec):
        if view is not None and view_of(f["package"]) != view:
            continue
        sk = f"{f['package']}.{s['name']}"
        if not (internal or sk in req_services):
            continue
        unlisted = [m for m in s["methods"] if f"{sk}.{m['name']}" not in listed]
        prefix = "Base" if (internal and unlisted) else ""
        out[s["name"]] = (prefix + s["name"] + "Client", prefix + s["name"] + "AsyncClient")
    return out


def exports_oracle(ctx, spec, lib, internal, listed, req_services, payload):
    """what `from acme.lib_v1 import X` hands out: for every service of the library the two class names of the
    statement, bound to the classes that service's own module defines; no other *Client class."""
    for view in views(spec):
        exports_oracle_view(ctx, spec, lib, internal, listed, req_services, payload, view)


def exports_oracle_view(ctx, spec, lib, internal, listed, req_services, payload, view):
    """one view (the package acme.lib_v1 itself, or the package of a proto sub-package): it exports the clients of the
    services declared in exactly that package"""
    exp = (lib.get("view_exports") or {}).get(view) or {}
    want = expected_client_classes(spec, internal, listed, req_services, view)
    if "exports" not in exp:
        if view and not want:
            return          # a sub-package none of whose services is in the library need not exist
        ctx.fail("import-error", f"the package acme.lib_v1{view} does not import: {str(exp)[:200]}", payload)
        return
    owners = {}
    for sname, names in want.items():
        for n in names:
            owners.setdefault(n, []).append(sname)
    clash = {n for n, ss in owners.items() if len(ss) > 1}
    if clash:
        # Foo (internal) next to BaseFoo (every RPC listed): the statement itself gives both services the class name
        # BaseFooClient; each lives in its own service module (checked there), the package namespace can hold one
        ctx.assume("package-level exports are compared only for client class names the statement gives to ONE service "
                   "(services Foo with an unlisted RPC and BaseFoo with none both get BaseFooClient in internal mode)")
        ctx.count("hazard", "t3:client-class-name-clash")
    for n, ss in owners.items():
        if n in clash:
            continue
        mod = f"acme.lib_v1{view}.services.{snake(ss[0])}."
        got = exp["exports"].get(n)
        if got is None:
            ctx.fail("internal-names" if internal else "client-classes",
                     f"the package does not export {n} (service {ss[0]}); it exports {sorted(k for k in exp['exports'] if k.endswith('Client'))}", payload)
        elif not got[0].startswith(mod) or got[1] != n:
            ctx.fail("internal-names" if internal else "client-classes",
                     f"the package exports {n} bound to {got[0]}:{got[1]}, not to the class of service {ss[0]}", payload)
    extra = sorted(k for k in exp["exports"] if k.endswith("Client") and k not in owners)
    if extra:
        ctx.fail("internal-names" if internal else "client-classes",
                 f"the package exports client classes no service of the library is entitled to: {extra}; expected {sorted(owners)}", payload)


def metadata_oracle(ctx, spec, lib, full, want_rpcs, internal, listed, payload):
    """gapic_metadata.json describes the surface the selective library really has"""
    md = lib.get("metadata")
    if not md:
        ctx.fail("metadata-missing", "no gapic_metadata.json although the metadata option is set", payload)
        return
    present = {s["name"] for f, s in target_services(spec) if "classes" in lib["surface"][s["name"]]}
    pkg_of = {s["name"]: f["package"] for f, s in target_services(spec)}
    if set(md.get("services", {})) != present:
        ctx.fail("metadata-surface", f"gapic_metadata services {sorted(md.get('services', {}))} != emitted {sorted(present)}", payload)
    for sname, sd in md.get("services", {}).items():
        surf = lib["surface"].get(sname, {}).get("classes", {})
        for tname, cd in sd.get("clients", {}).items():
            cls = cd.get("libraryClient")
            if cls not in surf:
                ctx.fail("metadata-surface", f"gapic_metadata names client class {cls} for {sname}/{tname}; the module defines {sorted(surf)}", payload)
                continue
            if set(cd.get("rpcs", {})) != want_rpcs.get(sname, set()):
                ctx.fail("metadata-surface", f"gapic_metadata {sname}/{tname} lists RPCs {sorted(cd.get('rpcs', {}))}, expected {sorted(want_rpcs.get(sname, set()))}", payload)
            for rpc_name, rd in cd.get("rpcs", {}).items():
                fq = f"{pkg_of.get(sname, PKG)}.{sname}.{rpc_name}"
                fcls = set(full["surface"].get(sname, {}).get("classes", {}).get(sname + ("AsyncClient" if cls.endswith("AsyncClient") else "Client"), []))
                for mn in rd.get("methods", []):
                    if mn.lstrip("_") not in fcls and mn not in fcls:
                        continue        # the FULL library's metadata names it without having it either (C15's business)
                    if mn not in surf[cls]:
                        ctx.fail("metadata-surface", f"gapic_metadata {sname}/{tname}: {rpc_name} -> {mn}, which {cls} does not have", payload)
                    if internal and (mn.startswith("_") != (fq not in listed)):
                        ctx.fail("internal-names", f"gapic_metadata {sname}/{tname}: {rpc_name} -> {mn} (listed={fq in listed})", payload)


def t3_api(ctx, r, spec, nvar, label, variants=None):
    files = build_files(spec)
    api0, _ = genrun.build_api(make_request(spec, files))
    d = Descs(files, PKG)
    codec = rpc.Codec(files)
    g = Graph(api0)
    gj = g.json()
    plan = call_plan(r, spec, codec)
    all_fq = all_methods(spec, PKG)
    meth_by_fq = {f"{f['package']}.{s['name']}.{m['name']}": m for f, s in target_services(spec) for m in s["methods"]}
    full = run_library(spec, files, api0, lib_doc(spec), plan, {fq: snake(meth_by_fq[fq]["name"]) for fq in all_fq})
    base_payload = {"kind": "t3", "spec": spec}
    if "gen_error" in full or full["import"].get("errors") or "classes" not in full["types"]:
        ctx.assume("the FULL library of a generated API generates and imports (C01's business); API skipped: %s" % str(full.get("gen_error") or full["import"].get("errors"))[:160])
        ctx.unsupported += 1
        return
    full_types, _ = emitted_types(full, d)
    full_calls = {}
    for (sk, kind), (sess, calls) in full["sessions"].items():
        for c, res_ in zip(calls, sess.get("calls", [])):
            full_calls[(c["fqn"], kind, bool(c.get("literal")))] = canon_call(res_, codec, plan[c["fqn"]])
    if variants is None:
        variants = [(spec["listed"], False), (spec["listed"], True)] + subsets(r, spec, max(0, nvar - 2))
    mres = ctx.driver.ask([{"op": "c16.third_pass", "api": gj, "settings": settings_json(service_yaml(spec, listed, internal)),
                            "proto_package": api0.naming.proto_package, "package": PKG} for listed, internal in variants])
    for (listed, internal), mo in zip(variants, mres):
        payload = dict(base_payload, listed=listed, internal=internal)
        doc = lib_doc(spec, listed, internal)
        kind, api_sel = build_selective(spec, files, doc)
        req_types, req_methods, req_services = d.reach(listed)
        required = {t for t in req_types if d.in_target(t)}
        hz = hazards(d, req_types) if not internal else []
        known_hit = False
        feats = features(spec, d, listed, req_types)
        ctx.case({"t3": True, "listed": listed, "internal": internal, "features": feats, "rest": bool(spec.get("rest")), "mixins": bool(spec.get("mixins"))},
                 distinct_key=["t3", json.dumps(listed), internal, json.dumps(spec, sort_keys=True)])
        ctx.count("t3_mode", ("internal" if internal else "omit") + ("+rest" if spec.get("rest") else "") + ("+mixins" if spec.get("mixins") else ""))
        for ft in feats:
            ctx.count("t3_features", ft)
        if kind != "built":
            ctx.fail("build-failed", f"API.build: {kind} {str(api_sel)[:200]}", payload)
            continue
        names = {}
        for sk, svc in api_sel.services.items():
            for m in svc.methods.values():
                names[f"{sk}.{m.name}"] = snake(m.client_method_name) if not m.client_method_name.startswith("_") else "_" + snake(m.client_method_name[1:])
        lib = run_library(spec, files, api_sel, doc, plan, names)
        ctx.traces += 1
        if "gen_error" in lib:
            known = multiview_symptom(spec, api_sel, listed, internal, req_services, lib["gen_error"])
            ctx.fail(KNOWN_MULTIVIEW if known else "generation-crash:" + lib["gen_error"][0], f"generator raised {lib['gen_error']}", payload)
            if known:
                ctx.count("hazard", "t3:multi-view-settings-rejected")
            continue
        if lib["import"].get("errors") or "child_error" in lib["import"]:
            known = "child_error" not in lib["import"] and hazard_import_symptom(d, hz, required, lib["import"].get("errors"))
            ctx.fail(KNOWN_HAZARD if known else "import-error",
                     f"the selective library does not import: {str(lib['import'].get('errors') or lib['import'])[:300]}", payload)
            if known:
                ctx.count("hazard", "t3:nested-type-without-enclosing-message")
            continue
        # ---- services and RPC surface
        want_rpcs = {}
        for f, s in target_services(spec):
            sk = f"{f['package']}.{s['name']}"
            surf = lib["surface"][s["name"]]
            want_present = internal or sk in req_services
            present = "classes" in surf
            if present != want_present:
                ctx.fail("service-set", f"service {s['name']}: module present={present}, expected {want_present}", payload)
                continue
            if not present:
                continue
            want_rpcs[s["name"]] = {m["name"] for m in s["methods"] if internal or f"{sk}.{m['name']}" in req_methods}
            unlisted = [m for m in s["methods"] if f"{sk}.{m['name']}" not in listed]
            prefix = "Base" if (internal and unlisted) else ""
            want_classes = {prefix + s["name"] + "Client", prefix + s["name"] + "AsyncClient"}
            if set(surf["classes"]) != want_classes:
                ctx.fail("internal-names" if internal else "client-classes", f"{s['name']}: classes {sorted(surf['classes'])}, expected {sorted(want_classes)}", payload)
                continue
            every = set()
            for m in s["methods"]:
                every |= set(rpc_names(m)) | set(rpc_names(m, internal=True))
            fsurf = full["surface"][s["name"]].get("classes", {})
            for cn, members in surf["classes"].items():
                suffix = "AsyncClient" if cn.endswith("AsyncClient") else "Client"
                fmembers = set(fsurf.get(s["name"] + suffix, []))      # what the FULL library offers for each RPC
                want = set()
                for m in s["methods"]:
                    fq = f"{sk}.{m['name']}"
                    offered = [n for n in rpc_names(m) if n in fmembers]
                    if fq in listed or (not internal and fq in req_methods):
                        want |= set(offered)
                    elif internal:
                        want |= {"_" + n for n in offered}
                got = set(members) & every
                if got != want:
                    ctx.fail("internal-names" if internal else "rpc-set",
                             f"{cn}: RPC methods {sorted(got)}, expected {sorted(want)}", payload)
                # mixin methods and everything else public: exactly what the full library's class offers, minus
                # the omitted RPCs and the path helpers of resources nobody needs any more
                if set(members) & MIXIN_NAMES != fmembers & MIXIN_NAMES:
                    ctx.fail("mixin-surface", f"{cn}: mixin methods {sorted(set(members) & MIXIN_NAMES)}, the full library has {sorted(fmembers & MIXIN_NAMES)}", payload)
                # every PUBLIC attribute that is an RPC entry point (takes request/retry/timeout/metadata; the canonical mixin
                # methods aside) belongs to an RPC the caller may use: a listed one, or in omitting mode a needed polling method.
                # An unlisted RPC has no public attribute that starts with its snake-case name (`<rpc>`, `<rpc>_unary`, ...).
                frl = set(full["surface"][s["name"]].get("rpc_like", {}).get(s["name"] + suffix, []))
                for a in sorted(set(surf.get("rpc_like", {}).get(cn, [])) - CANON_MIXIN_METHODS):
                    if a.startswith("_"):
                        continue
                    owners = [m for m in s["methods"] if a == snake(m["name"]) or a.startswith(snake(m["name"]) + "_")]
                    if not owners:
                        if a not in frl:        # (an RPC-like attribute of no RPC that the full library has too is not ours to judge)
                            ctx.fail("rpc-set", f"{cn}: public RPC entry point {a} belongs to no RPC of {s['name']}", payload)
                        continue
                    m = max(owners, key=lambda q: len(q["name"]))
                    fq = f"{sk}.{m['name']}"
                    if not (fq in listed or (not internal and fq in req_methods)):
                        ctx.fail("internal-names" if internal else "rpc-set",
                                 f"{cn}: public method {a} is an entry point of the unlisted RPC {m['name']}"
                                 + (f" (internal mode must call it _{a})" if internal else ""), payload)
                novel = {n for n in members if not n.startswith("_")} - fmembers
                if novel:
                    ctx.fail("rpc-set", f"{cn}: public members the full library does not have: {sorted(novel)[:5]}", payload)
            # model correspondence: the model's kept methods and names
            if mo.get("outcome") == "built":
                msvc = [x for p in mo["protos"] for x in p["services"] if x["name"] == s["name"]]
                mnames = set()
                for x in msvc[:1]:
                    for mm in x["methods"]:
                        for stem, suffix in mm.get("surface", [[mm["client_method_name"], ""]]):
                            mnames.add(("_" + snake(stem[1:]) if stem.startswith("_") else snake(stem)) + suffix)
                    if {x["client_name"], x["async_client_name"]} != set(surf["classes"]):
                        ctx.disagree("T3:c16.client_names", f"model {x['client_name']} vs emitted {sorted(surf['classes'])}", payload)
                for cn, members in surf["classes"].items():
                    suffix = "AsyncClient" if cn.endswith("AsyncClient") else "Client"
                    fmembers = set(fsurf.get(s["name"] + suffix, []))
                    mn = {n for n in mnames if n.lstrip("_") in fmembers or n in fmembers}
                    if set(members) & every != mn:
                        ctx.disagree("T3:c16.surface", f"{cn}: model {sorted(mn)} vs emitted {sorted(set(members) & every)}", payload)
        exports_oracle(ctx, spec, lib, internal, listed, req_services, payload)
        metadata_oracle(ctx, spec, lib, full, want_rpcs, internal, listed, payload)
        # ---- types
        got_types, bad = emitted_types(lib, d)
        if "classes" not in lib["types"]:
            ctx.fail("types-import", f"types package: {lib['types']}", payload)
            continue
        if bad:
            known = hazard_unusable_symptom(d, hz, required, bad)
            known_hit |= known
            ctx.fail(KNOWN_HAZARD if known else "type-unusable",
                     f"emitted classes that cannot be instantiated: {[b.get('full') or b.get('name') for b in bad][:4]} ({bad[0].get('error')})", payload)
        want_types = full_types if internal else required
        if want_types - got_types:
            # known: exactly the needed nested types whose declaring message is not needed (and what they declare) have no class
            known = bool(hz) and (want_types - got_types) <= hazard_closure(d, hz)
            known_hit |= known
            ctx.fail(KNOWN_HAZARD if known else ("internal-omits" if internal else "type-missing"),
                     f"classes missing from the library: {sorted(want_types - got_types)[:5]}", payload)
        allowed = want_types if not hz else {t for t in d.with_enclosing(req_types) if d.in_target(t)}
        if got_types - allowed:
            ctx.fail("type-extra", f"classes the listed RPCs cannot reach: {sorted(got_types - allowed)[:5]}", payload)
        if mo.get("outcome") == "built":
            # the model's prediction of the emitted classes (top-level kept declarations and what is declared inside them)
            mtypes = set()
            for p in mo["protos"]:
                if p["name"].startswith("acme/lib/"):
                    mtypes |= {g.names[i] for i in p.get("emitted", p["messages"] + p["enums"])}
            if mtypes != got_types:
                ctx.disagree("T3:c16.types", f"model emits {sorted(mtypes ^ got_types)[:5]} differently from the emitted types package", payload)
        if known_hit:
            # the types modules of this library are known to be unusable: calls cannot be compared.  (A hazard input on
            # which the recorded symptom did NOT show goes on to the wire comparison like any other.)
            ctx.count("hazard", "t3:nested-type-without-enclosing-message")
            continue
        # ---- wire behaviour of the kept RPCs vs the full library: sync gRPC, asyncio gRPC, REST
        for (sk, skind), (sess, calls) in lib["sessions"].items():
            if "calls" not in sess:
                ctx.fail("session-failed", f"{sk}/{skind}: {str(sess)[-300:]}", payload)
                continue
            for c, res_ in zip(calls, sess["calls"]):
                mine = canon_call(res_, codec, plan[c["fqn"]])
                ref = full_calls.get((c["fqn"], skind, bool(c.get("literal"))))
                ctx.count("t3_calls", skind + ":" + plan[c["fqn"]]["consume"] + ("-literal" if c.get("literal") else "") +
                          (":raised " + str(mine["raised"]) if mine.get("raised") else ":ok"))
                ctx.traces += 1
                if ref is None:
                    continue
                if ref.get("raised") and ref.get("raised") == mine.get("raised"):
                    continue        # the full library fails the same way: not this property's business
                if mine != ref:
                    diff = [k for k in ("raised", "ok", "server", "stubs") if mine.get(k) != ref.get(k)]
                    ctx.fail("wire-differs", f"{c['fqn']} ({c['method']}, {skind}{', literal dict' if c.get('literal') else ''}): {diff} differ from the full library; "
                             f"selective {str(mine.get('raised') or mine.get(diff[0]))[:160]} / full {str(ref.get(diff[0]))[:160]}", dict(payload, call=c["fqn"]))

# --------------------------------------------------------------------------------------------------
# single validation probe (also the replay entry for kind="validate")


def validate_one(ctx, spec, doc, want_reject, key, name):
    files = build_files(spec)
    api0, _ = genrun.build_api(make_request(spec, files))
    g = Graph(api0)
    payload = {"kind": "validate", "spec": spec, "doc": doc, "name": name, "want_reject": want_reject, "key": key}
    kind, built = build_selective(spec, files, doc)
    mo = ctx.driver.ask([{"op": "c16.third_pass", "api": g.json(), "settings": settings_json(doc),
                          "proto_package": api0.naming.proto_package, "package": spec["target_package"]}])[0]
    ctx.case({"validation": name, "outcome": kind}, distinct_key=["validate1", name, json.dumps(doc, sort_keys=True), json.dumps(spec, sort_keys=True)])
    ctx.count("validation", f"{name}:{kind}")
    ctx.traces += 1
    if kind == "crash":
        ctx.fail("build-crash:" + built[0], f"API.build raised {built[0]}: {built[1]}", payload)
        return
    if want_reject and kind != "rejected":
        ctx.fail(key, f"settings '{name}' list a method of another version / an unknown method and were accepted; "
                 f"the library then holds services {sorted(built.services)}", payload)
    if kind == "rejected":
        if mo.get("outcome") != "rejected" or mo.get("errors") != built:
            ctx.disagree("T2:c16.third_pass", f"model {mo.get('outcome')} vs real rejected {built}", payload)
    else:
        real_protos = [g.summary(p, nm) for nm, p in built.all_protos.items()]
        model_protos = [g.summary(p, nm) for nm, p in api0.all_protos.items()] if mo.get("outcome") == "unchanged" else mo.get("protos")
        if mo.get("outcome") == "rejected" or model_protos != real_protos:
            ctx.disagree("T2:c16.third_pass", f"model third pass ({mo.get('outcome')}) != API.build for settings '{name}'", payload)


def prefix_probe_spec(r=None):
    """two versions of one API in a request; the v1 file imports a v1beta1 type (so protoc sends both).
    Regression input for the defect repaired by `fix:` a25ff42 (version matched on a whole package segment)."""
    beta = {"name": "acme/lib/v1beta1/lib.proto", "package": "acme.lib.v1beta1", "deps": [], "resdefs": [], "enums": [],
            "messages": [_msg("Thing", [{"name": "name", "t": "string"}]), _msg("GetThingRequest", [{"name": "name", "t": "string"}])],
            "services": [{"name": "Library", "methods": [{"name": "GetThing", "input": ".acme.lib.v1beta1.GetThingRequest", "output": ".acme.lib.v1beta1.Thing"}]}]}
    v1 = {"name": "acme/lib/v1/lib.proto", "package": PKG, "deps": ["acme/lib/v1beta1/lib.proto"], "resdefs": [], "enums": [],
          "messages": [_msg("Book", [{"name": "name", "t": "string"}, {"name": "legacy", "msg": ".acme.lib.v1beta1.Thing"}]),
                       _msg("GetBookRequest", [{"name": "name", "t": "string"}])],
          "services": [{"name": "Library", "methods": [{"name": "GetBook", "input": f".{PKG}.GetBookRequest", "output": f".{PKG}.Book"}]}]}
    return {"files": [beta, v1], "target_package": PKG, "version": PKG, "listed": ["acme.lib.v1beta1.Library.GetThing"], "internal": False}

# --------------------------------------------------------------------------------------------------


def run_payload(ctx, payload, r=None):
    r = r or ctx.rng("replay")
    kind = payload.get("kind", "t3")
    if kind == "name":
        return names_t2(ctx)
    spec = payload["spec"]
    if kind == "validate":
        validate_one(ctx, spec, payload["doc"], payload.get("want_reject", True), payload.get("key", "bad-method-accepted"), payload.get("name", "replay"))
    elif kind == "t2":
        t2_api(ctx, r, spec, 0, "replay", variants=[(payload["listed"], payload["internal"])])
    else:
        t2_api(ctx, r, spec, 0, "replay", variants=[(payload["listed"], payload["internal"])])
        t3_api(ctx, r, spec, 0, "replay", variants=[(payload["listed"], payload["internal"])])


def names_t2(ctx):
    """Method.client_method_name on keyword-like / underscore names x is_internal vs the model (pinned keyword table)"""
    import dataclasses, keyword
    from google.protobuf import descriptor_pb2
    spec = prefix_probe_spec()
    files = build_files(spec)
    api0, _ = genrun.build_api(make_request(spec, files))
    m0 = next(iter(next(iter(api0.services.values())).methods.values()))
    names = [k.capitalize() for k in keyword.kwlist] + [k.upper() for k in keyword.kwlist[:8]] + list(keyword.kwlist[:6]) + \
            ["GetBook", "List", "Print", "Match", "_Hidden", "__Dunder", "X", "Import_", "Classy", "NoneSuch", "Async", "AWAIT"]
    cases = [(n, i) for n in names for i in (False, True)]
    res = ctx.driver.ask([{"op": "c16.name", "name": n, "internal": i} for n, i in cases])
    for (n, i), mo in zip(cases, res):
        m = dataclasses.replace(m0, method_pb=descriptor_pb2.MethodDescriptorProto(name=n), is_internal=i)
        real = m.client_method_name
        ctx.case(None, distinct_key=["name", n, i])
        ctx.traces += 1
        ctx.count("client_method_name", "keyword" if real.rstrip("_").lstrip("_").lower() in keyword.kwlist and real.endswith("_") else "plain")
        if mo.get("client_method_name") != real:
            ctx.disagree("T2:c16.client_method_name", f"model {mo.get('client_method_name')!r} vs Method.client_method_name {real!r} for {n!r} internal={i}",
                         {"kind": "name", "name": n, "internal": i})
        want = ("_" if i and not n.startswith("_") else "") + n + ("_" if n.lower() in keyword.kwlist else "")
        if real != want:
            ctx.fail("internal-names", f"client_method_name({n!r}, internal={i}) = {real!r}, expected {want!r}", {"kind": "name", "name": n, "internal": i})


def all_subsets(meths):
    out = []
    for mask in range(1, 1 << len(meths)):
        out.append([m for i, m in enumerate(meths) if mask >> i & 1])
    return out


def run(ctx):
    ctx.rule = ("APIs of the 'selective' profile (2-4 proto files of the target package + dependency packages; shared, nested, "
                "recursive and map types; message- and file-level resources with type/child_type references; unary, paged, "
                "LRO, streaming and extended-operation RPCs; service names that start with `Base` (Base, BaseBase, Baseline, Foo next to BaseFoo) "
                "and RPC names that spell out a mark (Underscore.., Private.., Base..); the operation service declared before, between or after the "
                "services that start operations, its polling method at any position, 1-2 starting RPCs per operation service; "
                "services that become empty; files that drop out) x subsets of "
                "RPCs (random, singletons, all-but-one, all, starting RPC + non-polling RPCs of the operation service; "
                "every subset for small APIs in the thorough tier) x "
                "generate_omitted_as_internal in {false,true}; APIs whose services live in several package views (target package "
                "and proto sub-packages: mixed, twosubs, nested, mixed-nested, sub-only; types shared across views) x subsets "
                "spanning the views; plus settings probes (unknown method/service, dependency method, "
                "other version, duplicate version, empty list; allow-lists of 2-4 entries mixing valid / unknown-method / unknown-service / "
                "other-version / dependency-method entries in every order). distinct by (API, subset, mode) / (API, settings); every "
                "generated case is non-trivial (selective settings present)")
    ctx.assume("resources are declared on top-level messages or as file-level resource_definition (the generator's own notion of a resource)")
    ctx.assume("the operation service of an extended operation lives in the same file and its polling method does not itself start an "
               "extended operation (API.build raises otherwise: such schemas do not exist)")
    ctx.assume("RPC names are ASCII identifiers that are neither python keywords nor start with an underscore (C12's business)")
    ctx.assume("type graphs are shallower than CPython's recursion limit (the real traversal is plain recursion; the model's fuel never runs out)")
    # ---- corpus first
    if os.path.isdir(CORPUS):
        for fn in sorted(os.listdir(CORPUS)):
            if fn.endswith(".json"):
                with open(os.path.join(CORPUS, fn)) as fh:
                    blob = json.load(fh)
                run_payload(ctx, blob.get("payload", blob), ctx.rng("corpus", fn))
                ctx.count("corpus", fn)
    names_t2(ctx)
    ordered_lists(ctx, ctx.rng("ordered"))
    # ---- T2 at scale
    r = ctx.rng("t2")
    for a in range(ctx.n(36, 640)):
        spec = gen_spec(r)
        t2_api(ctx, r, spec, 2, f"t2-{a}")
        if a % 4 == 0:
            validation_cases(ctx, r, spec)
    # ---- services in several package views (target package + proto sub-packages)
    r = ctx.rng("t2views")
    for a in range(ctx.n(8, 120)):
        spec = gen_views_spec(r)
        vv = view_variants(r, spec)
        t2_api(ctx, r, spec, 0, f"t2v-{a}", variants=[(spec["listed"], spec["internal"])] + r.sample(vv, 2))
    # ---- every subset of small APIs
    r = ctx.rng("exhaustive")
    done = 0
    tries = 0
    while done < ctx.n(1, 14) and tries < 400:
        tries += 1
        spec = gen_spec(r)
        meths = all_methods(spec, PKG)
        if len(meths) > 5:
            continue
        done += 1
        subs = all_subsets(meths)
        t2_api(ctx, r, spec, 0, f"ex-{done}", variants=[(s, i) for s in subs for i in (False, True)])
        ctx.count("exhaustive_apis", len(meths))
    ctx.exhaustive = {"all_subsets_of_small_apis": done}
    # ---- T3
    r = ctx.rng("t3")
    for a in range(ctx.n(5, 50)):
        spec = gen_spec(r, t3=True, marked_names=True if a % 4 == 1 else None)
        t3_api(ctx, r, spec, ctx.n(3, 4), f"t3-{a}")
    r = ctx.rng("t3views")
    for a in range(ctx.n(2, 14)):
        spec = gen_views_spec(r, t3=True, layout=sorted(VIEW_LAYOUTS)[a % len(VIEW_LAYOUTS)] if a < len(VIEW_LAYOUTS) else None)
        vv = view_variants(r, spec)
        t3_api(ctx, r, spec, 0, f"t3v-{a}", variants=vv[:2] + r.sample(vv[2:], ctx.n(1, 2)))
    r = ctx.rng("t3ext")
    for a in range(ctx.n(1, 7)):
        spec = gen_spec(r, t3=True, ext=True)
        spec["rest"] = True
        meths = all_methods(spec, PKG)
        starter, polling, ops_other = ext_roles(spec)
        others = [m for m in meths if m not in starter]
        # starting RPC(s) next to RPCs of the operation service, the polling method needed but not listed;
        # a starting RPC plus anything; internal mode; no starting RPC at all
        variants = [(ext_subset(r, spec), False), (sorted(starter[:1] + r.sample(others, min(1, len(others)))), False),
                    (sorted(starter), True), (sorted(r.sample(others, min(2, len(others)))), False),
                    # internal mode with UNLISTED extended-operation RPCs: none listed; one of several listed
                    (sorted(r.sample(others, min(r.randint(1, 2), len(others)))), True)]
        if len(starter) > 1:
            variants.append((sorted(starter[:1] + polling), True))
        t3_api(ctx, r, spec, 0, f"t3ext-{a}", variants=variants)


def search(ctx):
    r = ctx.rng("search")
    for a in range(30):
        spec = gen_spec(r, ext=True if a % 3 == 1 else None)
        t2_api(ctx, r, spec, 3, f"search-{a}")
        if a % 3 == 0:
            validation_cases(ctx, r, spec)
    for a in range(6):
        spec = gen_spec(r, t3=True)
        t3_api(ctx, r, spec, 4, f"search-t3-{a}")


def replay(ctx, payload):
    import leanio
    ctx.driver = leanio.Driver()
    run_payload(ctx, payload)
    for f in ctx.failures:
        print("  failure:", f["key"], "-", f["what"])
    for dgr in ctx.disagreements:
        print("  disagreement:", dgr["correspondence"], "-", dgr["what"])
    return not ctx.failures


CLAIM = dict(
    text=("Lean 4 proof on an executable model of the allow-list traversal (the code's DFS with its visited guard, unguarded "
          "method recursion, fuel = #messages+3): the allow-list is EXACTLY the set reachable from the listed methods through "
          "field types, enums, resource references, nested declarations, LRO response/metadata and extended-operation "
          "service/polling method/request/operation (soundness for every fuel; completeness = the fuel suffices; closure; "
          "leastness among closed sets); pruning is closed and minimal and keeps exactly the listed RPCs plus needed polling "
          "methods; a kept service always holds a needed method and a needed method's service is always kept; the classes the "
          "types templates define from a pruned proto (top-level views Proto.messages/enums + nested declarations) are all on the "
          "allow-list; dependency protos are carried over untouched; internal mode omits nothing and renames (`_` prefix, `Base` "
          "client prefix iff some method is internal); unknown / wrong-version methods (version matched on whole package "
          "segments) are rejected, and nothing else is. A counterexample theorem for the place where the code violates the "
          "statement (nested type kept, declaring message pruned) and a regression theorem for the repaired prefix defect. Tie: T2 the real "
          "add_to_address_allowlist / prune_messages_for_selective_generation / with_internal_methods / "
          "enforce_valid_library_settings / API.build on the type graph extracted from the real schema objects (addresses "
          "numbered by the real Address.__eq__/__hash__), incl. the top-level views and the emitted class set; T3 classes "
          "(all types packages incl. a sub-package), sync/asyncio client surfaces, mixin methods, gapic_metadata.json and wire "
          "behaviour over sync gRPC, asyncio gRPC and REST (bytes-derived and hand-written dict requests) of the imported "
          "selective library vs the full library and vs a reachability computed on the input descriptors."),
    technique="Lean 4 theorems (DFS soundness/completeness/leastness by induction on fuel with an unvisited-count measure) + differential T2/T3 + descriptor-level oracle",
    design="7.16",
    note=("Well-formedness of the extracted graph (Api.wf, Api.wfAddrs, Api.wfServices: enum/service addresses carry no fields, every message "
          "met is in the table, polling methods do not start extended operations, method addresses are unique) is a hypothesis "
          "of the completeness theorems and is evaluated by the driver on every extracted graph. Extended-operation RPCs are "
          "checked at the surface level only in T3 (their REST polling belongs to C08)."),
)
