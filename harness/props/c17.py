"""C17 — mixin RPCs are exposed exactly as configured in the service YAML (DESIGN §7.17)."""
from __future__ import annotations
import base64, copy, json, os, re, tempfile, urllib.parse
import apigen, genrun, libhost, rpc

PKG = "acme.lib.v1"
OPS, IAM, LOC = "google.longrunning.Operations", "google.iam.v1.IAMPolicy", "google.cloud.location.Locations"
CORPUS_DIR = os.path.join(os.path.dirname(os.path.dirname(os.path.dirname(os.path.abspath(__file__)))), "corpus", "C17")


def canon_tables():
    """the canonical method tables, read off the INSTALLED descriptors (the oracle's own source)"""
    from google.longrunning import operations_pb2
    from google.iam.v1 import iam_policy_pb2
    from google.cloud.location import locations_pb2
    out = {}
    for mod in (operations_pb2, iam_policy_pb2, locations_pb2):
        for s in mod.DESCRIPTOR.services_by_name.values():
            out[f"{mod.DESCRIPTOR.package}.{s.name}"] = [(m.name, m.input_type.full_name, m.output_type.full_name) for m in s.methods]
    return out


CANON = canon_tables()
API_OF = {m: a for a, ms in CANON.items() for (m, _, _) in ms}
TYPES = {m: (i, o) for ms in CANON.values() for (m, i, o) in ms}
ALL_METHODS = [m for a in (LOC, IAM, OPS) for (m, _, _) in CANON[a]]
IAM_METHODS = [m for (m, _, _) in CANON[IAM]]
ROUTING = {m: ("resource" if API_OF[m] == IAM else "name") for m in ALL_METHODS}
PY_REQ = {"google.longrunning": "google.longrunning.operations_pb2", "google.iam.v1": "google.iam.v1.iam_policy_pb2",
          "google.cloud.location": "google.cloud.location.locations_pb2"}


def snake(n):
    return re.sub(r"(?<!^)(?=[A-Z])", "_", n).lower()


def py_request(m):
    full = TYPES[m][0]
    pkg, _, name = full.rpartition(".")
    return f"{PY_REQ[pkg]}:{name}"


# ---------------------------------------------------------------------------------------- generator

PATTERNS = {   # variable template -> a value that matches it (and none of the others' leading literal)
    "operations/*": "operations/o-17", "projects/*/operations/*": "projects/p1/operations/o2",
    "projects/*/locations/*/operations/*": "projects/p1/locations/us/operations/o3", "books/*": "books/b1",
    "shelves/*/books/*": "shelves/s1/books/b2", "shelves/*": "shelves/s9", "projects/*/locations/*": "projects/p1/locations/eu",
    "projects/*": "projects/p7", "organizations/*/locations/*": "organizations/o1/locations/l1", "operations": "operations",
    "items/**": "items/a/b/c", "**": "x/y/z", "*": "solo", None: "seg1"}
SUFFIX = {"CancelOperation": [":cancel"], "WaitOperation": [":wait"], "GetIamPolicy": [":getIamPolicy"],
          "SetIamPolicy": [":setIamPolicy"], "TestIamPermissions": [":testIamPermissions"],
          "ListOperations": ["/operations", ""], "ListLocations": ["/locations", ""]}
VERBS = {"GetOperation": ["get"], "ListOperations": ["get"], "DeleteOperation": ["delete"], "CancelOperation": ["post"],
         "WaitOperation": ["post"], "SetIamPolicy": ["post", "put", "patch"], "GetIamPolicy": ["get", "post"],
         "TestIamPermissions": ["post"], "GetLocation": ["get"], "ListLocations": ["get"]}


_ANY = object()


def gen_binding(r, m, avoid=(), body_like=None, force_pat=_ANY):
    pats = [p for p in PATTERNS if p not in avoid and (p or "").split("/")[0] not in {(a or "").split("/")[0] for a in avoid}
            and not (avoid and p in ("**", "*", None))]
    pat = r.pick(pats) if force_pat is _ANY else force_pat
    var = ROUTING[m]
    # half of the URIs carry the RPC's name: a REST call dispatched through ANOTHER mixin's stub shows in the path
    prefix = r.pick(["/v1/", "/v1beta1/", "/compute/v1/", "/"]) if r.maybe(0.5) else f"/{snake(m)}/v1/"
    suffix = r.pick(SUFFIX.get(m, [""]) + ([""] if r.maybe(0.1) else []))
    uri = prefix + ("{" + var + "}" if pat is None else "{" + var + "=" + pat + "}") + suffix
    verb = r.pick(VERBS[m]) if r.maybe(0.85) else r.pick(["get", "post", "put", "patch", "delete"])
    if body_like is None:
        body = "*" if verb in ("post", "put", "patch") and r.maybe(0.8) else ""
        if m == "SetIamPolicy" and body == "*" and r.maybe(0.15):
            body = "policy"
    else:
        body = body_like
    return {"verb": verb, "uri": uri, "body": body, "pattern": pat}


def overlapping_binding(r, main, m):
    """an additional binding on the SAME path template as the primary one (same URI, or the URI plus a custom verb),
    differing in verb and body: every request matching it also matches the primary binding, which must win"""
    b = dict(main)
    if main["body"]:
        b["verb"], b["body"] = r.pick(["get", "delete"]), ""
    else:
        b["verb"], b["body"] = r.pick(["post", "put", "patch"]), "*"
    if b["verb"] == main["verb"]:
        b["verb"] = "patch" if main["verb"] != "patch" else "post"
    if r.maybe(0.5) and ":" not in main["uri"]:
        b["uri"] = main["uri"] + ":" + m[0].lower() + m[1:]
    return b


def gen_rule(r, m, mixed=False, overlap=None):
    main = gen_binding(r, m)
    rule = {"selector": f"{API_OF[m]}.{m}", **main, "additional": []}
    if overlap is None:
        overlap = r.maybe(0.12)
    if overlap:
        rule["additional"].append(overlapping_binding(r, main, m))
    if r.maybe(0.25) or mixed:
        avoid = [main["pattern"]]
        for _ in range(r.randint(1, 2)):
            same = main["body"]
            if mixed:
                same = "" if main["body"] else "*"
            b = gen_binding(r, m, avoid=avoid, body_like=same)
            if b["body"] and b["verb"] in ("get", "delete"):
                b["verb"] = "post"
            if not b["body"] and b["verb"] in ("post", "put", "patch") and mixed:
                b["verb"] = "get"
            avoid.append(b["pattern"])
            rule["additional"].append(b)
    return rule


def gen_fields(r, m, value, dict_mode):
    d = {ROUTING[m]: value}
    if m in ("ListOperations", "ListLocations"):
        if r.maybe(0.6): d["filter"] = r.pick(["done=true", "a b", "x"])
        if r.maybe(0.6): d["page_size"] = r.pick([1, 25, 1000])
        if r.maybe(0.5): d["page_token"] = r.pick(["tok1", "t-2"])
    elif m == "WaitOperation" and not dict_mode and r.maybe(0.6):
        d["timeout"] = r.pick(["1.500s", "30s"])
    elif m == "SetIamPolicy":
        if r.maybe(0.85): d["policy"] = {"version": r.pick([1, 3]), **({"etag": "QUJD"} if (r.maybe(0.5) and not dict_mode) else {})}
        if not dict_mode and r.maybe(0.5): d["update_mask"] = "bindings,etag"
    elif m == "GetIamPolicy" and r.maybe(0.7):
        d["options"] = {"requested_policy_version": r.pick([1, 3])}
    elif m == "TestIamPermissions" and r.maybe(0.85):
        d["permissions"] = r.pick([["a.b"], ["a.b", "c.d"]])
    return d


def gen_call(r, cfg, m, rule):
    """one scripted call of mixin `m`: which binding the value is made to match, the request valuation"""
    dict_mode = r.maybe(0.35)
    if rule is None:
        value = r.pick([v for v in PATTERNS.values()])
        which = None
    else:
        bs = [rule] + rule["additional"]
        which = r.randrange(len(bs))
        value = PATTERNS[bs[which]["pattern"]]
    fields = gen_fields(r, m, value, dict_mode)
    if rule is not None and "policy" in [b["body"] for b in [rule] + rule["additional"]] and "policy" not in fields:
        fields["policy"] = {"version": 3}
    return {"mode": "request-dict" if dict_mode else "request-instance", "fields": fields}


def gen_cfg(r, listed=None, transport=None, add_iam=None, own=None, mixed=False, t3=True, iam_rules=None, layout=None, selective=None):
    cfg = {"t3": t3}
    if listed is None:
        listed = [a for a in (OPS, IAM, LOC) if r.maybe(0.65)]
    apis = list(listed)
    if r.maybe(0.5):
        apis.append(r.pick([f"{PKG}.Library", "google.cloud.location.Location", "google.longrunning.operations", "google.iam.v1.IAMPolicy2"]))
    if apis and r.maybe(0.15):
        apis.append(r.pick(apis))
    r.shuffle(apis)
    cfg["apis"] = apis
    cfg["transport"] = transport or r.pick(["grpc", "rest", "grpc+rest", "grpc+rest"])
    cfg["add_iam"] = (r.maybe(0.2) if add_iam is None else add_iam) and "grpc" in cfg["transport"]
    if own is None:
        own = [m for m in IAM_METHODS if r.maybe(0.25)] if (r.maybe(0.4) and not cfg["add_iam"]) else []
    cfg["own"] = [] if cfg["add_iam"] else own
    cfg["own_service"] = r.pick(["Library", "Library", "Admin"]) if cfg["own"] else "Library"
    if iam_rules is None and cfg["own"] and IAM in listed and r.maybe(0.6):
        # API-defined IAM RPCs next to YAML rules for a subset disjoint from / overlapping with them
        others = [m for m in IAM_METHODS if m not in cfg["own"]]
        iam_rules = (others if r.maybe(0.5) else [m for m in others if r.maybe(0.7)]) + ([r.pick(cfg["own"])] if r.maybe(0.4) else [])
    rules = []
    for a in (OPS, IAM, LOC):
        dense = r.pick([0.3, 0.6, 0.9, 1.0])
        p = dense if a in listed else (dense if r.maybe(0.5) else 0.0)
        for (m, _, _) in CANON[a]:
            if (m in iam_rules) if (a == IAM and iam_rules is not None) else r.maybe(p):
                rules.append(gen_rule(r, m, mixed=mixed and a == IAM))
                if r.maybe(0.12):
                    rules.append(gen_rule(r, m))                      # a later rule for the same selector replaces it
    # noise: selectors that name nothing canonical
    for _ in range(r.randint(0, 2)):
        sel = r.pick([f"{PKG}.Library.GetBook", f"{OPS}.Bogus", f"{OPS}.getOperation", f"{IAM}.GetIamPolicy2",
                      "google.longrunning.GetOperation", f"{LOC}.", f"google.cloud.location.Location.GetLocation"])
        rules.append({"selector": sel, "verb": "get", "uri": "/v1/{name=things/*}", "body": "", "pattern": "things/*", "additional": []})
    if not t3 and r.maybe(0.5) and rules:
        k = r.randrange(len(rules))                                   # custom / unset patterns: T2 only
        rules[k] = dict(rules[k], verb=r.pick(["custom", ""]))
    if not t3 and r.maybe(0.5) and rules:
        k = r.randrange(len(rules))                                   # reserved words as body / path variable: T2 only
        w = r.pick(["format", "type", "__peg_parser__", "class", "license", "name_", "import"])
        if r.maybe(0.5):
            rules[k] = dict(rules[k], body=w)
        else:
            v2 = r.pick([w, "book." + w, w + ".id", "a.b"])
            rules[k] = dict(rules[k], uri=r.pick(["/v1/{%s=things/*}", "/v1/{%s}/x/{name=a/*}", "/v1/x/{%s=**}:do"]) % v2)
    r.shuffle(rules)
    cfg["rules"] = rules
    last = {}
    for ru in rules:
        last[ru["selector"]] = ru
    cfg["calls"] = {m: gen_call(r, cfg, m, last.get(f"{API_OF[m]}.{m}")) for m in ALL_METHODS}
    order = list(ALL_METHODS)
    r.shuffle(order)
    cfg["order"] = order                                              # order of the second round of calls
    apply_layout(r, cfg, layout)                                      # (drawn last: the fields above do not depend on it)
    apply_selective(r, cfg, selective)                                # (drawn after the layout, for the same reason)
    return cfg


# ---- selective GAPIC generation (publishing.library_settings[].python_settings.common.selective_gapic_generation): an allow-list of
# RPCs; the others are OMITTED from the library (default) or generated as INTERNAL (`generate_omitted_as_internal`: the client method
# gets a private name `_set_iam_policy`, the client class the prefix `Base`; transport property and stub keep their names).
def apply_selective(r, cfg, selective=None):
    """selective: None = draw (half of the APIs that define IAM RPCs themselves, 15 % of the others), False = off, or a dict
    {"internal": bool, "own": "allow" | "out" | "mixed"}"""
    if selective is False:
        return cfg
    if selective is None:
        if not r.maybe(0.5 if cfg["own"] else 0.15):
            return cfg
        selective = {"internal": r.maybe(0.6), "own": r.pick(["allow", "out", "out", "mixed"])}
    # the allow-list names only RPCs of services that lie inside EVERY sub-package view holding a service: the generator validates the
    # list once per view against that view's methods and aborts with "Method does not exist" otherwise (open finding of C16,
    # multi-view:settings-validated-per-view — not this property's subject); nothing else is excluded
    ok = [s for s in services_of(cfg) if in_every_view(cfg, s)]
    if not ok:
        return cfg
    tgt = target_of(cfg)
    if tgt not in ok:
        cfg["target"] = tgt = r.pick(ok)
    allow = [f"{tgt}.{BASE_RPC[tgt]}"]                                # the examined service keeps a public RPC (in omit mode: exists at all)
    for s in ok:
        if s != tgt and r.maybe(0.6):
            allow.append(f"{s}.{BASE_RPC[s]}")
    for k, m in enumerate(cfg["own"] if cfg["own_service"] in ok else []):
        if selective["own"] == "allow" or (selective["own"] == "mixed" and (k % 2 == 0 if len(cfg["own"]) > 1 else r.maybe(0.5))):
            allow.append(f"{cfg['own_service']}.{m}")
    cfg["selective"] = {"internal": bool(selective["internal"]), "allow": allow}
    return cfg


BASE_RPC = {"Library": "GetBook", "Admin": "PingBook"}


def in_every_view(cfg, svc):
    """is service `svc` part of every sub-package view that holds a service (= of every `api` object a client is rendered with)"""
    t = sub_tuple(cfg, svc)
    return all(t[:len(v)] == v for v in (sub_tuple(cfg, x) for x in services_of(cfg)) if v)


def rpc_status(cfg, svc, meth):
    """public | internal | omitted: what selective generation makes of RPC `meth` of service `svc`"""
    sg = cfg.get("selective")
    if not sg or f"{svc}.{meth}" in sg["allow"]:
        return "public"
    return "internal" if sg["internal"] else "omitted"


def api_rpcs(cfg):
    """service -> [(RPC, status)] of the API as declared"""
    out = {s: [(BASE_RPC[s], rpc_status(cfg, s, BASE_RPC[s]))] for s in services_of(cfg)}
    for m in cfg.get("own", []):
        s = cfg.get("own_service", "Library")
        out[s].append((m, rpc_status(cfg, s, m)))
    return out


def own_status(cfg, m):
    return rpc_status(cfg, cfg.get("own_service", "Library"), m)


# ---- where the files of the API live: the API package `acme.lib.v1` itself or a proto sub-package of it.  A service declared in
# a sub-package is rendered by the generator with `api` = that sub-package's VIEW of the API (Generator._render_template,
# `dataclasses.replace(api, subpackage_view=...)`), so everything the mixin templates read off `api` is read off the view.
SUBS = ["stacks", "keepers", "stacks.east"]
LAYOUTS = ["flat"] * 11 + ["allsub"] * 3 + ["split"] * 3 + ["msgsub"] * 3      # 45 % of the generated APIs have a sub-package


def apply_layout(r, cfg, layout=None):
    """flat   : one file in the API package (services and messages);
       allsub : every service in ONE sub-package, only the messages in the API package;
       split  : one service in the API package and one in a sub-package (messages next to either of them); in 30 % of these
                each service in a sub-package of its own — siblings or parent and child — with the messages in the API package;
       msgsub : the service(s) in the API package, their request/response messages in a sub-package."""
    lay = layout or r.pick(LAYOUTS)
    sub = r.pick(SUBS)
    second = bool(cfg["own"]) and cfg["own_service"] == "Admin"
    if lay == "flat":
        return cfg                                                    # (no new keys: the corpus files of earlier rounds are flat)
    if lay == "allsub":
        second = second or r.maybe(0.5)
        subs = {"Library": sub, "Admin": sub, "msgs": ""}
    elif lay == "split":
        second = True
        insub = r.pick(["Library", "Admin"])
        subs = {"Library": sub if insub == "Library" else "", "Admin": sub if insub == "Admin" else "", "msgs": r.pick(["", sub])}
        if r.maybe(0.3):      # each service in a sub-package of its own (siblings, or parent and child); a file of messages keeps the API package
            a, b = r.pick([("stacks", "keepers"), ("stacks", "stacks.east"), ("stacks.east", "stacks"), ("keepers", "stacks.east")])
            subs = {"Library": a, "Admin": b, "msgs": ""}
    else:
        second = second or r.maybe(0.3)
        subs = {"Library": "", "Admin": "", "msgs": sub}
    cfg.update(layout=lay, subs=subs, second=second, target=r.pick(["Library", "Admin"]) if second else "Library")
    return cfg


def cfg_subs(cfg):
    d = {"Library": "", "Admin": "", "msgs": ""}
    d.update(cfg.get("subs") or {})
    return d


def pkg_of(cfg, who):
    """proto package of the file declaring service `who` (or the messages, who="msgs")"""
    sub = cfg_subs(cfg)[who]
    return PKG + ("." + sub if sub else "")


def has_second(cfg):
    return bool(cfg.get("second")) or (cfg.get("own_service") == "Admin" and bool(cfg.get("own")))


def services_of(cfg):
    return ["Library"] + (["Admin"] if has_second(cfg) else [])


def target_of(cfg):
    return cfg.get("target") or "Library"


def sub_tuple(cfg, who):
    s = cfg_subs(cfg)[who]
    return s.split(".") if s else []


# ---------------------------------------------------------------------------------------- observation (real code)

def build_files(cfg):
    """one file per proto package in use (dependencies first): the messages' package, then the packages of the services"""
    files = {}

    def file_for(pkg):
        if pkg not in files:
            tail = pkg[len(PKG):].strip(".").split(".") if pkg != PKG else []
            name = "/".join(["acme", "lib", "v1"] + tail + [(tail[-1] if tail else "lib") + ".proto"])
            f = apigen.File(name, pkg)
            f.dep("google/iam/v1/iam_policy.proto", "google/iam/v1/policy.proto")
            files[pkg] = f
        return files[pkg]
    mf = file_for(pkg_of(cfg, "msgs"))
    book = mf.msg("Book"); book.field("name"); book.field("title")
    rq = mf.msg("GetBookRequest"); rq.field("name")
    svcs = {}
    for s in services_of(cfg):
        f = file_for(pkg_of(cfg, s))
        if f is not mf:
            f.dep(mf.name)
        if s == "Library":
            svcs[s] = f.service("Library")
            svcs[s].method("GetBook", rq, book, http=("get", "/v1/{name=books/*}"))
        else:
            svcs[s] = f.service("Admin", host="admin.example.com")
            svcs[s].method("PingBook", rq, book, http=("get", "/v1/{name=books/*}:ping"))
    for m in cfg.get("own", []):
        s = svcs[cfg.get("own_service", "Library")]
        s.method(m, "." + TYPES[m][0], "." + TYPES[m][1], http=("post", "/v1/{resource=own/*}:" + m[0].lower() + m[1:]), body="*")
    return list(files.values())


def yaml_dict(cfg):
    def b(x):
        d = {}
        if x["verb"] == "custom":
            d["custom"] = {"kind": "HEAD", "path": x["uri"]}
        elif x["verb"]:
            d[x["verb"]] = x["uri"]
        if x["body"]:
            d["body"] = x["body"]
        return d
    rules = []
    for ru in cfg["rules"]:
        d = {"selector": ru["selector"], **b(ru)}
        if ru["additional"]:
            d["additional_bindings"] = [b(x) for x in ru["additional"]]
        rules.append(d)
    y = {"type": "google.api.Service", "config_version": 3, "name": "lib.example.com",
         "apis": [{"name": a} for a in cfg["apis"]], "http": {"rules": rules}}
    sg = cfg.get("selective")
    if sg:
        methods = [f"{pkg_of(cfg, x.split('.')[0])}.{x}" for x in sg["allow"]]
        y["publishing"] = {"library_settings": [{"version": PKG, "python_settings": {"common": {"selective_gapic_generation": {
            "methods": methods, "generate_omitted_as_internal": bool(sg["internal"])}}}}]}
    return y


RESPONSES = {
    "google.longrunning.Operation": {"name": "operations/done-1", "done": True},
    "google.longrunning.ListOperationsResponse": {"operations": [{"name": "operations/x"}], "next_page_token": "nx"},
    "google.protobuf.Empty": {},
    "google.iam.v1.Policy": {"version": 3, "etag": "QUJD"},
    "google.iam.v1.TestIamPermissionsResponse": {"permissions": ["a.b"]},
    "google.cloud.location.Location": {"name": "projects/p1/locations/eu", "location_id": "eu"},
    "google.cloud.location.ListLocationsResponse": {"locations": [{"name": "projects/p1/locations/eu"}], "next_page_token": "nl"},
}


def call_rounds(cfg):
    """the call program of one session: round 1 every mixin RPC in table order (caller's request form, metadata, timeout);
    round 2 every RPC again on the same client in another order (stub caches, caller's retry); round 3 without a request;
    round 4 the examined service's OWN IAM-named RPCs that selective generation made internal, by their private name"""
    order2 = cfg.get("order") or list(reversed(ALL_METHODS))
    own4 = [m for m in ALL_METHODS if m in own_internal(cfg) and cfg.get("own_service", "Library") == target_of(cfg)]
    return [list(ALL_METHODS), list(order2), list(ALL_METHODS), own4]


REST_ROUNDS = (1, 2, 4)
OWN_FIELDS = {"resource": "own/x1"}            # matches the http annotation of the API's own IAM RPCs (/v1/{resource=own/*}:<rpc>)


def observe(cfg):
    """everything the real code does on this configuration (runs in a worker process; JSON in, JSON out)"""
    import yaml
    from google.protobuf import json_format
    obs = {}
    files = build_files(cfg)
    fd, ypath = tempfile.mkstemp(prefix="c17_", suffix=".yaml", dir=genrun.SCRATCH)
    os.close(fd)
    root = None
    try:
        with open(ypath, "w") as fh:
            yaml.safe_dump(yaml_dict(cfg), fh)
        params = f"transport={cfg['transport']},autogen-snippets=false,service-yaml={ypath}" + (",add-iam-methods" if cfg["add_iam"] else "")
        req = apigen.request(files, params)
        try:
            api, _ = genrun.build_api(req)
        except BaseException as e:  # noqa
            return {"build_error": f"{type(e).__name__}: {str(e)[:300]}"}
        # ---- T2 observables, read off the `api` the templates of the examined service are rendered with: the API itself for a
        # service of the API package, the sub-package's view for a service declared in a sub-package
        from google.api import annotations_pb2
        root_api = api
        try:
            for seg in sub_tuple(cfg, target_of(cfg)):
                api = api.subpackages[seg]
        except KeyError as e:
            return {"build_error": f"no sub-package view {e} (views: {sorted(root_api.subpackages)})"}
        obs["has"] = [bool(api.has_location_mixin), bool(api.has_iam_mixin), bool(api.has_operations_mixin)]
        obs["iam_overrides"] = bool(api._has_iam_overrides)

        def bind(h):
            v = h.WhichOneof("pattern")
            if v is None:
                return ["", "", h.body]
            if v == "custom":
                return ["custom", h.custom.path, h.body]
            return [v, getattr(h, v), h.body]
        meths = {}
        for name, mpb in api.mixin_api_methods.items():
            h = mpb.options.Extensions[annotations_pb2.http]
            meths[name] = {"main": bind(h), "additional": [bind(x) for x in h.additional_bindings],
                           "input": mpb.input_type, "output": mpb.output_type}
        obs["methods"] = meths
        obs["http"] = {k: [[x.method, x.uri, x.body] for x in v] for k, v in api.mixin_http_options.items()}
        obs["signatures"] = {k: [v.request_type, v.response_type] for k, v in api.mixin_api_signatures.items()}
        if not cfg.get("t3", True):
            return obs
        # ---- T3
        res, err = genrun.try_generate(req)
        if err:
            obs["generation_error"] = list(err)
            return obs
        root = genrun.materialise(res)
        svc = api.services[f"{pkg_of(cfg, target_of(cfg))}.{target_of(cfg)}"]
        loc = rpc.py_locations(root_api, svc)
        codec = rpc.Codec(files)
        grpc_calls, rest_calls = [], []
        script, script_retry = {}, {}
        for m in ALL_METHODS:
            out_t = TYPES[m][1]
            reply = codec.encode_b64(out_t, RESPONSES[out_t])
            for path in [f"/{API_OF[m]}/{m}"] + [f"/{pkg_of(cfg, s)}.{s}/{m}" for s in ("Library", "Admin")]:
                script[path] = [{"replies": [reply]}]
                script_retry[path] = [{"code": "UNAVAILABLE", "tag": "fail-once"}, {"replies": [reply]}]
        retry = {"exceptions": ["ServiceUnavailable"], "initial": 0.001, "maximum": 0.002, "multiplier": 1.0, "deadline": 30.0}
        for rnd, seq in enumerate(call_rounds(cfg), 1):
            for m in seq:
                c = cfg["calls"][m]
                call = {"method": snake(m), "py_request": py_request(m), "request_b64": codec.encode_b64(TYPES[m][0], c["fields"])}
                body = json.dumps(json_format.MessageToDict(_msg(codec, TYPES[m][1], RESPONSES[TYPES[m][1]])))
                if rnd == 1:      # the caller's form of the request, metadata and timeout
                    if c["mode"] == "request-dict":
                        call.update(mode="request-literal-dict", request_literal=c["fields"])   # what a caller writes by hand
                    else:
                        call["mode"] = "request-instance"
                    call["call_kwargs"] = {"metadata": [["x-verif", "1"]], "timeout": 7.0}
                    grpc_calls.append(dict(call, script=script))
                    rest_calls.append(dict(call, script=[{"status": 200, "body": body}]))
                elif rnd == 2:    # second call on the same client, other order; the caller's retry must be honoured
                    call["mode"] = "request-instance"
                    call["call_kwargs"] = {"metadata": [["x-verif", "2"]], "retry": dict(retry)}
                    grpc_calls.append(dict(call, script=script_retry))
                    rest_calls.append(dict(call, script=[{"status": 503, "body": "{}", "tag": "fail-once"}, {"status": 200, "body": body}]))
                elif rnd == 3:    # request omitted (the signature's default)
                    call["mode"] = "request-none"     # (REST: an empty request matches no binding — not examined)
                    grpc_calls.append(dict(call, script=script))
                else:             # the API's own internal RPC under its private name: must go to the API's own path
                    call.update(method="_" + snake(m), mode="request-instance", request_b64=codec.encode_b64(TYPES[m][0], OWN_FIELDS),
                                call_kwargs={"metadata": [["x-verif", "4"]]})
                    grpc_calls.append(dict(call, script=script))
                    rest_calls.append(dict(call, script=[{"status": 200, "body": body}]))
        async_calls = copy.deepcopy(grpc_calls)
        for c in async_calls:
            if isinstance(c.get("call_kwargs", {}).get("retry"), dict):
                c["call_kwargs"]["retry"]["async"] = True
        cmod, cname = loc["client"].split(":")
        amod, aname = loc["async_client"].split(":")
        ops = [{"op": "import_all", "package": loc["package"]}, {"op": "dir", "module": cmod, "attr": cname}]
        labels = ["import", "dir_sync"]
        tr = cfg["transport"].split("+")
        if "grpc" in tr:
            ops.append({"op": "dir", "module": amod, "attr": aname}); labels.append("dir_async")
            ops.append({"op": "grpc_session", "client": loc["client"], "transport": loc["grpc"], "async": False, "calls": grpc_calls, "trap_sleep": True}); labels.append("grpc_sync")
            ops.append({"op": "grpc_session", "client": loc["async_client"], "transport": loc["grpc_asyncio"], "async": True, "calls": async_calls, "trap_sleep": True}); labels.append("grpc_async")
        for lab in ("grpc", "grpc_asyncio", "rest"):
            if lab.split("_")[0] in tr:
                tmod, tname = loc[lab].split(":")
                ops.append({"op": "dir", "module": tmod, "attr": tname}); labels.append("dir_" + lab)
                ops.append({"op": "wrapped_by_name", "transport": loc[lab], "kind": lab}); labels.append("wrapped_" + lab)
        if "rest" in tr:
            ops.append({"op": "rest_session", "client": loc["client"], "transport": loc["rest"], "calls": rest_calls, "trap_sleep": True}); labels.append("rest")
        out = libhost.run(root, ops, timeout=300)
        for lab, o in zip(labels, out):
            obs[lab] = o
        return obs
    finally:
        try:
            os.unlink(ypath)
        except OSError:
            pass
        if root:
            genrun.cleanup(root)


def _msg(codec, full, d):
    from google.protobuf import json_format
    m = codec.cls(full)()
    json_format.ParseDict(d, m, descriptor_pool=codec.pool)
    return m


# ---------------------------------------------------------------------------------------- the statement (oracle helpers)

def pat_regex(pat):
    out = []
    i = 0
    pat = "*" if pat is None else pat
    while i < len(pat):
        if pat.startswith("**", i):
            out.append(".+"); i += 2
        elif pat[i] == "*":
            out.append("[^/]+"); i += 1
        else:
            out.append(re.escape(pat[i])); i += 1
    return "^" + "".join(out) + "$"


def effective_rule(cfg, m):
    """the YAML's rule for RPC m: the last one whose selector is the canonical name (None if there is none)"""
    hit = None
    for ru in cfg["rules"]:
        if ru["selector"] == f"{API_OF[m]}.{m}":
            hit = ru
    return hit


def own_all(cfg):
    """IAM-named RPCs the API defines itself AND that are part of the generated library (public or internal).  An RPC that selective
    generation OMITS is not: the library is built from the pruned API (API.build rebuilds the schema without it), no surface of the
    library carries its name, so there is nothing for a same-named mixin to yield to (decision recorded in run(): ctx.assume)."""
    return {m for m in cfg.get("own", []) if own_status(cfg, m) != "omitted"}


def own_internal(cfg):
    return {m for m in own_all(cfg) if own_status(cfg, m) == "internal"}


def drop_key(cfg, obs, m, default):
    """key of "configured IAM mixin `m` (not defined by the API) is missing".  The KNOWN key is given only for the recorded defect's
    trigger AND symptom: the API defines an IAM-named RPC that HAS a rule in the YAML, in a service that lies INSIDE the sub-package
    view of the examined service (only then does `_has_iam_overrides`, evaluated on that view, see it), the option add-iam-methods is
    off, and the real `_has_iam_overrides` is True with `m` dropped by the SELECTION itself (mixin_api_methods).  The same trigger
    with no ruled own RPC has its own, unlisted key; everything else (defining service outside the view, `m` selected but missing
    from a client or transport, overrides False) keeps the general key of the site and is a violation."""
    own = own_all(cfg)
    if API_OF[m] != IAM or not own or m in own or outside_view(cfg) or cfg["add_iam"]:
        return default
    if m in obs.get("methods", {}) or not obs.get("iam_overrides"):
        return default
    ruled = sorted(x for x in own if effective_rule(cfg, x) is not None)
    return "iam-override-drops-all:overriding-rpc-has-rule" if ruled else "iam-override:api-rpc-without-rule-drops-mixins"


def outside_view(cfg):
    """IAM-named RPCs that the API defines in a service which the examined service's sub-package view does NOT contain (the view
    of a service declared in sub-package V holds the services of V and below; the view of a service of the API package holds all)"""
    v = sub_tuple(cfg, target_of(cfg))
    if not own_all(cfg) or sub_tuple(cfg, cfg.get("own_service", "Library"))[:len(v)] == v:
        return set()
    return own_all(cfg)


def extra_key(cfg, obs, m, default):
    """key of "an IAM mixin is exposed although the API defines a same-named RPC".  The KNOWN key is given only for the recorded defect's
    trigger AND symptom: IAM listed, `m` ruled, add-iam-methods off, the service defining `m` lies OUTSIDE the sub-package view of the
    examined service (then `_has_iam_overrides`, evaluated on the view, does not see it), and the real code shows exactly that: overrides
    False on the view and `m` in the view's mixin_api_methods.  An exposed mixin whose same-named RPC is defined inside the view, a client
    or transport exposing what the selection does not hold, or any other extra RPC keeps the general key of the site."""
    if (m in outside_view(cfg) and IAM in cfg["apis"] and effective_rule(cfg, m) is not None and not cfg["add_iam"]
            and m in obs.get("methods", {}) and obs.get("iam_overrides") is False):
        return "iam-yield-per-subpackage-view:rpc-of-service-outside-view"
    return default


def expected_exposed(cfg, m):
    """the statement: listed AND has a rule AND (for IAM) not a same-named RPC of the API itself"""
    a = API_OF[m]
    ru = effective_rule(cfg, m)
    return a in cfg["apis"] and ru is not None and not (a == IAM and m in own_all(cfg))


def json_fields(codec, m, fields):
    """MessageToDict view (JSON names) of the request valuation"""
    from google.protobuf import json_format
    return json_format.MessageToDict(_msg(codec, TYPES[m][0], fields))


def flatten(prefix, v, out):
    if isinstance(v, dict):
        for k, x in v.items():
            flatten(f"{prefix}.{k}" if prefix else k, x, out)
    elif isinstance(v, list):
        for x in v:
            flatten(prefix, x, out)
    elif isinstance(v, bool):
        out.append((prefix, "true" if v else "false"))
    else:
        out.append((prefix, str(v)))
    return out


def py_safe(word):
    from gapic.utils import RESERVED_NAMES
    return word + "_" if word in RESERVED_NAMES else word


def yaml_http_options(cfg, m):
    """the bindings of the YAML rule in declared order (primary, then additional_bindings), unparseable ones dropped;
    field names that are reserved words in Python appear with the `_` suffix the emitted classes give them"""
    ru = effective_rule(cfg, m)

    def uri(u):
        return re.sub(r"\{([^=}/]+)", lambda mo: "{" + ".".join(py_safe(x) for x in mo.group(1).split(".")), u)
    return [[b["verb"], uri(b["uri"]), (py_safe(b["body"]) if b["body"] else None)] for b in [ru] + ru["additional"]
            if b["verb"] not in ("", "custom") and b["uri"]]


def expected_rest(cfg, m, jf, skip=()):
    """verb, path, body, query per the binding the rule prescribes: the FIRST binding, in the YAML's declared order
    (primary, then additional_bindings), whose path template the request's fields match (api-core transcode semantics)"""
    ru = effective_rule(cfg, m)
    var = ROUTING[m]
    value = jf.get(var, "")
    for k, b in enumerate([ru] + ru["additional"]):
        if b["verb"] in ("", "custom") or k in skip:
            continue
        if value and re.match(pat_regex(b["pattern"]), value):
            path = re.sub(r"\{[^}]*\}", lambda _: value, b["uri"])
            rest = {kk: vv for kk, vv in jf.items() if kk != var}
            if b["body"] == "*":
                body, query = rest, {}
            elif b["body"]:
                if b["body"] not in rest:
                    continue
                body = rest.pop(b["body"]); query = rest
            else:
                body, query = None, rest
            return {"binding": k, "verb": b["verb"].upper(), "path": path, "body": body, "query": sorted(flatten("", query, []))}
    return None


def md_value(rec, key):
    return [v for k, v in rec["metadata"] if k == key]


# ---------------------------------------------------------------------------------------- judge one configuration

def model_yaml(cfg):
    def b(x):
        return {"verb": x["verb"], "uri": x["uri"] if x["verb"] else "", "body": x["body"]}
    return {"apis": cfg["apis"], "rules": [dict(b(ru), selector=ru["selector"], additional=[b(x) for x in ru["additional"]]) for ru in cfg["rules"]]}


def model_api(cfg):
    """every service of the API as DECLARED — the sub-package of its file, its RPCs and what selective generation makes of each
    (public / internal / omitted) — and the sub-package of the examined service; the model derives the services API.build leaves
    (omitted RPCs pruned, internal ones kept) and the view the examined service's templates are rendered with"""
    return {"services": [{"sub": sub_tuple(cfg, s), "methods": [[m, st] for m, st in ms]} for s, ms in api_rpcs(cfg).items()],
            "view": sub_tuple(cfg, target_of(cfg))}


def model_req(jf):
    return [[k, json.dumps(v, sort_keys=True)] for k, v in jf.items()]


def sig(cfg):
    """distinct-configuration signature"""
    rs = sorted((ru["selector"], ru["verb"], bool(ru["body"]), ru["pattern"] or "", len(ru["additional"])) for ru in cfg["rules"])
    return [sorted(set(cfg["apis"]) & {OPS, IAM, LOC}), rs, cfg["transport"], cfg["add_iam"], sorted(cfg["own"]), cfg["own_service"],
            cfg.get("layout", "flat"), sorted(cfg_subs(cfg).items()), target_of(cfg),
            (cfg["selective"]["internal"], sorted(cfg["selective"]["allow"])) if cfg.get("selective") else None]


def judge(ctx, cfg, obs, label=""):
    payload = {"cfg": cfg}
    listed = sorted(set(cfg["apis"]) & {OPS, IAM, LOC})
    ctx.case({"listed": listed, "n_rules": len(cfg["rules"]), "transport": cfg["transport"], "add_iam": cfg["add_iam"], "own": cfg["own"],
              "layout": cfg.get("layout", "flat"), "packages": cfg_subs(cfg), "examined_service": target_of(cfg),
              "selective": cfg.get("selective")},
             distinct_key=sig(cfg))
    ctx.count("listed_apis", "+".join(a.split(".")[-1] for a in listed) or "none")
    ctx.count("transport", cfg["transport"]); ctx.count("add_iam", cfg["add_iam"]); ctx.count("own_iam_rpcs", len(cfg["own"]))
    ctx.count("rules_with_additional_bindings", sum(1 for ru in cfg["rules"] if ru["additional"]))
    tgt, subs = target_of(cfg), cfg_subs(cfg)
    sg = cfg.get("selective")
    ctx.count("selective_generation", ("generate_omitted_as_internal" if sg["internal"] else "omit") if sg else "off")
    if sg and cfg["own"]:
        sts = sorted({own_status(cfg, m) for m in cfg["own"]})
        ctx.count("own_iam_rpcs_under_selective_generation", "+".join(sts) + (":examined-service" if cfg["own_service"] == tgt else ":other-service"))
    ctx.count("layout", cfg.get("layout", "flat") + (":nested" if any("." in v for v in subs.values()) else ""))
    if cfg.get("layout", "flat") != "flat":
        ctx.count("examined_service", ("sub-package" if subs[tgt] else "api-package") + ":messages-in-" + ("sub-package" if subs["msgs"] else "api-package")
                  + (":own-iam-rpc-in-" + ("its-own-service" if cfg["own_service"] == tgt else
                                           ("a-service-of-its-view" if sub_tuple(cfg, cfg["own_service"])[:len(sub_tuple(cfg, tgt))] == sub_tuple(cfg, tgt)
                                            else "a-service-outside-its-view")) if cfg["own"] else ""))
    if "build_error" in obs:
        ctx.fail("schema-build-crash", f"API.build raised {obs['build_error']}", payload)
        return
    codec = rpc.Codec(build_files(cfg))
    my, ma = model_yaml(cfg), model_api(cfg)
    mops = [{"op": "c17.select", "yaml": my, "api": ma, "add_iam": cfg["add_iam"]}]
    rest_ms = []
    jfs = {m: json_fields(codec, m, cfg["calls"][m]["fields"]) for m in ALL_METHODS}
    for m in ALL_METHODS:
        mops.append({"op": "c17.rest", "yaml": my, "api": ma, "method": m, "req": model_req(jfs[m])})
        rest_ms.append(m)
    mres = ctx.driver.ask(mops)
    sel = mres[0]
    if "unsupported" in sel or "error" in sel:
        ctx.unsupported += 1
        ctx.disagree("model", f"driver: {sel}", payload)
        return
    mrest = dict(zip(rest_ms, mres[1:]))
    # ------------------------------------------------ T2: selection functions
    ctx.traces += 1
    if sel["has"] != obs["has"]:
        ctx.disagree("T2:c17.has_mixin", f"model {sel['has']} vs impl {obs['has']} (location, iam, operations)", payload)
    if sel["iam_overrides"] != obs["iam_overrides"]:
        ctx.disagree("T2:c17._has_iam_overrides", f"model {sel['iam_overrides']} vs impl {obs['iam_overrides']}", payload)
    m_meths = {n: {"main": mn, "additional": ad} for n, mn, ad in sel["methods"]}
    i_meths = {n: {"main": v["main"], "additional": v["additional"]} for n, v in obs["methods"].items()}
    if m_meths != i_meths:
        ctx.disagree("T2:c17.mixin_api_methods", f"model {sorted(m_meths)} vs impl {sorted(i_meths)} (or their rules differ)", payload)
    m_http = {n: v for n, v in sel["http"]}
    if m_http != obs["http"]:
        ctx.disagree("T2:c17.mixin_http_options", f"model {m_http} vs impl {obs['http']}", payload)
    m_sig = {n: v for n, v in sel["signatures"]}
    if m_sig != obs.get("signatures"):
        ctx.disagree("T2:c17.mixin_api_signatures", f"model {m_sig} vs impl {obs.get('signatures')}", payload)
    # ---- oracle on the selection (statement: exactly those listed that have a rule; IAM yields to same-named)
    for m in ALL_METHODS:
        want, got = expected_exposed(cfg, m), m in obs["methods"]
        ctx.count("selected", f"{m}:{'yes' if got else 'no'}")
        if want and not got:
            k = drop_key(cfg, obs, m, "selection:missing")
            if k != "selection:missing":
                ctx.fail(k, f"{m} is listed, has a rule and is not defined by the API, yet mixin_api_methods drops it "
                         f"because the API defines {sorted(own_all(cfg))}", dict(payload, method=m))
            else:
                ctx.fail("selection:missing", f"{m} is listed and has a rule but is not selected", dict(payload, method=m))
        if got and not want:
            ctx.fail(extra_key(cfg, obs, m, "selection:extra"), f"{m} is selected although " + ("its API is not listed" if API_OF[m] not in cfg["apis"] else "it has no rule / is defined by the API itself"),
                     dict(payload, method=m))
        if got:
            v = obs["methods"][m]
            if (v["input"].lstrip("."), v["output"].lstrip(".")) != TYPES[m]:
                ctx.fail("selection:types", f"{m} selected with types {v['input']} -> {v['output']}", dict(payload, method=m))
            ru = effective_rule(cfg, m)
            if ru and obs["http"].get(m) != yaml_http_options(cfg, m):
                want_o, got_o = yaml_http_options(cfg, m), obs["http"].get(m)
                if got_o is not None and sorted(map(str, got_o)) == sorted(map(str, want_o)):
                    ctx.fail("rest-binding-order:http-options", f"mixin_http_options[{m}] lists the bindings as {got_o}; the YAML rule declares them "
                             f"as {want_o} (primary first, then additional_bindings in order): transcoding takes the first match", dict(payload, method=m))
                else:
                    ctx.fail("selection:http-options", f"mixin_http_options[{m}] = {got_o}, the YAML rule's bindings are {want_o}", dict(payload, method=m))
            if ru and v["main"] != [ru["verb"], ru["uri"] if ru["verb"] else "", ru["body"]]:
                ctx.fail("selection:rule", f"{m} carries rule {v['main']}, the YAML's (last) rule is {[ru['verb'], ru['uri'], ru['body']]}", dict(payload, method=m))
    if not cfg.get("t3", True):
        return
    if "generation_error" in obs:
        ctx.fail("generation-crash:" + obs["generation_error"][0], f"generator raised {obs['generation_error']}", payload)
        return
    imp = obs.get("import", {})
    if imp.get("errors") or "child_error" in imp:
        ctx.fail("import-error", f"emitted package does not import: {str(imp)[:300]}", payload)
        return
    # ------------------------------------------------ T3: presence
    tr = cfg["transport"].split("+")
    own_here = own_all(cfg) if cfg["own_service"] == tgt else set()      # the examined service's own IAM-named RPCs that are generated
    own_int = own_here & own_internal(cfg)                                # … as internal: client method `_x`, transport property / stub `x`
    own_pub = own_here - own_int                                          # … as public: they occupy the client's name `x`
    kinds = [("sync", "dir_sync", "exposed_sync")] + ([("async", "dir_async", "exposed_async")] if "grpc" in tr else [])
    for kind, key, mkey in kinds:
        names = set(obs.get(key, {}).get("names", []))
        if not names:
            ctx.fail("session-failed", f"dir({kind} client) failed: {str(obs.get(key))[:200]}", payload)
            continue
        ctx.traces += 1
        present = {m for m in ALL_METHODS if snake(m) in names}
        model_present = set(sel[mkey]) | own_pub
        for m in sorted(own_int):
            if "_" + snake(m) not in names:
                ctx.fail("internal-own-iam-rpc:missing", f"{kind} client has no _{snake(m)}: the API's own {m} is generated as internal", dict(payload, method=m, client=kind))
        if present != model_present:
            ctx.disagree(f"T3:c17.presence.{kind}", f"model {sorted(model_present)} vs impl {sorted(present)}", payload)
        for m in ALL_METHODS:
            legacy = cfg["add_iam"] and m in IAM_METHODS
            want = expected_exposed(cfg, m) or legacy or m in own_pub
            if want and m not in present:
                k = drop_key(cfg, obs, m, "presence:missing")
                if k != "presence:missing":
                    ctx.fail(k, f"{kind} client lacks {snake(m)}: configured, not defined by the API, dropped because the API "
                             f"defines {sorted(own_all(cfg))}", dict(payload, method=m, client=kind))
                else:
                    ctx.fail("presence:missing", f"{kind} client lacks {snake(m)}", dict(payload, method=m, client=kind))
            if m in present and not want:
                ctx.fail(extra_key(cfg, obs, m, "presence:extra"), f"{kind} client exposes {snake(m)} although it is not configured", dict(payload, method=m, client=kind))
    # ------------------------------------------------ T3: transports (stubs present, wrapped-method tables)
    for lab in ("grpc", "grpc_asyncio", "rest"):
        if lab.split("_")[0] not in tr:
            continue
        names = set(obs.get("dir_" + lab, {}).get("names", []))
        wr = obs.get("wrapped_" + lab, {})
        if not names or "wrapped" not in wr:
            ctx.fail("session-failed", f"introspection of the {lab} transport failed: {str(obs.get('dir_' + lab))[:150]} {str(wr)[:150]}", payload)
            continue
        ctx.traces += 1
        have = {m for m in ALL_METHODS if snake(m) in names}
        model_have = (set(sel["rest_transport"]) if lab == "rest" else set(sel["grpc_transport"])) | own_here
        if lab == "rest" and cfg["add_iam"]:      # dir() also shows the abstract legacy properties inherited from the base transport
            have -= set(IAM_METHODS) - model_have
        if have != model_have:
            ctx.disagree(f"T3:c17.transport.{lab}", f"model {sorted(model_have)} vs impl {sorted(have)}", payload)
        wrapped = {m for m in ALL_METHODS if snake(m) in wr["wrapped"]}
        if wrapped != set(sel["wrapped"]) | own_here:
            ctx.disagree(f"T3:c17.wrapped.{lab}", f"model {sorted(set(sel['wrapped']) | own_here)} vs impl {sorted(wrapped)}", payload)
        for m in ALL_METHODS:
            if m in own_here:
                continue
            want = expected_exposed(cfg, m) or (cfg["add_iam"] and m in IAM_METHODS and lab != "rest")
            if want and m not in have:
                ctx.fail(drop_key(cfg, obs, m, "transport:missing-stub"), f"{lab} transport has no {snake(m)} although the RPC is configured", dict(payload, method=m, client=lab))
            if m in have and not (want or (cfg["add_iam"] and m in IAM_METHODS)):
                ctx.fail(extra_key(cfg, obs, m, "transport:extra-stub"), f"{lab} transport carries {snake(m)} although the RPC is not configured", dict(payload, method=m, client=lab))
            if m in wrapped:
                e = wr["wrapped"][snake(m)]
                if e.get("timeout") is not None or e.get("retry") is not None:
                    ctx.disagree(f"T3:c17.wrapped.{lab}.defaults", f"{m}: wrapped with {e}, the template says default_timeout=None and no retry", payload)
    # ------------------------------------------------ T3: gRPC
    for kind, key, mkey in ([("sync", "grpc_sync", "grpc_sync"), ("async", "grpc_async", "grpc_async")] if "grpc" in tr else []):
        sess = obs.get(key, {})
        if "calls" not in sess:
            ctx.fail("session-failed", f"gRPC {kind} session failed: {str(sess)[-300:]}", payload)
            continue
        mo = {n: v for n, v in sel[mkey]}
        flat = [(rnd, m) for rnd, seq in enumerate(call_rounds(cfg), 1) for m in seq]
        for (rnd, m), res in zip(flat, sess["calls"]):
            p2 = dict(payload, method=m, client=kind, round=rnd)
            legacy = cfg["add_iam"] and m in IAM_METHODS
            want = expected_exposed(cfg, m) or legacy
            ctx.traces += 1
            if rnd == 4:
                # ---- the API's own internal RPC, called by its private name: exactly one request, at the API's own path, with the caller's request
                ctx.count("grpc_calls", f"round4:{kind}:own-internal")
                srv = res.get("server", [])
                own_path = f"/{pkg_of(cfg, tgt)}.{tgt}/{m}"
                if "ok" not in res:
                    ctx.fail("internal-own-iam-rpc:raised", f"{kind} _{snake(m)} raised {res.get('raised')}: {res.get('msg', '')[:200]}", p2)
                elif [x["path"] for x in srv] != [own_path]:
                    ctx.fail("internal-own-iam-rpc:wire-path", f"{kind} _{snake(m)} (the API's own {m}, generated as internal) reached "
                             f"{[x['path'] for x in srv]}, the API's own path is {own_path}", p2)
                elif codec.decode(TYPES[m][0], srv[0]["requests"][0]) != codec.normal(TYPES[m][0], OWN_FIELDS):
                    ctx.fail("internal-own-iam-rpc:request", f"{kind} _{snake(m)} sent {codec.decode(TYPES[m][0], srv[0]['requests'][0])}", p2)
                continue
            ctx.count("grpc_calls", f"round{rnd}:{kind}:{'legacy' if legacy else ('mixin' if want else ('own' if m in own_pub else ('own-internal-public-name' if m in own_int else 'absent')))}")
            srv = res.get("server", [])
            no_such_method = res.get("raised") == "AttributeError" and not srv and f"has no attribute '{snake(m)}'" in res.get("msg", "")
            if rnd == 3:
                # ---- the request omitted (`request: Optional[...] = None`): OUTSIDE the statement (it does not quantify over request
                # forms, and without a request there is no name/resource field to route on) — informational only, nothing is demanded
                if not want or m in own_pub or no_such_method:
                    continue
                if res.get("raised") == "AttributeError" and "'NoneType' object has no attribute" in res.get("msg", ""):
                    what = "AttributeError-on-None"
                elif "ok" in res and len(srv) == 1 and srv[0]["path"] == f"/{API_OF[m]}/{m}":
                    what = "sent-empty-request"
                else:
                    what = f"other:{res.get('raised', 'ok')}"
                ctx.count("request_omitted(informational)", f"{kind}:{what}")
                ctx.notes.setdefault("request_omitted_note", "calling a mixin method without a request (its declared default None) is observed, "
                                     "not judged: at HEAD every such call raises AttributeError ('NoneType' object has no attribute 'name'/'resource') "
                                     "before anything is sent; see input_distribution['request_omitted(informational)']")
                continue
            nrec = 2 if rnd == 2 else 1
            # ---- observed outcome, in the model's vocabulary
            if "ok" in res and srv:
                ret = res["ok"]
                rk = ["none"] if ret["kind"] == "none" else (["bytes"] if ret["kind"] == "bytes" else ["message", ret.get("type")])
                hdr = md_value(srv[-1], "x-goog-request-params")
                got = {"outcome": "sent", "path": srv[-1]["path"], "resp": rk}
            elif no_such_method:
                got = {"outcome": "absent"}
            else:
                got = {"outcome": res.get("raised", "?")}
            # ---- correspondence with the model (own RPCs of the service are outside the mixin model)
            if m not in own_pub:
                mm = mo[m]
                exp = {"outcome": mm["outcome"]}
                if mm["outcome"] == "sent":
                    exp.update(path=mm["spec"]["path"], resp=mm["spec"]["resp"])
                if exp != got:
                    ctx.disagree(f"T3:c17.grpc.{kind}", f"{m}: model {exp} vs impl {got} {res.get('msg', '')[:120]}", p2)
                elif got["outcome"] == "sent":
                    f = mm["spec"]["routing"]
                    if not hdr or urllib.parse.unquote(hdr[0]) != f"{f}={cfg['calls'][m]['fields'][f]}":
                        ctx.disagree(f"T3:c17.grpc.{kind}.routing", f"{m}: model field {f} vs header {hdr}", p2)
            # ---- oracle
            if m in own_pub and not legacy:
                if got.get("path") != f"/{pkg_of(cfg, tgt)}.{tgt}/{m}":
                    ctx.fail("own-iam-rpc-shadowed", f"{kind} {snake(m)} is defined by the API itself but the call went to {got}", p2)
                continue
            if not want:
                if got["outcome"] != "absent":
                    ctx.fail(extra_key(cfg, obs, m, "grpc:exposed-not-configured"), f"{kind} {snake(m)} is callable although not configured: {got}", p2)
                continue
            if got["outcome"] == "absent":
                continue                                  # reported under presence
            if got["outcome"] != "sent":
                ctx.fail("grpc:raised", f"{kind} {snake(m)} raised {got['outcome']}: {res.get('msg', '')[:200]}", p2)
                continue
            if {x["path"] for x in srv} != {f"/{API_OF[m]}/{m}"}:
                ctx.fail("grpc:path", f"{kind} {snake(m)} reached {[s['path'] for s in srv]}, canonical path is /{API_OF[m]}/{m}"
                         + (" (second call on the same client)" if rnd == 2 else ""), p2)
                continue
            if len(srv) != nrec:
                ctx.fail("grpc:retry" if rnd == 2 else "grpc:call-count", f"{kind} {snake(m)}: {len(srv)} requests reached the server, expected {nrec}"
                         + (" (first reply UNAVAILABLE, caller passed retry=Retry(if ServiceUnavailable))" if rnd == 2 else ""), p2)
                continue
            if rnd == 1 and not (0 < srv[0]["time_remaining"] <= 7.5):
                ctx.fail("grpc:timeout", f"{kind} {snake(m)}: deadline at the server {srv[0]['time_remaining']}, caller passed timeout=7.0", p2)
            sent = codec.decode(TYPES[m][0], srv[-1]["requests"][0]) if srv[-1]["requests"] else None
            if sent != codec.normal(TYPES[m][0], cfg["calls"][m]["fields"]):
                ctx.fail("grpc:request", f"{kind} {snake(m)} sent {sent}, caller gave {cfg['calls'][m]['fields']}", p2)
            f = ROUTING[m]
            if not hdr or urllib.parse.unquote(hdr[0]) != f"{f}={cfg['calls'][m]['fields'][f]}":
                ctx.fail("grpc:routing-header", f"{kind} {snake(m)}: x-goog-request-params {hdr}, expected {f}={cfg['calls'][m]['fields'][f]}", p2)
            if md_value(srv[-1], "x-verif") != [str(rnd)]:
                ctx.fail("grpc:metadata", f"{kind} {snake(m)} lost the caller's metadata", p2)
            out_t = TYPES[m][1]
            ret = res["ok"]
            if out_t == "google.protobuf.Empty":
                if ret["kind"] != "none":
                    ctx.fail("grpc:response-type", f"{kind} {snake(m)} returned {ret['kind']}, expected None", p2)
            elif ret["kind"] != "message" or ret.get("type") != out_t:
                ctx.fail("grpc:response-type", f"{kind} {snake(m)} returned {ret.get('type', ret['kind'])}, expected {out_t}", p2)
            elif codec.decode(out_t, ret["b64"]) != codec.normal(out_t, RESPONSES[out_t]):
                ctx.fail("grpc:response-value", f"{kind} {snake(m)} returned {codec.decode(out_t, ret['b64'])}", p2)
    # ------------------------------------------------ T3: REST
    if "rest" in tr:
        sess = obs.get("rest", {})
        if "calls" not in sess:
            ctx.fail("session-failed", f"REST session failed: {str(sess)[-300:]}", payload)
            return
        flat = [(rnd, m) for rnd, seq in enumerate(call_rounds(cfg), 1) if rnd in REST_ROUNDS for m in seq]
        for (rnd, m), res in zip(flat, sess["calls"]):
            p2 = dict(payload, method=m, client="rest", round=rnd)
            if rnd == 4:
                # ---- the API's own internal RPC by its private name: verb and path of ITS OWN http annotation (post /v1/{resource=own/*}:<rpc>)
                ctx.traces += 1
                ctx.count("rest_calls", "round4:own-internal")
                srv = res.get("server", [])
                own_uri = "/v1/" + OWN_FIELDS["resource"] + ":" + m[0].lower() + m[1:]
                if "ok" not in res:
                    ctx.fail("internal-own-iam-rpc:raised", f"rest _{snake(m)} raised {res.get('raised')}: {res.get('msg', '')[:200]}", p2)
                elif [(x["verb"], x["path"]) for x in srv] != [("POST", own_uri)]:
                    ctx.fail("internal-own-iam-rpc:wire-path", f"rest _{snake(m)} (the API's own {m}, generated as internal) went out as "
                             f"{[(x['verb'], x['path']) for x in srv]}, its own http annotation says POST {own_uri}", p2)
                continue
            legacy = cfg["add_iam"] and m in IAM_METHODS
            if legacy and not expected_exposed(cfg, m):
                ctx.assume("add-iam-methods is the gRPC-interface legacy option (options.py: 'microgenerator implementation for "
                           "reroute_to_grpc_interface'): legacy IAM methods over the REST transport are not examined")
                continue
            if m in own_pub:
                continue                                  # the API's own RPC with its own http annotation: C04's subject
            want = expected_exposed(cfg, m)
            ctx.traces += 1
            ctx.count("rest_calls", f"round{rnd}:" + ("mixin" if want else "absent"))
            srv = res.get("server", [])
            if "ok" in res and srv:
                s0 = srv[-1]
                body = json.loads(s0["body"]) if s0["body"] else None
                q = sorted(urllib.parse.parse_qsl(s0["query"], keep_blank_values=True))
                got = {"outcome": "sent", "verb": s0["verb"], "path": s0["path"], "body": body, "query": [list(x) for x in q]}
            elif res.get("raised") == "AttributeError" and not srv and f"has no attribute '{snake(m)}'" in res.get("msg", ""):
                got = {"outcome": "not-generated"}
            else:
                got = {"outcome": res.get("raised", "?")}
            # ---- correspondence
            mm = mrest[m]
            exp = {"outcome": mm["outcome"]}
            if mm["outcome"] == "sent":
                mb = mm["body"]
                exp.update(verb=mm["verb"], path=mm["path"], query=[list(x) for x in sorted(flatten("", {k: json.loads(v) for k, v in mm["query"]}, []))])
                if mb is None:
                    exp["body"] = None
                else:
                    as_obj = {k: json.loads(v) for k, v in mb}
                    exp["body"] = got.get("body") if (len(mb) == 1 and got.get("body") == json.loads(mb[0][1])) else as_obj
            if exp != got:
                ctx.disagree("T3:c17.rest", f"{m}: model {exp} vs impl {got} {res.get('msg', '')[:120]}", p2)
            # ---- oracle
            if not want:
                if got["outcome"] != "not-generated":
                    ctx.fail(extra_key(cfg, obs, m, "rest:exposed-not-configured"), f"rest {snake(m)} is callable although not configured: {got}", p2)
                continue
            if got["outcome"] == "not-generated":
                continue                                  # reported under presence
            if rnd == 2 and got["outcome"] == "sent" and (len(srv) != 2 or (srv[0]["verb"], srv[0]["path"]) != (srv[1]["verb"], srv[1]["path"])):
                ctx.fail("rest:retry", f"rest {snake(m)}: first reply 503, caller passed retry=Retry(if ServiceUnavailable); the server saw "
                         f"{[(x['verb'], x['path']) for x in srv]}", p2)
            er = expected_rest(cfg, m, jfs[m])
            if er is None:
                ctx.assume("a request that matches no binding of the rule (google.api_core raises ValueError) is outside the statement")
                continue
            ru = effective_rule(cfg, m)
            first_has_body = bool(ru["body"])
            sel_b = ([ru] + ru["additional"])[er["binding"]]
            mixed = bool(sel_b["body"]) != first_has_body
            nmatch = 1
            other = expected_rest(cfg, m, jfs[m], skip=(er["binding"],))
            while other is not None and nmatch < 6:
                nmatch += 1
                if got["outcome"] == "sent" and all(got[k] == other[k] for k in ("verb", "path", "body")):
                    break
                other = expected_rest(cfg, m, jfs[m], skip=tuple(range(other["binding"] + 1)) + (er["binding"],))
            ctx.count("rest_binding", f"{'additional' if er['binding'] else 'primary'}:{'mixed-body' if mixed else 'uniform'}"
                      f"{':several-bindings-match' if nmatch > 1 else ''}")
            # the OPEN finding, narrowly: the binding the YAML prescribes is an ADDITIONAL one whose body-ness differs from the
            # primary binding's, verb and path on the wire are that binding's, and only the body is lost / KeyError('body') is raised
            if got["outcome"] != "sent":
                if mixed and er["binding"] > 0 and not sel_b["body"] and got["outcome"] == "KeyError" and "'body'" in res.get("msg", "") and not srv:
                    ctx.fail("rest-body-follows-first-binding", f"rest {snake(m)} raised {got['outcome']}: the selected additional binding has no body "
                             f"but the rule's first binding has one", p2)
                else:
                    ctx.fail("rest:raised", f"rest {snake(m)} raised {got['outcome']}: {res.get('msg', '')[:200]}", p2)
                continue
            bad = [k for k in ("verb", "path", "body") if got[k] != er[k]]
            if bad:
                if mixed and er["binding"] > 0 and bad == ["body"] and sel_b["body"] and got["body"] is None:
                    ctx.fail("rest-body-follows-first-binding", f"rest {snake(m)}: selected binding {sel_b['verb'].upper()} {sel_b['uri']} has body "
                             f"{sel_b['body']!r} but the call carried body {got['body']!r} (first binding's body is {ru['body']!r})", p2)
                elif other is not None:
                    ob = ([ru] + ru["additional"])[other["binding"]]
                    ctx.fail("rest-binding-order:" + "+".join(bad), f"rest {snake(m)}: the request matches binding #{er['binding']} "
                             f"({sel_b['verb'].upper()} {sel_b['uri']} body={sel_b['body']!r}) first in the YAML's declared order, but the call went out as "
                             f"{got['verb']} {got['path']} body={got['body']} — that is binding #{other['binding']} ({ob['verb'].upper()} {ob['uri']} "
                             f"body={ob['body']!r})", p2)
                else:
                    ctx.fail("rest:" + "+".join(bad), f"rest {snake(m)}: sent {got['verb']} {got['path']} body={got['body']}, the rule says "
                             f"{er['verb']} {er['path']} body={er['body']}", p2)
            elif [tuple(x) for x in got["query"]] != er["query"]:
                ctx.fail("rest:query", f"rest {snake(m)}: query {got['query']}, fields outside path and body are {er['query']}", p2)
            ret = res["ok"]
            out_t = TYPES[m][1]
            if out_t == "google.protobuf.Empty":
                if ret["kind"] != "none":
                    ctx.fail("rest:response-type", f"rest {snake(m)} returned {ret['kind']}, expected None", p2)
            elif ret["kind"] != "message" or ret.get("type") != out_t:
                ctx.fail("rest:response-type", f"rest {snake(m)} returned {ret.get('type', ret['kind'])}, expected {out_t}", p2)
            elif codec.decode(out_t, ret["b64"]) != codec.normal(out_t, RESPONSES[out_t]):
                ctx.fail("rest:response-value", f"rest {snake(m)} returned {codec.decode(out_t, ret['b64'])}", p2)


# ---------------------------------------------------------------------------------------- function-level T2 (tables, transcode)

def check_tables(ctx):
    t = ctx.driver.ask([{"op": "c17.tables"}])[0]
    ctx.traces += 1
    model_apis = {a: ms for a, ms in t["apis"]}
    impl_apis = {a: [m for (m, _, _) in ms] for a, ms in CANON.items()}
    if model_apis != impl_apis:
        ctx.disagree("T2:c17.canonical_methods", f"model {model_apis} vs installed descriptors {impl_apis}", {})
    if {m: (i, o) for m, i, o in t["types"]} != TYPES:
        ctx.disagree("T2:c17.canonical_types", "model type table differs from the installed descriptors", {})
    from gapic.schema import mixins

    def pyname(full):
        if full == "google.protobuf.Empty":
            return "None"
        pkg, _, n = full.rpartition(".")
        mod = {"google.longrunning": "operations_pb2", "google.cloud.location": "locations_pb2"}.get(pkg) or \
            ("policy_pb2" if n == "Policy" else "iam_policy_pb2")
        return f"{mod}.{n}"
    for m in ALL_METHODS:
        mm = mixins.MIXINS_MAP.get(m)
        if mm is None or (mm.request_type, mm.response_type) != (pyname(TYPES[m][0]), pyname(TYPES[m][1])):
            ctx.fail("mixins-map", f"MIXINS_MAP[{m}] = {mm}, canonical types are {TYPES[m]}", {"method": m})
    if set(mixins.MIXINS_MAP) != set(ALL_METHODS):
        ctx.fail("mixins-map", f"MIXINS_MAP keys {sorted(mixins.MIXINS_MAP)} != canonical RPCs", {})
    # hypothesis of the model's tryParse: no field of a canonical request is a reserved name
    from gapic.utils import RESERVED_NAMES
    codec = rpc.Codec([])
    for m in ALL_METHODS:
        for fdesc in codec.pool.FindMessageTypeByName(TYPES[m][0]).fields:
            if fdesc.name in RESERVED_NAMES:
                ctx.disagree("T2:c17.reserved-hypothesis", f"{TYPES[m][0]}.{fdesc.name} is a reserved name: convert_uri_fieldnames is not the identity", {})


def check_transcode(ctx, r, n):
    """reference `apply` of the model vs google.api_core.path_template.transcode on one binding"""
    from google.api_core import path_template
    from google.protobuf import json_format
    codec = rpc.Codec([])
    cases, ops = [], []
    for _ in range(n):
        m = r.pick(ALL_METHODS)
        b = gen_binding(r, m)
        if r.maybe(0.1):
            b["body"] = r.pick(["policy", "options", "filter"])
        value = PATTERNS[b["pattern"]] if r.maybe(0.6) else r.pick(list(PATTERNS.values()) + ["", "a//b", "operations/", "books/b1/extra"])
        fields = gen_fields(r, m, value, False)
        if not value:
            fields.pop(ROUTING[m])
        jf = json_format.MessageToDict(_msg(codec, TYPES[m][0], fields))
        opt = {"method": b["verb"], "uri": b["uri"]}
        if b["body"]:
            opt["body"] = b["body"]
        try:
            t = path_template.transcode([opt], **copy.deepcopy(jf))
            impl = {"method": t["method"], "uri": t["uri"], "body": t.get("body"), "query": t["query_params"]}
        except ValueError:
            impl = None
        cases.append((opt, jf, impl))
        ops.append({"op": "c17.apply", "rule": dict(opt), "req": model_req(jf)})
    for (opt, jf, impl), mo in zip(cases, ctx.driver.ask(ops)):
        ctx.traces += 1
        ctx.count("transcode", "applies" if impl else "rejects")
        mr = mo.get("r")
        if mr is not None:
            body = None
            if mr["body"] is not None:
                body = {k: json.loads(v) for k, v in mr["body"]}
                if opt.get("body") not in (None, "*"):
                    body = body.get(opt["body"])
            mr = {"method": mr["method"], "uri": mr["uri"], "body": body, "query": {k: json.loads(v) for k, v in mr["query"]}}
        if mr != impl:
            ctx.disagree("T2:c17.transcode", f"binding {opt} request {jf}: model {mr} vs api_core {impl}", {"binding": opt, "request": jf})


# ---------------------------------------------------------------------------------------- driver of the check

def run_cfgs(ctx, cfgs, workers):
    if workers <= 1 or len(cfgs) <= 1:
        for cfg in cfgs:
            judge(ctx, cfg, observe(cfg))
        return
    import multiprocessing as mp
    from concurrent.futures import ProcessPoolExecutor
    with ProcessPoolExecutor(max_workers=workers, mp_context=mp.get_context("fork")) as ex:
        for cfg, obs in zip(cfgs, ex.map(observe, cfgs, chunksize=1)):
            judge(ctx, cfg, obs)


def corpus_cfgs():
    out = []
    if os.path.isdir(CORPUS_DIR):
        for fn in sorted(os.listdir(CORPUS_DIR)):
            if fn.endswith(".json"):
                with open(os.path.join(CORPUS_DIR, fn)) as fh:
                    blob = json.load(fh)
                out.append(blob.get("payload", blob)["cfg"])
    return out


# (IAM RPCs the API defines itself, IAM RPCs that have a YAML rule): disjoint, overlapping, contained
OWN_VS_RULES = [(["SetIamPolicy"], ["GetIamPolicy", "TestIamPermissions"]),
                (["SetIamPolicy", "GetIamPolicy"], ["TestIamPermissions"]),
                (["SetIamPolicy", "GetIamPolicy"], ["GetIamPolicy", "TestIamPermissions"]),
                (["TestIamPermissions"], ["SetIamPolicy", "GetIamPolicy", "TestIamPermissions"])]


def matrix(r, thorough):
    """every subset of the three APIs x transports x the legacy option (x API-defined IAM RPCs)"""
    cfgs = []
    subsets = [[a for k, a in enumerate((OPS, IAM, LOC)) if bits >> k & 1] for bits in range(8)]
    if thorough:
        for listed in subsets:
            for tr in ("grpc", "rest", "grpc+rest"):
                for add in ((False, True) if "grpc" in tr else (False,)):
                    cfgs.append(gen_cfg(r, listed=listed, transport=tr, add_iam=add, own=[]))
                    if add and IAM in listed:
                        for ir in ([], ["GetIamPolicy"], list(IAM_METHODS)):
                            cfgs.append(gen_cfg(r, listed=listed, transport=tr, add_iam=True, own=[], iam_rules=ir))
                if IAM in listed:
                    for own in (["SetIamPolicy"], ["GetIamPolicy", "TestIamPermissions"], list(IAM_METHODS)):
                        cfgs.append(gen_cfg(r, listed=listed, transport=tr, add_iam=False, own=own))
                    for own, ir in OWN_VS_RULES:
                        cfgs.append(gen_cfg(r, listed=listed, transport=tr, add_iam=False, own=own, iam_rules=ir))
    else:
        trs = ["grpc", "rest", "grpc+rest"]
        for k, listed in enumerate(subsets):
            cfgs.append(gen_cfg(r, listed=listed, transport=trs[k % 3] if k % 4 else "grpc+rest", add_iam=(k in (0, 5)), own=[]))
        cfgs.append(gen_cfg(r, listed=[OPS, IAM], transport="grpc", add_iam=False, own=["GetIamPolicy"]))
        cfgs.append(gen_cfg(r, listed=[IAM], transport="grpc+rest", add_iam=False, own=list(IAM_METHODS)))
        for k, (own, ir) in enumerate(OWN_VS_RULES):
            cfgs.append(gen_cfg(r, listed=[IAM] + ([OPS] if k % 2 else []), transport=trs[k % 3], add_iam=False, own=own, iam_rules=ir))
        # the legacy option next to a listed IAM mixin: with all rules, with some, with none
        cfgs.append(gen_cfg(r, listed=[IAM], transport="grpc", add_iam=True, own=[], iam_rules=list(IAM_METHODS)))
        cfgs.append(gen_cfg(r, listed=[IAM, OPS], transport="grpc+rest", add_iam=True, own=[], iam_rules=["GetIamPolicy"]))
        cfgs.append(gen_cfg(r, listed=[IAM, LOC], transport="grpc+rest", add_iam=True, own=[], iam_rules=[]))
    # proto sub-packages x IAM RPCs defined by the API itself: the defining service inside / outside the examined service's view
    for k, (own_svc, tgt) in enumerate([("Library", "Admin"), ("Admin", "Library"), ("Admin", "Admin"), ("Library", "Library")] * (3 if thorough else 1)):
        own, ir = OWN_VS_RULES[k % len(OWN_VS_RULES)]
        c = gen_cfg(r, listed=[IAM] + ([LOC] if k % 2 else []), transport=["grpc+rest", "grpc", "rest"][k % 3], add_iam=False, own=own,
                    iam_rules=sorted(set(ir) | set(own[:1])), layout="split" if k % 4 != 3 else "allsub", selective=False)
        c.update(own_service=own_svc, target=tgt, second=True)
        cfgs.append(c)
    # selective generation x IAM RPCs defined by the API itself: allow-listed / generated as internal / omitted, in the examined or the other service
    for k, (internal, ownmode, own_svc) in enumerate([(True, "out", "Library"), (True, "allow", "Library"), (False, "out", "Library"), (True, "out", "Admin"),
                                                      (False, "out", "Admin"), (True, "mixed", "Library"), (False, "mixed", "Library")] * (3 if thorough else 1)):
        own, ir = OWN_VS_RULES[(k + 1) % len(OWN_VS_RULES)]
        c = gen_cfg(r, listed=[IAM] + ([OPS] if k % 2 else []), transport=["grpc+rest", "grpc", "rest"][k % 3], add_iam=False, own=own,
                    iam_rules=sorted(set(ir) | set(own[:1])) if k % 4 else list(own), layout="flat" if k % 3 else "allsub", selective=False)
        c.update(own_service=own_svc, target="Library", second=(own_svc == "Admin" or c.get("second", False)))
        apply_selective(r, c, {"internal": internal, "own": ownmode})
        cfgs.append(c)
    return cfgs


def run(ctx):
    ctx.rule = ("service YAMLs: every subset of the three mixin APIs (plus near-miss names, duplicates) x per-RPC rule subsets (verb, URI "
                "template from a pattern pool, body none/*/field, 0..2 additional bindings, duplicate and bogus selectors, rules for unlisted APIs) "
                "x transports {grpc, rest, grpc+rest} x add-iam-methods x IAM RPCs defined by the API itself (in the client's or another service) "
                "x file layout (45 % of the generated APIs use a proto sub-package acme.lib.v1.<sub>, one or two levels: all services in one "
                "sub-package with the messages in the API package / one service in the API package and one in a sub-package / the services in "
                "the API package and their messages in a sub-package; the examined client is the API-package or the sub-package service) "
                "x selective GAPIC generation (off / allow-list with the other RPCs omitted / allow-list with generate_omitted_as_internal; half of the "
                "APIs that define IAM RPCs themselves, 15 % of the others; the API's own IAM RPCs allow-listed, all outside the list, or mixed; an "
                "internal own RPC is also called by its private name `_set_iam_policy` and must reach the API's own path / http annotation); "
                "per configuration: all 10 mixin RPCs are called on the sync, asyncio and REST clients with generated requests; distinct by "
                "(listed set, rule set, transport, option, API-defined RPCs, layout, examined service); non-trivial = every configuration")
    workers = int(os.environ.get("VERIF_WORKERS", "6"))
    check_tables(ctx)
    check_transcode(ctx, ctx.rng("transcode"), ctx.n(150, 4000))
    r = ctx.rng("configs")
    cfgs = corpus_cfgs()                                              # corpus first
    cfgs += matrix(r, not ctx.quick)
    cfgs += [gen_cfg(r) for _ in range(ctx.n(16, 800))]
    cfgs += [gen_cfg(r, mixed=True, listed=[IAM, OPS]) for _ in range(ctx.n(2, 24))]
    cfgs += [gen_cfg(r, layout=["allsub", "split", "msgsub"][k % 3]) for k in range(ctx.n(9, 150))]     # proto sub-packages, every run
    cfgs += [gen_cfg(r, t3=False) for _ in range(ctx.n(40, 1500))]      # selection functions only (incl. custom / unset patterns)
    t2 = [c for c in cfgs if not c.get("t3", True)]
    t3 = [c for c in cfgs if c.get("t3", True)]
    run_cfgs(ctx, t3, workers)
    run_cfgs(ctx, t2, workers)
    ctx.assume("path variables of mixin rules are fields of the canonical request messages (none is a reserved name, checked on the live "
               "RESERVED_NAMES): convert_uri_fieldnames is the identity on such URIs")
    ctx.assume("add-iam-methods is not combined with IAM RPCs defined by the API itself")
    ctx.assume("'RPCs defined by the API itself' are the API's RPCs that the library carries, public or internal (generate_omitted_as_internal: the "
               "transport property and the stub of an internal RPC keep the mixin's name, so the mixin must yield just the same); an own IAM RPC "
               "that selective generation OMITS is not part of the generated API (API.build rebuilds the schema without it, no surface of the "
               "library carries its name): the same-named mixin, if listed and ruled, is then expected on the clients — which is what the code does")
    ctx.assume("rules with a custom or unset pattern are examined at function level only (no REST method can be built from them)")


def search(ctx):
    r = ctx.rng("search")
    cfgs = matrix(r, True)[:40] + [gen_cfg(r) for _ in range(40)]
    run_cfgs(ctx, cfgs, int(os.environ.get("VERIF_WORKERS", "6")))


def replay(ctx, payload):
    import leanio
    ctx.driver = leanio.Driver()
    cfg = payload["cfg"]
    judge(ctx, cfg, observe(cfg))
    want, rnd = payload.get("method"), payload.get("round")
    fails = [f for f in ctx.failures if (not want or f["payload"].get("method") in (None, want))
             and (not rnd or f["payload"].get("round") == rnd)]
    for f in fails:
        print("  failure:", f["key"], "-", f["what"])
    return not fails


CLAIM = dict(
    text='Lean 4 proof that the model of API.mixin_api_methods selects an RPC iff its API is listed under `apis`, a rule names it, and (IAM) the API '
         'defines no IAM RPC that has a rule (iff-characterisation; last rule wins; nothing when unlisted; IAM yields to same-named RPCs) — where '
         '"the API" is the sub-package view the service\'s templates are rendered with (FullApi.seenBy: every service for a client of the API package, '
         'the services of its own sub-package for a client declared in a proto sub-package; client_mixin_exposed_iff, with the counterexample '
         'iam_yield_stops_at_view_counterexample) —, that the '
         'client templates expose exactly the selected RPCs on sync and asyncio clients alike, that every stub uses the canonical '
         '/google.<...>/<Method> path, canonical request type and name/resource routing field (table bridged to MIXINS_MAP), that REST calls use a '
         'binding of the selected YAML rule (verb, path, query, body), and that add-iam-methods defines the three IAM RPCs on both clients; with '
         'machine-checked counterexamples where the code departs from the statement. Tie: T1 MIXINS_MAP; T2 has_*_mixin, _has_iam_overrides, '
         'mixin_api_methods, mixin_http_options, canonical tables vs installed descriptors, reference transcode vs google.api_core; T3 presence on '
         'the emitted sync/asyncio clients and transports, wrapped-method tables, and a three-round call program (request form, metadata and timeout of the caller; '
         'second call in another order with a retry passed by the caller; request omitted) of every mixin RPC against loopback gRPC and HTTP servers vs the model; '
         'a model-independent oracle (binding chosen in the declared order of the YAML rule).',
    technique='Lean 4 theorems (iff-characterisation of the selection, finite tables by decide) + differential T2/T3 against the emitted clients over loopback gRPC/HTTP',
    design='7.17',
    note='Per-method template text is covered only through T3. path_template.transcode is external (reference implementation T2-compared). '
         'Legacy IAM methods over REST and async REST transports are not examined.',
)
