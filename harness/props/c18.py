"""C18 — auto-populated request ids obey AIP-4235 at generation time and at call time (DESIGN §7.18)."""
from __future__ import annotations
import ast, base64, copy, json, os, re, tempfile, urllib.parse, warnings
import yaml
import apigen, genrun, libhost, rpc

PKG = "acme.ids.v1"
UUID4_RE = re.compile(r"^[0-9a-f]{8}-[0-9a-f]{4}-4[0-9a-f]{3}-[89ab][0-9a-f]{3}-[0-9a-f]{12}$")

# ---------------------------------------------------------------------------------------------------
# field declarations (the quantifier's "optional/plain, annotated/not, required, nested, non-string")
# kind -> (proto type, proto3_optional, UUID4 annotated, REQUIRED, repeated, other format)
KINDS = {
    "ok_plain":        ("string", False, True, False, False, False),
    "ok_optional":     ("string", True, True, False, False, False),
    "unannotated":     ("string", False, False, False, False, False),
    "unannotated_opt": ("string", True, False, False, False, False),
    "other_format":    ("string", False, False, False, False, True),    # format = IPV4
    "required":        ("string", False, True, True, False, False),
    "required_opt":    ("string", True, True, True, False, False),
    "bytes":           ("bytes", False, True, False, False, False),
    "int32":           ("int32", False, True, False, False, False),
    "bool":            ("bool", True, True, False, False, False),
    "message":         ("message", False, True, False, False, False),
    "enum":            ("enum", False, True, False, False, False),
    "repeated_string": ("string", False, True, False, True, False),
    # two defects at once (T2 richness; the oracle treats them like any other declaration)
    "bytes_required":  ("bytes", False, True, True, False, False),
    "int_unannotated": ("int64", False, False, False, False, False),
}
OK_KINDS = ("ok_plain", "ok_optional")
SINGLE_DEFECTS = ["unannotated", "unannotated_opt", "other_format", "required", "required_opt", "bytes", "int32", "bool",
                  "message", "enum", "repeated_string"]
FIELD_NAMES = ["request_id", "idempotency_key", "client_token", "trace_id", "op_id", "dedup_id", "nonce", "req_uuid",
               "attempt_id", "batch_id", "txn_id", "lease_id"]
STREAMING = {"unary": (False, False), "server": (False, True), "client": (True, False), "bidi": (True, True)}
# where the two services live: service -> sub-package of the API's versioned package ("" = the package itself).  The
# messages Thing/Meta/Inner/Color always live in a file of the API package itself; request/response messages live next to
# their service.  A service in a sub-package is rendered by the generator with `api` = that sub-package's view of the API.
LAYOUTS = {
    "flat":      {"Ids": "", "Aux": ""},
    "allsub":    {"Ids": "services", "Aux": "services"},          # every service in ONE sub-package, none in the package itself
    "mixed":     {"Ids": "", "Aux": "services"},
    "mixed_rev": {"Ids": "services", "Aux": ""},
    "twosubs":   {"Ids": "services", "Aux": "admin"},             # every service in a sub-package of its own
    "nested":    {"Ids": "services", "Aux": "services.admin"},    # a sub-package of a sub-package
}


def is_string_singular(kind):
    t = KINDS[kind]
    return t[0] == "string" and not t[4]


def pkg_of(m):
    return m.get("pkg") or PKG


def gen_spec(r: apigen.Rng, must_have=(), layout="flat"):
    """one API: two services, 6-8 methods, each with its own request message"""
    nm = r.randint(6, 8)
    shapes = ["unary", "unary", "unary", "unary", "server", "client", "bidi", "unary"]
    methods = []
    need = list(must_have)
    flavors = ["plain", "lro", "paged", None, "plain", "plain", "plain", None]
    for i in range(nm):
        st = shapes[i] if i < len(shapes) else "unary"
        flavor = "plain"
        if st == "unary":
            flavor = (flavors[i] if i < len(flavors) else None) or r.pick(["plain", "plain", "lro", "paged"])
        names = FIELD_NAMES[:]
        r.shuffle(names)
        fields = []
        # at least one good field everywhere (streaming methods need one for the "streaming" violation);
        # often under the SAME name in several methods, plain in one and proto3-optional in another
        if r.maybe(0.6):
            names.remove("request_id")
            fields.append({"name": "request_id", "kind": r.pick(OK_KINDS)})
        else:
            fields.append({"name": names.pop(), "kind": r.pick(OK_KINDS)})
        if r.maybe(0.7):
            fields.append({"name": names.pop(), "kind": "ok_optional" if fields[0]["kind"] == "ok_plain" else "ok_plain"})
        for _ in range(r.randint(1, 4)):
            k = need.pop() if (need and st == "unary") else r.pick(SINGLE_DEFECTS + ["bytes_required", "int_unannotated"])
            fields.append({"name": names.pop(), "kind": k})
        r.shuffle(fields)
        sig = None
        if st == "unary" and r.maybe(0.6):
            strs = [f["name"] for f in fields if is_string_singular(f["kind"])]
            r.shuffle(strs)
            sig = ["parent"] + strs[:r.randint(1, 3)]
        methods.append({"name": f"{r.pick(['Create', 'Update', 'Delete', 'Fetch', 'Move', 'Send'])}Thing{i}",
                        "service": "Ids" if (i % 4 != 3) else "Aux", "streaming": st,
                        "http": r.pick(["post", "post", "get"]) if st in ("unary", "server") else "post",
                        "sig": sig, "fields": fields, "nested": r.maybe(0.7), "flavor": flavor})
    spec = {"methods": methods}
    if layout != "flat":
        spec["layout"] = layout
        for m in methods:
            sub = LAYOUTS[layout][m["service"]]
            m["pkg"] = PKG + ("." + sub if sub else "")
    return spec


def selector(m):
    return f"{pkg_of(m)}.{m['service']}.{m['name']}"


# request messages of methods marked `shared` are declared in a file of ANOTHER package that is part of the request's
# proto_file but not of file_to_generate (a shared / common request type: the generator's "no proto-plus wrapper" branch)
SHARED_PKG = "acme.shared.v1"
SHARED_FILE = "acme/shared/v1/requests.proto"


def req_full(m):
    return f"{SHARED_PKG if m.get('shared') else pkg_of(m)}.{m['name']}Request"


def mk_request(files, params):
    """CodeGeneratorRequest: every file is in proto_file, the shared-requests file is not in file_to_generate"""
    targets = [f for f in files if f.name != SHARED_FILE]
    return apigen.request(files, params, targets=targets if len(targets) != len(files) else None)


def build_files(spec):
    f = apigen.File("acme/ids/v1/ids.proto", PKG)
    f.enum("Color", ["COLOR_UNSPECIFIED", "RED", "BLUE"])
    inner = f.msg("Inner")
    inner.field("request_id", uuid4=True)
    inner.field("label")
    thing = f.msg("Thing")
    thing.field("name")
    meta = f.msg("Meta")
    meta.field("progress", "int32")
    services = {}
    root, by_pkg = f, {PKG: f}
    shared = None
    if any(m.get("shared") for m in spec["methods"]):
        shared = apigen.File(SHARED_FILE, SHARED_PKG)
        shared.enum("Color", ["COLOR_UNSPECIFIED", "RED", "BLUE"])
        sh_inner = shared.msg("Inner")
        sh_inner.field("request_id", uuid4=True)
        sh_inner.field("label")
        root.dep(SHARED_FILE)
    for m in spec["methods"]:
        f = by_pkg.get(pkg_of(m))
        if f is None:
            sub = pkg_of(m)[len(PKG) + 1:].split(".")
            f = by_pkg[pkg_of(m)] = apigen.File("acme/ids/v1/" + "/".join(sub) + f"/{sub[-1]}.proto", pkg_of(m))
            f.dep(root.name)
        if m.get("shared"):
            f.dep(SHARED_FILE)
        rq = (shared if m.get("shared") else f).msg(m["name"] + "Request")
        rq.field("parent")
        rq.field("note")
        if m.get("nested"):
            rq.field("inner", "message", type_name=sh_inner if m.get("shared") else inner)
        flavor = m.get("flavor", "plain")
        out_type, lro = thing, None
        if flavor == "paged":
            rq.field("page_size", "int32")
            rq.field("page_token")
            out_type = f.msg(m["name"] + "Response")
            out_type.field("things", "message", repeated=True, type_name=thing)
            out_type.field("next_page_token")
        elif flavor == "lro":
            # operation_info names are resolved against the package of the service's file
            out_type, lro = ".google.longrunning.Operation", (("Thing", "Meta") if f is root else (f"{PKG}.Thing", f"{PKG}.Meta"))
        # proto3-optional fields last: their synthetic oneofs must follow every real oneof (none here)
        for fd in m["fields"]:
            typ, optional, uuid4, required, repeated, other = KINDS[fd["kind"]]
            kw = {}
            if typ == "message":
                kw["type_name"] = sh_inner if m.get("shared") else inner
            if typ == "enum":
                kw["type_name"] = f".{SHARED_PKG}.Color" if m.get("shared") else ".acme.ids.v1.Color"
            pbf = rq.field(fd["name"], typ, repeated=repeated, optional=optional, uuid4=uuid4, required=required, **kw)
            if other:
                from google.api import field_info_pb2
                pbf.options.Extensions[field_info_pb2.field_info].format = field_info_pb2.FieldInfo.IPV4
        svc = services.get(m["service"])
        if svc is None:
            svc = services[m["service"]] = f.service(m["service"])
        cs, ss = STREAMING[m["streaming"]]
        uri = "/v1/{parent=shelves/*}/" + m["name"].lower()
        svc.method(m["name"], rq, out_type, http=(m["http"], uri), body="*" if m["http"] == "post" else None,
                   sigs=[",".join(m["sig"])] if m["sig"] else (), cs=cs, ss=ss, lro=lro)
    return ([shared] if shared else []) + list(by_pkg.values())


# ---------------------------------------------------------------------------------------------------
# the property's own rule on the generator's spec (independent of the Lean model and of /repo)

def omitted(spec, m):
    """selective GAPIC generation in omit mode: a method outside the allow-list is not part of the generated API"""
    sg = spec.get("selective")
    return bool(sg and sg["methods"] and not sg.get("internal") and selector(m) not in sg["methods"])


def effective_spec(spec):
    """the API that is generated: without the omitted methods (omit mode); everything else as declared"""
    if not spec.get("selective"):
        return spec
    return dict(spec, methods=[m for m in spec["methods"] if not omitted(spec, m)])


def entry_violations(spec, entry):
    by_sel = {selector(m): m for m in spec["methods"]}
    m = by_sel.get(entry["selector"])
    if m is None:
        return ["no-method"]
    # a declared method that selective generation omits: whether "the method exists" is not settled by the statement
    # (see statement_ok); the entry's other violations count as usual
    out = ["omitted"] if omitted(spec, m) else []
    fields = entry.get("fields") or []
    if fields and m["streaming"] != "unary":
        out.append("streaming")
    decl = {f["name"]: f["kind"] for f in m["fields"]}
    decl.update({"parent": "unannotated", "note": "unannotated"})
    if m.get("nested"):
        decl["inner"] = "message_plain"
    if m.get("flavor") == "paged":
        decl.update({"page_token": "unannotated", "page_size": "int_unannotated"})
    for f in fields:
        if f not in decl:
            out.append("nested" if "." in f else "missing")
            continue
        if decl[f] == "message_plain":
            out += ["non-string", "unannotated"]
            continue
        typ, optional, uuid4, required, repeated, other = KINDS[decl[f]]
        if typ != "string" or repeated:          # a `repeated string` is not a string field (AIP-4235)
            out.append("non-string")
        if required:
            out.append("required")
        if not uuid4:
            out.append("unannotated")
    return out


def statement_ok(spec, settings):
    """True: must generate; False: must fail; None: the statement makes no demand — the list's only blemish is an otherwise
    valid entry for a method that selective generation (omit mode) leaves out of the API: the method is declared in the
    protos but is no method of the generated API"""
    sels = [e["selector"] for e in settings]
    if len(set(sels)) != len(sels):
        return False, ["duplicate"]
    v = [x for e in settings for x in entry_violations(spec, e)]
    hard = [x for x in v if x != "omitted"]
    if hard:
        return False, hard
    return (None if v else True), v


# ---------------------------------------------------------------------------------------------------
# settings lists (valid; each single violation; duplicates)

def good_entry(r, m, allow_empty=True):
    goods = [f["name"] for f in m["fields"] if f["kind"] in OK_KINDS]
    if m["streaming"] != "unary" or (allow_empty and r.maybe(0.15)):
        return {"selector": selector(m), "fields": []}
    r.shuffle(goods)
    fs = goods[:r.randint(1, len(goods))]
    if r.maybe(0.08):
        fs = fs + fs[:1]           # the same field listed twice is not a violation
    e = {"selector": selector(m), "fields": fs}
    if m.get("flavor") == "lro" and r.maybe(0.6):
        e["long_running"] = True   # the usual reason a service config has method settings at all
    return e


VIOLATIONS = ["no-method", "streaming", "missing", "nested", "kind"]


def inject(r, spec, entries, which=None):
    """turn ONE entry into a single violation; returns a label"""
    which = which or r.pick(VIOLATIONS)
    by_sel = {selector(m): m for m in spec["methods"]}
    live = [x for x in entries if x["selector"] in by_sel]       # entries an earlier injection has not re-addressed
    if not live:
        return "none"
    e = r.pick(live)
    if which == "no-method":
        m = by_sel[e["selector"]]
        P = pkg_of(m)
        spellings = [f"{P}.{m['service']}.Nope", f"{m['service']}.{m['name']}", m["name"],
                     f"{P}.{'Aux' if m['service'] == 'Ids' else 'Ids'}.{m['name']}", f"{P}.{m['service']}.{m['name']}.",
                     f"{P}.{m['service']}.{m['name'].lower()}", "", f".{P}.{m['service']}.{m['name']}",
                     "google.longrunning.Operations.GetOperation"]
        if spec.get("layout"):
            # the right service and method under the wrong package: the API package for a service of a sub-package, a
            # sub-package for a service of the API package, a sibling/parent/child package
            wrong = {PKG, PKG + ".services", PKG + ".admin", PKG + ".services.admin", P + ".services"} - {P}
            spellings += sorted(f"{w}.{m['service']}.{m['name']}" for w in wrong)
        e["selector"] = r.pick(spellings)
        return "no-method"
    if which == "streaming":
        ms = [m for m in spec["methods"] if m["streaming"] != "unary" and selector(m) not in {x["selector"] for x in entries if x is not e}]
        if not ms:
            return inject(r, spec, entries, "no-method")
        m = r.pick(ms)
        e["selector"] = selector(m)
        e["fields"] = [f["name"] for f in m["fields"] if f["kind"] in OK_KINDS][:1]
        return "streaming:" + m["streaming"]
    # field-level violations need a unary method with listed fields
    m = by_sel[e["selector"]]
    if m["streaming"] != "unary":
        return inject(r, spec, entries, "no-method")
    if which == "missing":
        bad = r.pick(["nope", "Request_id", "request-id", " request_id", "requestId", ""])
        if bad in {f["name"] for f in m["fields"]}:
            bad = "nope"
    elif which == "nested":
        bad = r.pick(["inner.request_id", "inner.label", "parent.request_id", m["fields"][0]["name"] + ".x", ".request_id"])
    else:
        cands = [f for f in m["fields"] if f["kind"] not in OK_KINDS] + [{"name": "parent", "kind": "unannotated"}]
        f = r.pick(cands)
        bad = f["name"]
        which = "kind:" + f["kind"]
    pos = r.randint(0, len(e["fields"]))
    e["fields"] = e["fields"][:pos] + [bad] + e["fields"][pos:]
    return which


def shaped_lists(r, spec):
    """valid lists of the shapes real service configs have"""
    unary = [m for m in spec["methods"] if m["streaming"] == "unary"]
    out = []
    # (1) the first entries only configure long-running polling / name a streaming method; a LATER entry lists fields
    lro = [m for m in unary if m.get("flavor") == "lro"]
    others = [m for m in unary if m.get("flavor") != "lro"]
    r.shuffle(others)
    head = [{"selector": selector(m), "fields": [], "long_running": True} for m in lro[:1]]
    head += [{"selector": selector(m), "fields": []} for m in spec["methods"] if m["streaming"] != "unary"][:1]
    tail = [good_entry(r, m, allow_empty=False) for m in others[:2]]
    if head and tail:
        out.append((head + tail, "shape:fields-in-later-entry"))
    # (2) the same field name listed for several methods (plain in one request message, proto3-optional in another), and
    #     every flavour of unary method (plain, LRO, paginated) with settings at once
    same = [m for m in unary if any(f["name"] == "request_id" and f["kind"] in OK_KINDS for f in m["fields"])]
    if len(same) >= 2:
        out.append(([{"selector": selector(m), "fields": ["request_id"]} for m in same], "shape:same-field-many-methods"))
    flav = {}
    for m in unary:
        flav.setdefault(m.get("flavor", "plain"), m)
    ent = [good_entry(r, m, allow_empty=False) for m in flav.values()]
    r.shuffle(ent)
    out.append((ent, "shape:every-flavour"))
    return out


def gen_settings(r, spec, klass=None):
    unary = [m for m in spec["methods"] if m["streaming"] == "unary"]
    ms = spec["methods"][:]
    r.shuffle(ms)
    n = r.randint(1, min(4, len(ms)))
    chosen = ms[:n]
    if not any(m["streaming"] == "unary" for m in chosen):
        chosen[0] = r.pick(unary)
    entries = [good_entry(r, m) for m in chosen]
    if not any(e["fields"] for e in entries):
        entries[0] = good_entry(r, r.pick(unary), allow_empty=False)
        if len({e["selector"] for e in entries}) != len(entries):
            entries = entries[:1]
    klass = klass or r.pick(["valid", "valid", "violation", "violation", "duplicate", "multi"])
    label = klass
    if klass == "violation":
        label = "violation:" + inject(r, spec, entries)
    elif klass == "multi":
        label = "multi:" + "+".join(sorted(inject(r, spec, entries) for _ in range(r.randint(2, 3))))
    elif klass == "duplicate":
        k = r.randrange(len(entries))
        dup = copy.deepcopy(entries[k])
        how = r.pick(["same", "other-fields", "empty-fields", "first-invalid"])
        if how == "other-fields":
            m = {selector(m): m for m in spec["methods"]}[dup["selector"]]
            dup["fields"] = [f["name"] for f in m["fields"] if f["kind"] in OK_KINDS][-1:] if m["streaming"] == "unary" else []
        elif how == "empty-fields":
            dup["fields"] = []
        elif how == "first-invalid" and entries[k]["fields"]:
            entries[k]["fields"] = entries[k]["fields"] + ["nope"]
        entries.insert(r.randint(0, len(entries)), dup)
        if r.maybe(0.2):
            entries.insert(r.randint(0, len(entries)), copy.deepcopy(dup))
        label = "duplicate:" + how
    return entries, label


# ---------------------------------------------------------------------------------------------------
# real code: schema objects, validation, generation

def yaml_entry(e):
    d = {"selector": e["selector"]}
    if e.get("long_running"):
        d["long_running"] = {"initial_poll_delay": "5s", "poll_delay_multiplier": 1.5, "max_poll_delay": "60s", "total_poll_timeout": "600s"}
    if e.get("fields"):
        d["auto_populated_fields"] = list(e["fields"])
    return d


def write_yaml(settings, rest_async=True, selective=None):
    y = {"type": "google.api.Service", "config_version": 3, "name": "ids.example.com",
         "publishing": {"method_settings": [yaml_entry(e) for e in settings]}}
    ps = {}
    if rest_async:
        ps["experimental_features"] = {"rest_async_io_enabled": True}
    if selective:
        # the same yaml carries method_settings AND library_settings…selective_gapic_generation
        ps["common"] = {"selective_gapic_generation": {"methods": list(selective["methods"]),
                                                       "generate_omitted_as_internal": bool(selective.get("internal"))}}
    if ps:
        y["publishing"]["library_settings"] = [{"version": PKG, "python_settings": ps}]
    fd, path = tempfile.mkstemp(prefix="gapicverif_c18_", suffix=".yaml", dir=genrun.SCRATCH)
    with os.fdopen(fd, "w") as fh:
        yaml.safe_dump(y, fh)
    return path


def make_request(spec, settings, transport="grpc+rest", rest_async=True):
    path = write_yaml(settings, rest_async, spec.get("selective"))
    files = build_files(spec)
    return files, mk_request(files, f"transport={transport},autogen-snippets=false,service-yaml={path}"), path


def api_json(api):
    """the model's input, read off the REAL schema objects (not off the generator's spec)"""
    from gapic.schema import wrappers
    strt = wrappers.PrimitiveType.build(str)
    out = []
    for sel, m in api.all_methods.items():
        msg = m.input          # the method's own request message (== api.messages[...] whenever that lookup succeeds)
        out.append({"selector": sel, "cs": bool(m.client_streaming), "ss": bool(m.server_streaming),
                    "input": [{"name": n, "str": f.type == strt, "required": bool(f.required), "uuid4": bool(f.uuid4),
                               "optional": bool(f.proto3_optional), "repeated": bool(f.repeated)}
                              for n, f in msg.fields.items()]})
    return out


def hidden_of(api):
    """selectors of the methods whose request message is not among `API.messages` (declared in a dependency file)"""
    return sorted(sel for sel, m in api.all_methods.items() if m.input.ident.proto not in api.messages)


def render_views(api):
    """the model's second input, read off the REAL schema objects: the views of the API that the generator hands to a
    per-service template (`Generator._render_template`: the sub-packages first, sorted, then the services of the view's own
    level), each as the selectors of its `all_methods`.  `all_method_settings` is a cached property of the VIEW."""
    out = []
    for sub in api.subpackages.values():
        out += render_views(sub)
    if any(s.meta.address.subpackage == api.subpackage_view for s in api.services.values()):
        out.append(sorted(api.all_methods))
    return out


def model_generation(ctx, api, aj, settings_lists, selective=None):
    """`aj`: the methods of the API as DECLARED (no selective generation applied: the model prunes by itself);
    `api`: the real schema object the generator works on (views are read off it)"""
    views = render_views(api)
    sel = {"methods": list(selective["methods"]), "internal": bool(selective.get("internal"))} if selective else None
    return ask(ctx, [{"op": "c18.generate", "api": aj, "views": views, "selective": sel,
                      "settings": [{"selector": e["selector"], "fields": list(e.get("fields") or [])} for e in s]} for s in settings_lists])


MSG_PATTERNS = [(re.compile(r"^Field `(.*)` was not found$", re.S), "notFound"),
                (re.compile(r"^Field `(.*)` is not of type string\.$", re.S), "notString"),
                (re.compile(r"^Field `(.*)` is a required field\.$", re.S), "isRequired"),
                (re.compile(r"^Field `(.*)` is not annotated with `google\.api\.field_info\.format = \"UUID4\"\.$", re.S), "notUuid4")]


def canon_errors(text):
    """the YAML error dict of a MethodSettingsError -> {selector: canonical error}"""
    d = yaml.safe_load(text)
    out = {}
    for sel, msgs in (d or {}).items():
        sel = "" if sel is None else str(sel)
        if msgs == ["Duplicate selector"]:
            out[sel] = {"kind": "duplicate"}
        elif msgs == ["Method was not found."]:
            out[sel] = {"kind": "methodNotFound"}
        elif msgs == ["Method is not a unary method."]:
            out[sel] = {"kind": "notUnary"}
        else:
            fs = []
            for msg in msgs:
                for pat, k in MSG_PATTERNS:
                    mm = pat.match(msg)
                    if mm:
                        fs.append([k, mm.group(1)])
                        break
                else:
                    fs.append(["?", msg])
            out[sel] = {"kind": "fields", "fields": fs}
    return out


def real_validate(api, settings):
    from google.api import client_pb2
    ms = [client_pb2.MethodSettings(selector=e["selector"], auto_populated_fields=list(e.get("fields") or [])) for e in settings]
    try:
        api.enforce_valid_method_settings(ms)
        return True, {}, None
    except Exception as e:  # noqa
        if type(e).__name__ != "MethodSettingsError":
            return False, {}, f"{type(e).__name__}: {e}"
        return False, canon_errors(str(e)), None


def ask(ctx, ops):
    """the native driver is relinked whenever any property's Driver file changes; while several builders share the
    tree the binary can be missing for a few seconds"""
    import time
    for attempt in range(40):
        try:
            return ctx.driver.ask(ops)
        except (FileNotFoundError, PermissionError, OSError, RuntimeError):
            if attempt == 39:
                raise
            time.sleep(3)


def model_errors(mo):
    return {k: v for k, v in mo["errors"]}


# ---------------------------------------------------------------------------------------------------
# T2

def t2(ctx, api, aj, spec, lists, label):
    ops = [{"op": "c18.validate", "api": aj, "settings": [{"selector": e["selector"], "fields": list(e.get("fields") or [])} for e in s]}
           for s, _ in lists]
    mos = ask(ctx, ops)
    for (settings, klass), mo in zip(lists, mos):
        payload = {"spec": spec, "settings": settings, "class": klass}
        ok, errs, crash = real_validate(api, settings)
        want, viol = statement_ok(spec, settings)
        ctx.case({"settings": settings, "class": klass, "accepted": ok}, distinct_key=["t2", json.dumps(spec["methods"], sort_keys=True)[:0], json.dumps(settings, sort_keys=True), label])
        ctx.count("settings_class", klass.split(":")[0] if not klass.startswith(("violation", "shape")) else klass)
        ctx.count("outcome", "accepted" if ok else "rejected")
        ctx.traces += 1
        if "unsupported" in mo:
            ctx.unsupported += 1
            continue
        if crash:
            ctx.fail("validation-crash:" + crash.split(":")[0], f"enforce_valid_method_settings raised {crash[:200]}", payload)
            continue
        if mo["accepted"] != ok or model_errors(mo) != errs:
            ctx.disagree("T2:c18.enforce_valid_method_settings",
                         f"model accepted={mo['accepted']} errors={model_errors(mo)} vs impl accepted={ok} errors={errs}", payload)
        oracle_generation(ctx, want, viol, ok, errs, settings, payload)


def oracle_generation(ctx, want, viol, ok, errs, settings, payload):
    """generation fails unless every condition holds and no selector repeats; the message names the offenders"""
    if want is None:
        ctx.count("no_demand", "omitted-method-entry/" + ("accepted" if ok else "rejected"))
        return
    if want and not ok:
        key = "rejected-valid"
        known_sels = {selector(m) for m in payload["spec"]["methods"]}
        if payload["spec"].get("layout") and errs and all(v == {"kind": "methodNotFound"} for v in errs.values()) and set(errs) <= known_sels:
            # every complaint is "Method was not found." about a method that the API has (services in sub-packages;
            # the defect repaired by cb5c413)
            key = "rejected-valid:method-of-another-package-view-not-found"
        ctx.fail(key, f"valid settings rejected: {errs}", payload)
    if not want and ok:
        kinds = sorted(set(viol))
        ctx.fail("accepted-invalid:" + "+".join(kinds), f"settings with violation(s) {kinds} were accepted", payload)
    if not want and not ok:
        sels = [e["selector"] for e in settings]
        offenders = {s for s in sels if sels.count(s) > 1}
        spec = payload["spec"]
        offenders |= {e["selector"] for e in settings if [x for x in entry_violations(spec, e) if x != "omitted"]}
        missing = offenders - set(errs)
        if missing:
            ctx.fail("offender-not-named", f"error message does not name {sorted(missing)}: {errs}", payload)


# ---------------------------------------------------------------------------------------------------
# T3: generation outcome + call time on the three paths

def gen_script(r, spec, settings, n_calls):
    """caller-owned objects and calls for the unary methods with auto-populated fields + one control method.
    objects carry LITERAL values (what a caller writes): instance = Request(**values), dict = dict(values)."""
    by_sel = {selector(m): m for m in spec["methods"]}
    targets = [(by_sel[e["selector"]], list(dict.fromkeys(e["fields"]))) for e in settings if e.get("fields")]
    listed = {e["selector"] for e in settings}
    controls = [m for m in spec["methods"] if m["streaming"] == "unary" and selector(m) not in listed]
    controls += [by_sel[e["selector"]] for e in settings if not e.get("fields") and by_sel[e["selector"]]["streaming"] == "unary"]
    if controls:
        targets.append((r.pick(controls), []))
    objects, calls = [], []
    ctr = [0]

    def val(tag):
        ctr[0] += 1
        return f"{tag}-{ctr[0]}"

    def new_obj(m, auto, states):
        values = {"parent": "shelves/s1"}
        if r.maybe(0.6):
            values["note"] = val("note")
        for f in m["fields"]:
            if f["name"] in auto or not is_string_singular(f["kind"]):
                continue
            if r.maybe(0.4):
                values[f["name"]] = val("other")
        for f, stt in zip(auto, states):
            if stt == "empty":
                values[f] = ""
            elif stt == "set":
                values[f] = val("mine")
        objects.append({"method": m["name"], "values": values})
        return len(objects) - 1

    def add(m, mode, i, **extra):
        c = {"method": m["name"], "mode": mode, "obj": i, "client": r.randrange(2)}
        if m.get("flavor") == "paged" and r.maybe(0.7):
            c["tokens"] = [val("tok") for _ in range(r.randint(1, 2))]      # the server announces further pages
        c.update(extra)
        calls.append(c)

    for m, auto in targets:
        plan = []
        # every state of every auto field at least once, then random combinations
        for stt in ("unset", "empty", "set"):
            plan.append([stt] * len(auto))
        for _ in range(max(0, n_calls - 3)):
            plan.append([r.pick(["unset", "unset", "empty", "set"]) for _ in auto])
        for states in plan:
            mode = r.pick(["inst", "dict", "kwargs"] if m["sig"] else ["inst", "dict"])
            i = new_obj(m, auto, states)
            if mode == "kwargs":
                kw = {k: v for k, v in objects[i]["values"].items() if k in m["sig"]}
                objects[i]["values"] = dict(kw)          # what the caller handed over is exactly the keyword arguments
                add(m, "kwargs", i, kwargs=kw)
            else:
                add(m, mode, i)
        # no request at all (gRPC paths only: the REST URI needs `parent`)
        objects.append({"method": m["name"], "values": {}})
        add(m, "none", len(objects) - 1, only_grpc=True)
        if auto:
            # two calls with two equal requests (fresh ids expected), same dict twice, same INSTANCE twice
            i = new_obj(m, auto, ["unset"] * len(auto))
            add(m, "dict", i)
            add(m, "dict", i)
            j = new_obj(m, auto, ["unset"] * len(auto))
            add(m, "inst", j, client=0)
            add(m, "inst", j, client=1)          # … even through a second client
            k = new_obj(m, auto, ["set"] * len(auto))
            add(m, "inst", k)
            add(m, "inst", k)
    return {"objects": objects, "calls": calls}


def snake(name):
    import gapic.utils as gu
    return gu.to_snake_case(name)


def decode_rest(codec, full, rec, desc_fields):
    """what the HTTP server can see: body JSON + query string (+ the path), as {field: value}"""
    out = {}
    jn = {apigen.json_name(n): n for n in desc_fields}
    if rec["body"]:
        try:
            body = json.loads(rec["body"])
        except ValueError:
            body = {}
        for k, v in body.items():
            out[jn.get(k, k)] = v
    for k, v in urllib.parse.parse_qsl(rec["query"], keep_blank_values=True):
        if k.startswith("$"):
            continue
        out[jn.get(k, k)] = v
    mm = re.match(r"^/v1/(shelves/[^/]+)/", rec["path"])
    if mm:
        out["parent"] = urllib.parse.unquote(mm.group(1))
    return out


def wire_view(m, d):
    """{string field: value or None}: a present proto3-optional field is visible even when empty, a plain
    field only when non-empty"""
    out = {}
    names = [("parent", "unannotated"), ("note", "unannotated")] + [(f["name"], f["kind"]) for f in m["fields"] if is_string_singular(f["kind"])]
    if m.get("flavor") == "paged":
        names.append(("page_token", "unannotated"))
    for n, kind in names:
        v = d.get(n)
        if KINDS[kind][1]:
            out[n] = v
        else:
            out[n] = v if v else None
    return out


def emitted_pipeline(src, cls_suffix, mname):
    """order of (populate f | validateUniverse | send) statements in an emitted client method body"""
    tree = ast.parse(src)
    for node in ast.walk(tree):
        if isinstance(node, ast.ClassDef) and node.name.endswith(cls_suffix):
            for fn in node.body:
                if isinstance(fn, (ast.FunctionDef, ast.AsyncFunctionDef)) and fn.name == mname:
                    marks = []
                    for st in ast.walk(fn):
                        if isinstance(st, ast.Assign) and isinstance(st.value, ast.Call) and "uuid.uuid4()" in ast.unparse(st.value):
                            marks.append((st.lineno, "populate:" + ast.unparse(st.targets[0]).split(".", 1)[-1]))
                        elif isinstance(st, ast.Call) and ast.unparse(st.func).endswith("_validate_universe_domain"):
                            marks.append((st.lineno, "validateUniverse"))
                        elif isinstance(st, ast.Call) and ast.unparse(st.func) == "rpc":
                            marks.append((st.lineno, "send"))
                    return [x for _, x in sorted(marks)]
    return None


def emitted_feature_tests(ctx, root, spec, settings, payload):
    """run the emitted unit tests that mention the feature (…_auto_populated_field, …_empty_call_<transport>).
    INFORMATIONAL: results go to counters/notes in the evidence; whether the emitted tests pass is C13's subject."""
    import glob, subprocess
    by_sel = {selector(m): m for m in spec["methods"]}
    for tf in sorted(glob.glob(os.path.join(root, "tests", "unit", "gapic", "**", "test_*.py"), recursive=True)):
        src = open(tf).read()
        names = []
        for n in ast.parse(src).body:
            if isinstance(n, (ast.FunctionDef, ast.AsyncFunctionDef)) and n.name.startswith("test_"):
                seg = ast.get_source_segment(src, n) or ""
                if "uuid4 field" in seg or "auto_populated_field" in n.name:
                    names.append(n.name)
        svc = os.path.basename(tf)[len("test_"):-3]
        mine = [by_sel[e["selector"]] for e in settings if e.get("fields") and by_sel[e["selector"]]["service"].lower() == svc]
        for mm in mine:
            for suffix in ("non_empty_request_with_auto_populated_field", "empty_call_grpc", "empty_call_grpc_asyncio", "empty_call_rest"):
                if f"test_{snake(mm['name'])}_{suffix}" not in names:
                    ctx.count("emitted_feature_tests", "missing")
        if not names:
            continue
        e = dict(os.environ, PYTHONPATH=root, PYTHONDONTWRITEBYTECODE="1")
        p = subprocess.run([genrun.PY, "-m", "pytest", tf, "-q", "-x", "-p", "no:cacheprovider", "-k", " or ".join(names)],
                           cwd=root, env=e, capture_output=True, text=True, timeout=600)
        ctx.count("emitted_feature_tests", "passed" if p.returncode == 0 else "failed", 1)
        ctx.count("emitted_feature_tests", "selected", len(names))
        if p.returncode != 0:
            # informational only: the emitted tests are C13's subject, never a C18 failure
            tail = [ln for ln in p.stdout.split("\n") if ln.startswith(("FAILED", "ERROR"))][:4]
            twice = any(len(set(e.get("fields") or [])) != len(e.get("fields") or []) for e in settings
                        if by_sel[e["selector"]]["service"].lower() == svc)
            ctx.count("emitted_feature_tests", "failed:field-listed-twice" if twice else "failed:other")
            notes = ctx.notes.setdefault("emitted_feature_test_failures_informational", [])
            if len(notes) < 5:
                notes.append({"file": os.path.basename(tf), "field_listed_twice": twice, "settings": settings, "tail": tail})


ALL_PATHS = ("sync", "asyncio", "rest", "rest_asyncio")


def t3(ctx, r, spec, settings, klass, script=None, paths=ALL_PATHS, run_tests=False, calls=True):
    payload = {"spec": spec, "settings": settings, "class": klass}
    files, req, ypath = make_request(spec, settings)
    root = None
    try:
        api, _ = genrun.build_api(req)
        aj = api_json(api)
        aj0 = aj
        if spec.get("selective"):
            # the declared API (what the model prunes) vs the API the generator works on (what the real code pruned)
            api0, _ = genrun.build_api(mk_request(files, "transport=grpc+rest,autogen-snippets=false"))
            aj0 = api_json(api0)
        want, viol = statement_ok(spec, settings)
        mo = model_generation(ctx, api, aj0, [settings], spec.get("selective"))[0]
        try:
            with warnings.catch_warnings():
                warnings.simplefilter("ignore")
                res = genrun.generate_inproc(req)
            ok, errs, etype = True, {}, None
        except BaseException as e:  # noqa
            res, ok, etype = None, False, type(e).__name__
            if etype == "MethodSettingsError":
                errs = canon_errors(str(e))
            else:
                ctx.fail("generation-crash:" + genrun.crash_signature(e), f"generator raised {etype}: {str(e)[:200]}", payload)
                return
        ctx.case({"settings": settings, "class": klass, "generation": "ok" if ok else etype},
                 distinct_key=["t3", json.dumps(spec, sort_keys=True), json.dumps(settings, sort_keys=True)])
        ctx.count("generation_outcome", ("accepted" if ok else etype) + "/" + klass.split(":")[0])
        if any(m.get("shared") for m in spec["methods"]):
            ctx.count("generation_shared_request", klass.split(":")[0] + "/" + ("accepted" if ok else etype))
        ctx.count("generation_layout", spec.get("layout", "flat") + ("/accepted" if ok else "/rejected"))
        if spec.get("selective"):
            ctx.count("generation_selective", ("internal" if spec["selective"].get("internal") else "omit") + "/" + klass.split(":")[0] + ("/accepted" if ok else "/rejected"))
        ctx.traces += 1
        if mo["accepted"] != ok or model_errors(mo) != errs:
            ctx.disagree("T3:c18.generation_outcome", f"model accepted={mo['accepted']} errors={model_errors(mo)} vs generator accepted={ok} errors={errs}", payload)
        oracle_generation(ctx, want, viol, ok, errs, settings, payload)
        if not ok or want is not True or not calls:
            return
        # ------------------------------------------------------------------ call time
        declared = spec
        spec = effective_spec(spec)          # selective generation, omit mode: the generated API lacks the omitted methods

        def pyname(mm):
            # internal methods (generate_omitted_as_internal) are emitted with a leading underscore
            return snake(api.all_methods[selector(mm)].client_method_name)
        root = genrun.materialise(res)
        for fl in files:
            if fl.name == SHARED_FILE:
                genrun.materialise_pb2(root, fl.pb)        # the dependency's own module (what protoc's python plugin would give)
        script = script or gen_script(r, spec, settings, ctx.n(5, 8))
        payload = dict(payload, script=script)
        codec = rpc.Codec(files)
        by_name = {m["name"]: m for m in spec["methods"]}
        auto_of, raw_of = {}, {}
        for e in settings:
            auto_of[e["selector"]] = list(dict.fromkeys(e.get("fields") or []))
            raw_of[e["selector"]] = list(e.get("fields") or [])        # the macro iterates the list as written
        model_settings = [{"selector": e["selector"], "fields": list(e.get("fields") or [])} for e in settings]
        svc_loc = {}
        for sname in {m["service"] for m in spec["methods"]}:
            spkg = [pkg_of(m) for m in spec["methods"] if m["service"] == sname][0]
            svc_loc[sname] = rpc.py_locations(api, api.services[f"{spkg}.{sname}"])
            smod = svc_loc[sname]["service_module"]
            svc_loc[sname]["rest_asyncio"] = f"{smod}.transports.rest_asyncio:Async{sname}RestTransport"
        REST_PATHS = ("rest", "rest_asyncio")

        def server_script(mm, call):
            toks = call.get("tokens") or []
            if not toks:
                return None, None
            out_full = f"{pkg_of(mm)}.{mm['name']}Response"
            g = [{"replies": [codec.encode_b64(out_full, {"next_page_token": t})]} for t in toks] + [{"replies": [codec.encode_b64(out_full, {})]}]
            h = [{"status": 200, "body": json.dumps({"nextPageToken": t})} for t in toks] + [{"status": 200, "body": "{}"}]
            return {f"/{pkg_of(mm)}.{mm['service']}/{mm['name']}": g}, h

        # one session per (service, path)
        ops, index = [], []
        for sname in sorted(svc_loc):
            loc = svc_loc[sname]
            objs = []
            for ob in script["objects"]:
                mm = by_name[ob["method"]]
                minput = api.all_methods[selector(mm)].input
                objs.append({"py_request": rpc.py_type(minput), "values": ob["values"]})
            for path in paths:
                idx = [k for k, c in enumerate(script["calls"]) if by_name[c["method"]]["service"] == sname
                       and not (c.get("only_grpc") and path in REST_PATHS)]
                if not idx:
                    continue
                calls = []
                for k in idx:
                    c = script["calls"][k]
                    mm = by_name[c["method"]]
                    g, h = server_script(mm, c)
                    calls.append({"method": pyname(mm), "mode": c["mode"], "obj": c["obj"], "kwargs": c.get("kwargs"),
                                  "client": c.get("client", 0), "consume": "pager" if mm.get("flavor") == "paged" else "value",
                                  "script_grpc": g, "script_rest": h})
                ops.append({"op": "c18_session", "kind": path, "clients": 2,
                            "client": loc["async_client"] if path in ("asyncio", "rest_asyncio") else loc["client"],
                            "transport": loc[{"sync": "grpc", "asyncio": "grpc_asyncio", "rest": "rest", "rest_asyncio": "rest_asyncio"}[path]],
                            "objects": objs, "calls": calls})
                index.append((sname, path, idx))
        out = libhost.run(root, ops, timeout=900)
        seen_ids = {}       # uuid -> (path, call index, field) where first seen
        model_imports = None
        for (sname, path, idx), sess in zip(index, out):
            if "calls" not in sess:
                ctx.fail("session-failed:" + path, f"T3 session failed ({path}): {str(sess)[-400:]}", payload)
                continue
            # model: objects of other methods are never touched, so run the model per method with the sub-sequence of
            # calls (the model's uuid counter is per run: only equalities among ids are compared)
            per_method = {}
            for pos, k in enumerate(idx):
                per_method.setdefault(script["calls"][k]["method"], []).append((pos, k))
            model_wire = {}
            mops, mkeys = [], []
            for mname, lst in per_method.items():
                mm = by_name[mname]
                mj = [x for x in aj if x["selector"] == selector(mm)][0]
                objs_m = [[[kk, vv] for kk, vv in ob["values"].items()] for ob in script["objects"]]
                mops.append({"op": "c18.session", "method": mj, "settings": model_settings, "path": path, "objects": objs_m,
                             "calls": [[script["calls"][k]["mode"], script["calls"][k]["obj"], script["calls"][k].get("tokens") or []] for _, k in lst]})
                mkeys.append((mname, lst))
            for (mname, lst), mo2 in zip(mkeys, ask(ctx, mops)):
                if "unsupported" in mo2 or "error" in mo2:
                    ctx.unsupported += 1
                    continue
                model_imports = mo2.get("imports")
                for (pos, k), mc in zip(lst, mo2["calls"]):
                    model_wire[k] = (mname, mc)
            first_populated = {}      # object index -> call index of the first call that used it in inst mode
            ids = []                  # (method, model tag, impl value)
            for pos, k in enumerate(idx):
                call = script["calls"][k]
                mm = by_name[call["method"]]
                res_ = sess["calls"][pos]
                p2 = dict(payload, path=path, call_index=k)
                auto = auto_of.get(selector(mm), [])
                ctx.case({"path": path, "mode": call["mode"], "method": mm["name"], "flavor": mm.get("flavor"), "auto": auto},
                         distinct_key=["call", json.dumps(settings, sort_keys=True), path, k, json.dumps(script["objects"][call["obj"]], sort_keys=True)])
                ctx.count("path", path)
                ctx.count("mode", call["mode"])
                ctx.count("method_flavor", mm.get("flavor", "plain") + ("+pages" if call.get("tokens") else ""))
                if "ok" not in res_:
                    ctx.fail("call-raised:" + str(res_.get("raised")), f"{path} {mm['name']}: {res_.get('raised')}: {res_.get('msg')}", p2)
                    continue
                npages = 1 + len(call.get("tokens") or [])
                if len(res_["server"]) != npages:
                    ctx.fail("server-calls", f"{path} {mm['name']}: server saw {len(res_['server'])} requests, expected {npages}", p2)
                    continue
                full = req_full(mm)
                caller = {} if call["mode"] == "none" else script["objects"][call["obj"]]["values"]
                reuse_of = first_populated.get(call["obj"]) if call["mode"] == "inst" else None
                for page, rec in enumerate(res_["server"]):
                    if path in REST_PATHS:
                        d = decode_rest(codec, full, rec, ["parent", "note", "page_token", "page_size"] + [f["name"] for f in mm["fields"]])
                    else:
                        d = codec.decode(full, rec["requests"][0])
                    wire = wire_view(mm, d)
                    # ---------------- oracle (the statement, on the caller's script and the server's view)
                    for f, got in wire.items():
                        if f == "page_token":
                            continue
                        kind = "unannotated" if f in ("parent", "note") else [x["kind"] for x in mm["fields"] if x["name"] == f][0]
                        optional = KINDS[kind][1]
                        cv = caller.get(f)
                        if page == 0:
                            ctx.count("field_state", ("auto:" if f in auto else "other:") + ("unset" if cv is None else ("empty" if cv == "" else "set")) + (":optional" if optional else ":plain"))
                        if f in auto and (cv is None or (cv == "" and not optional)):
                            if got is None or not UUID4_RE.match(got):
                                ctx.fail(f"id-missing:{path}", f"{path} {mm['name']}.{f} left unset by the caller, server saw {got!r} (not a version-4 UUID)" + (f" on page {page}" if page else ""), p2)
                                continue
                            if page:
                                continue          # follow-up requests of one paginated call: not new calls
                            prev = seen_ids.get(got)
                            if prev is not None and prev != (path, k, f):
                                if reuse_of is not None:
                                    ctx.fail("request-instance-reuse-same-id",
                                             f"{path} {mm['name']}.{f}: second call with the same request instance (field never set by the caller) re-sent the id of call {reuse_of}", p2)
                                else:
                                    ctx.fail("id-not-fresh", f"{path} {mm['name']}.{f}: id {got} already sent by {prev}", p2)
                            seen_ids.setdefault(got, (path, k, f))
                        elif f in auto:
                            want_v = cv if (cv is not None and (optional or cv != "")) else None
                            if got != want_v:
                                ctx.fail(f"caller-value-altered:{path}", f"{path} {mm['name']}.{f}: caller gave {cv!r}, server saw {got!r}" + (f" on page {page}" if page else ""), p2)
                    # ---------------- correspondence with the model
                    ctx.traces += 1
                    if k not in model_wire:
                        continue
                    mname, mc = model_wire[k]
                    if mc is None or page >= len(mc["pages"]):
                        ctx.disagree("T3:c18.session", f"model sent nothing for call {k} page {page}", p2)
                        continue
                    mwire = mc["pages"][page]
                    cmp_fields = [f for f in wire if not (path in REST_PATHS and f not in auto and f not in ("parent", "note", "page_token")
                                                          and KINDS[[x["kind"] for x in mm["fields"] if x["name"] == f][0]][3])]
                    wv = {f: wire[f] for f in cmp_fields}
                    mw = {f: mwire.get(f) for f in wv}
                    pat_m = {f: ("$" if (v or "").startswith("$") else v) for f, v in mw.items()}
                    pat_i = {f: ("$" if (v is not None and UUID4_RE.match(v)) else v) for f, v in wv.items()}
                    if pat_m != pat_i:
                        ctx.disagree("T3:c18.session", f"{path} {mm['name']} call {k} page {page}: model {pat_m} vs impl {pat_i}", p2)
                    ids += [(mname, v, wv[f]) for f, v in mw.items() if (v or "").startswith("$")]
                    # the caller's own object afterwards (model: the instance IS the request that was sent)
                    if page == 0 and call["mode"] == "inst" and isinstance(res_.get("after"), dict):
                        for f in auto:
                            if (res_["after"].get(f) or None) != (wire.get(f) or None):
                                ctx.disagree("T3:c18.caller-object", f"{path} {mm['name']}.{f}: instance holds {res_['after'].get(f)!r} after the call, server saw {wire.get(f)!r}", p2)
                if call["mode"] == "inst":
                    first_populated.setdefault(call["obj"], k)
            # equalities among generated ids: same model index <-> same uuid (per method: the model counter is per method run)
            by_m = {}
            for mname, tag, val_ in ids:
                by_m.setdefault(mname, []).append((tag, val_))
            bad = 0
            for mname, pairs in by_m.items():
                for a in range(len(pairs)):
                    for b in range(a + 1, len(pairs)):
                        if (pairs[a][0] == pairs[b][0]) != (pairs[a][1] == pairs[b][1]) and bad < 3:
                            bad += 1
                            ctx.disagree("T3:c18.session-ids", f"{path} {mname}: model {pairs[a][0]} vs {pairs[b][0]}, impl {pairs[a][1]} vs {pairs[b][1]}", payload)
        # ---- structure of the emitted client modules vs the model: statement order, the `import uuid` gate
        pl = ask(ctx, [{"op": "c18.pipeline", "path": p} for p in ("sync", "asyncio", "rest", "rest_asyncio")] +
                 [{"op": "c18.imports", "settings": model_settings, "selector": ""}])
        for sname, loc in svc_loc.items():
            base = os.path.join(root, *loc["service_module"].split("."))
            srcs = {"sync": (open(os.path.join(base, "client.py")).read(), "Client"),
                    "asyncio": (open(os.path.join(base, "async_client.py")).read(), "AsyncClient")}
            client_modules = sorted(x for x in os.listdir(base) if x.endswith("client.py"))
            if client_modules != ["async_client.py", "client.py"]:
                ctx.disagree("T3:c18.pipeline", f"client modules {client_modules}: REST no longer goes through client.py?", payload)
            for p, (src, suffix) in srcs.items():
                has_import = any(isinstance(n, ast.Import) and any(a.name == "uuid" for a in n.names) for n in ast.parse(src).body)
                ctx.traces += 1
                if has_import != pl[4]["imports"]:
                    ctx.disagree("T3:c18.import-gate", f"{sname} {p} client: `import uuid` present={has_import}, model importsUuid={pl[4]['imports']}", payload)
                uses = "uuid.uuid4()" in src
                if uses and not has_import:        # the statement's observable: such a call cannot send anything
                    ctx.fail("uuid-not-imported", f"{sname} {p} client evaluates uuid.uuid4() but does not import uuid", payload)
            for mm in spec["methods"]:
                if mm["service"] != sname or mm["streaming"] != "unary":
                    continue
                auto = raw_of.get(selector(mm), [])
                for p, (src, suffix) in srcs.items():
                    got = emitted_pipeline(src, suffix, pyname(mm))
                    model = [x for x in pl[0 if p == "sync" else 1]["stmts"] if x in ("populate", "validateUniverse", "send")]
                    want_seq = []
                    for x in model:
                        want_seq += [f"populate:{f}" for f in auto] if x == "populate" else [x]
                    ctx.traces += 1
                    if got != want_seq:
                        ctx.disagree("T3:c18.pipeline", f"{p} {mm['name']}: emitted statement order {got} vs model {want_seq}", payload)
            if pl[2]["stmts"] != pl[0]["stmts"] or pl[3]["stmts"] != pl[1]["stmts"]:
                ctx.disagree("T3:c18.pipeline", "model: rest pipeline differs from sync (or rest_asyncio from asyncio)", payload)
        # ---- the emitted unit tests that exercise the feature
        if run_tests:
            emitted_feature_tests(ctx, root, spec, settings, payload)
    finally:
        try:
            os.unlink(ypath)
        except OSError:
            pass
        if root:
            genrun.cleanup(root)


# ---------------------------------------------------------------------------------------------------

CORPUS_DIR = os.path.join(os.path.dirname(os.path.dirname(os.path.dirname(os.path.abspath(__file__)))), "corpus", "C18")


def run_corpus(ctx):
    if not os.path.isdir(CORPUS_DIR):
        return
    for fn in sorted(os.listdir(CORPUS_DIR)):
        if fn.endswith(".json"):
            with open(os.path.join(CORPUS_DIR, fn)) as fh:
                blob = json.load(fh)
            p = blob.get("payload", blob)
            t3(ctx, ctx.rng("corpus", fn), p["spec"], p["settings"], p.get("class", "corpus"), script=p.get("script"),
               paths=tuple(p.get("paths", ALL_PATHS)), run_tests=bool(p.get("run_tests")) and not ctx.quick, calls=p.get("calls", True))
            ctx.count("stream", "corpus")


def run(ctx):
    ctx.rule = ("APIs of 6-8 methods in two services (unary plain/LRO/paginated, server/client/bidi streaming; POST body:* or GET; with/without "
                "method_signature; `request_id` often declared in several request messages, plain in one and proto3-optional in another) whose request "
                "messages declare string fields plain/proto3-optional x UUID4-annotated/unannotated/other-format x REQUIRED, and bytes/int/bool/"
                "message/enum/repeated-string fields, plus a nested message; method-settings lists: valid (also reversed) | one single violation (unknown "
                "selector in 9 spellings, streaming method, missing field, nested path, each defective declaration) | duplicate selectors (4 shapes) | "
                "2-3 violations | shaped: long_running-only/streaming entries first and fields in a later entry, the same field for many methods, every "
                "unary flavour at once; calls (literal values, two clients per session): every listed field unset/empty/set x request instance/dict/"
                "flattened kwargs/no request x {sync, asyncio, REST, rest_asyncio}, repeated calls, the same dict twice, the same instance twice through "
                "two clients, paginated calls with 1-2 follow-up pages; the emitted unit tests of the feature. The same APIs with the services in "
                "proto SUB-PACKAGES of the API package (all services in one sub-package and only messages in the API package; one service in the "
                "package and one in a sub-package, either way round; each service in a sub-package of its own; a sub-package of a sub-package), "
                "generated through the real Generator with autogen-snippets=false: per service a valid list, every single violation, a duplicate, "
                "lists spanning both services, the wrong-package spellings of a selector; call time through the emitted sub-package clients. "
                "APIs some or all of whose request messages are declared in a dependency file of another package (in proto_file, not in "
                "file_to_generate; own Inner/Color there): valid entries, every defective declaration, missing, nested, streaming, unknown selector, "
                "duplicates, next to entries of ordinary methods in both orders — T2, the real Generator, and call time through the emitted clients "
                "(plain protobuf request classes: instance / dict / kwargs / no request). "
                "Service yamls that carry method_settings AND library_settings…selective_gapic_generation (allow-list = a proper subset of the "
                "methods; omit mode and generate_omitted_as_internal; services in one package or in several package views): settings lists with selectors inside / outside the allow-list x existing / "
                "non-existing (misspelt method, misspelt service, foreign API), each single violation on an allow-listed method, duplicates, random "
                "lists — T2 on the schema object built from that yaml, generation through the real Generator, call time on the pruned library and "
                "on internal (underscore) methods. "
                "distinct = (settings list) for T2/T3-generation, (settings, path, call, caller object) for calls; every generated case is non-trivial")
    ctx.assume("string members of a real oneof and field names that are Python reserved words are outside the quantifier's declaration list and "
               "are not generated")
    ctx.assume("a method whose request message is declared in a dependency file is not paginated here: the emitted pager copies the request "
               "with `RequestType(request)`, which a plain protobuf class refuses (TypeError 'No positional arguments allowed' on every call, with "
               "or without method settings) — pagination is C07's subject")
    ctx.assume("the emitted unit tests of the feature are run for information only (counters/notes): a field listed twice in one entry makes them "
               "fail while the library behaves as the statement says — an excluded shape of C13, not a C18 matter")
    ctx.assume("the follow-up requests of a paginated call are not calls of their own: the oracle asks them for a v4 id (or the caller's value), "
               "not for a fresh one; that they repeat the first request's id is compared with the model only")
    ctx.assume("on the REST path the transport adds default-valued REQUIRED fields to the query string (C04's subject): REQUIRED fields that are not "
               "auto-populated are left out of the model comparison there")
    ctx.assume("uuid.uuid4 is external: the model takes it as an injective stream of non-empty strings; the oracle checks the RFC-4122 v4 shape "
               "and pairwise distinctness of every id the servers saw")
    ctx.assume("APIs with services in sub-packages are generated with autogen-snippets=false (snippet generation raises KeyError for such services: "
               "C14/C01's subject); request and response messages live in the file of their service")
    ctx.assume("selective GAPIC generation: allow-lists name existing methods only (an invalid allow-list is C16's subject)")
    ctx.assume("omit mode: an otherwise valid entry for a declared method that selective generation leaves out of the API is neither required to "
               "generate nor to fail (the statement's 'the method exists' is not settled for it; the code answers 'Method was not found.', which the "
               "model follows: omitted_method_settings_rejected); any other violation in such a list must still abort the generation")
    run_corpus(ctx)
    r = ctx.rng("apis")
    napis = ctx.n(3, 12)      # the sub-package layouts and the selective-generation yamls below add 5 + 2 (thorough: 10 + 8) APIs
    for a in range(napis):
        spec = gen_spec(r, must_have=SINGLE_DEFECTS if a % 2 == 0 else SINGLE_DEFECTS[::-1])
        files = build_files(spec)
        req = mk_request(files, "transport=grpc+rest,autogen-snippets=false")
        api, _ = genrun.build_api(req)
        aj = api_json(api)
        lists = [gen_settings(r, spec) for _ in range(ctx.n(60, 150))]
        # every single violation kind once per API, deterministically
        for which in VIOLATIONS:
            s, lab = gen_settings(r, spec, "valid")
            lists.append((s, "violation:" + inject(r, spec, s, which)))
        # the same valid lists in reverse order (the verdict and what each method sees do not depend on the order)
        lists += [(list(reversed(sl)), "valid-reversed") for sl, lab in lists if lab == "valid" and len(sl) > 1][:10]
        shaped = shaped_lists(r, spec)
        lists += shaped
        t2(ctx, api, aj, spec, lists, f"api{a}")
        # T3 on a sub-list: accepted ones reach call time
        pick = shaped + [x for x in lists if x[1] == "valid"][:ctx.n(0, 3)]
        rest = [x for x in lists if not x[1].startswith(("valid", "shape"))]
        r.shuffle(rest)
        pick += rest[:ctx.n(5, 20)]
        for n_, (settings, klass) in enumerate(pick):
            # quick tier: two of the four paths per library, alternating (every path is walked by every API)
            paths = ALL_PATHS if not ctx.quick else [("sync", "rest_asyncio"), ("asyncio", "rest")][(n_ + a + int(ctx.seed or 0)) % 2]
            t3(ctx, r, spec, settings, klass, paths=paths,
               run_tests=((n_ == 0 and a == 0) or not ctx.quick) and klass.startswith(("valid", "shape")))
            ctx.count("stream", "generated")
    run_layouts(ctx, ctx.rng("layouts"), ctx.n(1, 2), ctx.n(1, 30), ctx.n(1, 2))
    run_shared(ctx, ctx.rng("shared-requests"), ctx.n(1, 3), ctx.n(20, 80), ctx.n(14, 60), layouts=("flat",) if ctx.quick else ("flat", "allsub"),
               ncalls=ctx.n(1, 3))
    run_selective(ctx, ctx.rng("selective"), ctx.n(1, 2), ctx.n(30, 100), ctx.n(6, 15), layouts=("flat",) if ctx.quick else ("flat", "allsub"))
    # … and with the services in several package views (library settings are validated against the whole API since 11fcd33)
    sd = int(ctx.seed or 0)
    multi = ["mixed", "twosubs", "nested", "mixed_rev"]
    if ctx.quick:
        run_selective(ctx, ctx.rng("selective-multi"), 1, 20, 5, layouts=(multi[sd % 4],), modes=(bool(sd // 4 % 2),))
        run_selective(ctx, ctx.rng("selective-multi2"), 1, 20, 5, layouts=(multi[(sd + 2) % 4],), modes=(not bool(sd // 4 % 2),))
    else:
        run_selective(ctx, ctx.rng("selective-multi"), 1, 60, 12, layouts=tuple(multi))


def layout_lists(r, spec, nrandom, thin=False):
    """settings lists for an API whose services live in sub-packages: per SERVICE a valid list naming only that service, every
    single violation (injected into an entry of that service) and a duplicate; valid lists spanning both services; random ones.
    thin (quick tier): every violation kind and the duplicate once per API, on a service of a sub-package (alternating
    when both services live in one)"""
    out = []
    # (Aux has unary methods only: the streaming violation, index 1, goes to Ids whenever Ids lives in a sub-package)
    in_sub = [sn for sn in ("Aux", "Ids") if any(m["service"] == sn and pkg_of(m) != PKG for m in spec["methods"])] or ["Aux", "Ids"]
    for sname in ("Ids", "Aux"):
        mine = [m for m in spec["methods"] if m["service"] == sname]
        unary = [m for m in mine if m["streaming"] == "unary"]
        if not unary:
            continue

        def valid_list():
            ms = unary[:]
            r.shuffle(ms)
            return [good_entry(r, m, allow_empty=False) for m in ms[:r.randint(1, 2)]]
        out.append((valid_list(), f"valid:{sname}-only"))
        for k, which in enumerate(VIOLATIONS + ["duplicate"]):
            if thin and in_sub[k % len(in_sub)] != sname:
                continue
            s = valid_list()
            if which == "duplicate":
                s.insert(r.randint(0, len(s)), copy.deepcopy(r.pick(s)))
                out.append((s, f"duplicate:{sname}"))
                continue
            sub = {"methods": mine, "layout": spec.get("layout")}        # the injection stays inside this service
            out.append((s, f"violation:{sname}:" + inject(r, sub, s, which)))
    both = []
    for sname in ("Ids", "Aux"):
        unary = [m for m in spec["methods"] if m["service"] == sname and m["streaming"] == "unary"]
        if unary:
            both.append(good_entry(r, r.pick(unary), allow_empty=False))
    out.append((both, "valid:both-services"))
    if not thin:
        out.append(([{"selector": e["selector"], "fields": []} for e in both], "valid:both-services-no-fields"))
    out += [gen_settings(r, spec) for _ in range(nrandom)]
    return out


def run_layouts(ctx, r, napis, nrandom, ncalls, layouts=None):
    """the API's services live in sub-packages of the API package (all of them / one of two / each in its own / nested):
    generation through the real Generator for every list, call time for the first accepted valid lists"""
    for li, layout in enumerate(layouts or [k for k in LAYOUTS if k != "flat"]):
        for a in range(napis):
            spec = gen_spec(r, must_have=SINGLE_DEFECTS if a % 2 == 0 else SINGLE_DEFECTS[::-1], layout=layout)
            files = build_files(spec)
            api, _ = genrun.build_api(mk_request(files, "transport=grpc+rest,autogen-snippets=false"))
            lists = layout_lists(r, spec, nrandom, thin=ctx.quick and not layouts)
            t2(ctx, api, api_json(api), spec, lists, f"{layout}{a}")
            # call time: the list spanning both services first (both sub-package clients), then other accepted valid lists
            order = sorted(range(len(lists)), key=lambda i: (lists[i][1] != "valid:both-services", i))
            done = 0
            for i in order:
                settings, klass = lists[i]
                before = ctx.distribution.get("generation_layout", {}).get(layout + "/accepted", 0)
                go = klass.startswith("valid") and done < ncalls
                # quick tier: two of the four paths per layout, rotating with the layout and the seed
                paths = ALL_PATHS if not ctx.quick else [("sync", "rest_asyncio"), ("asyncio", "rest")][(li + a + int(ctx.seed or 0)) % 2]
                t3(ctx, r, spec, settings, klass, calls=go, run_tests=go and not ctx.quick, paths=paths)
                if go and ctx.distribution.get("generation_layout", {}).get(layout + "/accepted", 0) > before:
                    done += 1
                ctx.count("stream", "generated-layout:" + layout)


def gen_selective(r, spec, internal):
    """an allow-list for selective GAPIC generation: a proper, non-empty subset of the API's methods with at least one
    unary method inside and one outside"""
    unary = [m for m in spec["methods"] if m["streaming"] == "unary"]
    r.shuffle(unary)
    inside = unary[:max(1, len(unary) // 2)]
    outside = unary[len(inside):] or []
    rest = [m for m in spec["methods"] if m["streaming"] != "unary"]
    inside += [m for m in rest if r.maybe(0.5)]
    if not outside and len(inside) > 1:
        outside = [inside.pop()]
    allow = [selector(m) for m in spec["methods"] if m in inside]        # declaration order
    return {"methods": allow, "internal": bool(internal)}


def selective_lists(r, spec, nrandom):
    """settings lists for an API generated selectively: selectors inside / outside the allow-list x existing / non-existing"""
    eff = dict(spec, methods=[m for m in spec["methods"] if selector(m) in spec["selective"]["methods"]])
    out_ms = [m for m in spec["methods"] if selector(m) not in spec["selective"]["methods"]]
    out_unary = [m for m in out_ms if m["streaming"] == "unary"]
    lists = []
    s, _ = gen_settings(r, eff, "valid")
    lists.append((s, "valid:inside"))
    # every single violation on an entry of an allow-listed method (unknown selectors are never on the allow-list)
    for which in VIOLATIONS:
        s, _ = gen_settings(r, eff, "valid")
        lists.append((s, "violation:inside:" + inject(r, eff, s, which)))
    # unknown selectors built from an OMITTED method's name, and a foreign one
    if out_unary:
        m = r.pick(out_unary)
        for bad in (selector(m) + "g", f"{pkg_of(m)}.{m['service']}z.{m['name']}", "no.such.Api.Method"):
            s, _ = gen_settings(r, eff, "valid")
            s.insert(r.randint(0, len(s)), {"selector": bad, "fields": ["request_id"]})
            lists.append((s, "violation:unknown-selector"))
        lists.append(([{"selector": selector(m) + "g", "fields": ["request_id"]}], "violation:unknown-selector-alone"))
        # a valid entry for an omitted method (alone / next to allow-listed ones), and an invalid one
        lists.append(([good_entry(r, m, allow_empty=False)], "valid:outside"))
        s, _ = gen_settings(r, eff, "valid")
        s.append(good_entry(r, m, allow_empty=False))
        lists.append((s, "valid:inside+outside"))
        s = [good_entry(r, m, allow_empty=False)]
        lists.append((s, "violation:outside:" + inject(r, dict(spec, methods=[m]), s, r.pick(["missing", "nested", "kind"]))))
    s, lab = gen_settings(r, eff, "duplicate")
    lists.append((s, lab))
    lists += [gen_settings(r, spec) for _ in range(nrandom)]
    return lists


def run_selective(ctx, r, napis, nrandom, nt3, layouts=("flat",), modes=(False, True)):
    """service yamls that carry `method_settings` AND `library_settings … selective_gapic_generation` (omit mode and
    generate_omitted_as_internal): T2 on the schema object built from that yaml, generation through the real Generator,
    call time on the generated (pruned / partly internal) library"""
    for layout in layouts:
        for a in range(napis):
            for internal in modes:
                spec = gen_spec(r, must_have=SINGLE_DEFECTS if a % 2 == 0 else SINGLE_DEFECTS[::-1], layout=layout)
                spec["selective"] = gen_selective(r, spec, internal)
                lists = selective_lists(r, spec, nrandom)
                files, req, ypath = make_request(spec, [])
                try:
                    api, _ = genrun.build_api(req)          # the schema object selective generation produced
                finally:
                    os.unlink(ypath)
                tag = ("internal" if internal else "omit")
                t2(ctx, api, api_json(api), spec, lists, f"selective-{tag}-{layout}{a}")
                viol = [x for x in lists if not x[1].startswith(("valid", "duplicate", "multi"))]
                viol.sort(key=lambda x: not x[1].startswith(("violation:unknown", "violation:outside")))       # stable
                fixed = viol[:nt3] + [x for x in lists if x[1] in ("valid:outside", "valid:inside+outside")]
                called = False
                for settings, klass in [x for x in lists if x[1] == "valid:inside"] + fixed:
                    go = klass == "valid:inside" and not called and (not ctx.quick or internal == bool((a + int(ctx.seed or 0)) % 2))
                    paths = ALL_PATHS if not ctx.quick else [("sync", "rest_asyncio"), ("asyncio", "rest")][(a + int(ctx.seed or 0)) % 2]
                    t3(ctx, r, spec, settings, klass, calls=go, paths=paths)
                    called = called or go
                    ctx.count("stream", f"generated-selective:{tag}")
                # internal mode: a valid entry of an OMITTED (internal) method reaches call time as well
                if internal and not ctx.quick:
                    for settings, klass in [x for x in lists if x[1] == "valid:inside+outside"][:1]:
                        t3(ctx, r, spec, settings, klass)


def shared_lists(r, spec, nrandom):
    """settings lists for an API some of whose request messages are declared in a dependency file of another package:
    valid, each single violation (every defective declaration of the request, missing, nested, streaming, unknown selector),
    duplicates — on the methods with such a request, alone and next to entries of ordinary methods"""
    sh = [m for m in spec["methods"] if m.get("shared")]
    sh_unary = [m for m in sh if m["streaming"] == "unary"]
    plain_unary = [m for m in spec["methods"] if not m.get("shared") and m["streaming"] == "unary"]
    lists = []
    for m in sh_unary:
        good = [f["name"] for f in m["fields"] if f["kind"] in OK_KINDS]
        lists.append(([{"selector": selector(m), "fields": good[:1]}], "valid:shared"))
        lists.append(([{"selector": selector(m), "fields": []}], "valid:shared-no-fields"))
        for f in m["fields"]:
            if f["kind"] not in OK_KINDS:
                lists.append(([{"selector": selector(m), "fields": r.pick([[f["name"]], good[:1] + [f["name"]]])}], "violation:shared:kind:" + f["kind"]))
        lists.append(([{"selector": selector(m), "fields": ["parent"]}], "violation:shared:kind:unannotated"))
        sub = dict(spec, methods=[x for x in sh if x["service"] == m["service"]])
        for which in ("missing", "nested", "no-method", "streaming"):
            e = [{"selector": selector(m), "fields": good[:1]}]
            lists.append((e, "violation:shared:" + inject(r, sub, e, which)))
        lists.append(([{"selector": selector(m), "fields": good[:1]}, {"selector": selector(m), "fields": good[:1]}], "duplicate:shared"))
        if plain_unary:
            p = r.pick(plain_unary)
            bad = [f["name"] for f in m["fields"] if f["kind"] not in OK_KINDS] or ["parent"]
            # an ordinary valid entry next to an invalid one on the shared request (both orders), and the other way round
            e = [good_entry(r, p, allow_empty=False), {"selector": selector(m), "fields": [r.pick(bad)]}]
            lists.append((e, "violation:plain-valid+shared-invalid"))
            lists.append((list(reversed(e)), "violation:shared-invalid+plain-valid"))
            pe = good_entry(r, p, allow_empty=False)
            pe["fields"] = pe["fields"] + ["nope"]
            lists.append(([{"selector": selector(m), "fields": good[:1]}, pe], "violation:shared-valid+plain-invalid"))
            lists.append(([good_entry(r, p, allow_empty=False), {"selector": selector(m), "fields": good[:1]}], "valid:plain+shared"))
    lists += [gen_settings(r, spec) for _ in range(nrandom)]
    return lists


def run_shared(ctx, r, napis, nrandom, nt3, layouts=("flat",), ncalls=1):
    """request messages declared in a dependency file of another package (in proto_file, not in file_to_generate)"""
    for layout in layouts:
        for a in range(napis):
            spec = gen_spec(r, must_have=SINGLE_DEFECTS if a % 2 == 0 else SINGLE_DEFECTS[::-1], layout=layout)
            every = (a + int(ctx.seed or 0)) % 2 == 0
            for i, m in enumerate(spec["methods"]):
                if every or i % 2 == 0:
                    m["shared"] = True          # all request messages / every other one
                    if m.get("flavor") == "paged":
                        m["flavor"] = "plain"   # see the assumption: the emitted pager cannot copy a plain protobuf request
            files = build_files(spec)
            api, _ = genrun.build_api(mk_request(files, "transport=grpc+rest,autogen-snippets=false"))
            lists = shared_lists(r, spec, nrandom)
            t2(ctx, api, api_json(api), spec, lists, f"shared-{layout}{a}")
            fixed = [x for x in lists if ":shared" in x[1] or "+shared" in x[1] or "shared-" in x[1]]
            seen, pick = set(), []
            for x in fixed:                      # one list per class first, then the rest
                if x[1] not in seen:
                    seen.add(x[1])
                    pick.append(x)
            pick += [x for x in fixed if x not in pick]
            ctx.count("hidden_request_methods", len(hidden_of(api)))
            done = 0
            # call time first on a list that has entries of an ordinary AND of a shared request, then on shared-only lists
            pick.sort(key=lambda x: (x[1] != "valid:plain+shared", x[1] != "valid:shared"))        # stable
            for n_, (settings, klass) in enumerate(pick[:nt3]):
                before = ctx.distribution.get("generation_shared_request", {}).get("valid/accepted", 0)
                go = klass in ("valid:plain+shared", "valid:shared") and done < ncalls
                paths = ALL_PATHS if not ctx.quick else [("sync", "rest_asyncio"), ("asyncio", "rest")][(n_ + a + int(ctx.seed or 0)) % 2]
                t3(ctx, r, spec, settings, klass, calls=go, paths=paths, run_tests=go and not ctx.quick)
                if go and ctx.distribution.get("generation_shared_request", {}).get("valid/accepted", 0) > before:
                    done += 1
                ctx.count("stream", "generated-shared-request")


def search(ctx):
    r = ctx.rng("search")
    for a in range(6):
        spec = gen_spec(r, must_have=SINGLE_DEFECTS)
        files = build_files(spec)
        api, _ = genrun.build_api(mk_request(files, "transport=grpc+rest,autogen-snippets=false"))
        aj = api_json(api)
        lists = [gen_settings(r, spec) for _ in range(200)]
        t2(ctx, api, aj, spec, lists, f"search{a}")
        for settings, klass in [x for x in lists if x[1] == "valid"][:3]:
            t3(ctx, r, spec, settings, klass)
    run_layouts(ctx, ctx.rng("search-layouts"), 3, 40, 1)
    run_shared(ctx, ctx.rng("search-shared"), 3, 200, 80, layouts=("flat", "allsub", "mixed"))
    run_selective(ctx, ctx.rng("search-selective"), 2, 200, 40, layouts=("flat", "allsub", "mixed", "twosubs", "nested", "mixed_rev"))


def replay(ctx, payload):
    import leanio
    ctx.driver = leanio.Driver()
    t3(ctx, ctx.rng("replay"), payload["spec"], payload["settings"], payload.get("class", "replay"), script=payload.get("script"),
       paths=tuple(payload.get("paths", ALL_PATHS)), run_tests=bool(payload.get("run_tests")) or "test" in str(payload.get("class")))
    if not ctx.failures:
        files = build_files(payload["spec"])
        api, _ = genrun.build_api(mk_request(files, "transport=grpc+rest,autogen-snippets=false"))
        t2(ctx, api, api_json(api), payload["spec"], [(payload["settings"], payload.get("class", "replay"))], "replay")
    for f in ctx.failures:
        print("  failure:", f["key"], "-", f["what"])
    for d in ctx.disagreements:
        print("  disagreement:", d["correspondence"], "-", d["what"])
    return not ctx.failures


CLAIM = dict(
    text=('Lean 4 proof on a model of API.enforce_valid_method_settings that a method-settings list is accepted iff no selector repeats and every '
          'entry names an existing method and, when it lists fields, a unary method whose listed fields are top-level, non-REQUIRED, UUID4-annotated '
          'singular strings (with the exact error reported per selector, completeness of the violation list, duplicates reported as such), that '
          'generation — one such validation, against the whole API, per sub-package view that renders a service — aborts on exactly the lists the '
          'whole API rejects wherever the services live, and on a '
          'model of the auto_populate_uuid4_fields macro, of the settings lookup by selector and of the `import uuid` gate that on the sync, asyncio, '
          'REST and rest_asyncio paths a listed field is sent with a value drawn from uuid4 during that call iff the caller left it unset '
          '(proto3-optional: not present; plain: empty; no request at all: every listed field), that a caller-provided value and all other fields are '
          'sent unchanged, that ids of different populating calls differ, that no call can fail for a missing `import uuid` whatever the order of the '
          'entries, and that the follow-up requests of a paginated call repeat the first id. Tie: T2 real enforce_valid_method_settings vs the model '
          'on generated settings lists (incl. reversed and shaped lists); T3 generation outcome (MethodSettingsError + YAML error map) of the real '
          'Generator vs the model, also for APIs whose services live in proto sub-packages (five layouts) and for service yamls that switch on '
          'selective GAPIC generation (omit / internal mode; the model prunes the declared API itself: selective_generation_rejects_invalid) and '
          'for methods whose request message is declared in a dependency file of another package (validated like any other: '
          'hidden_request_never_accepted; call time on plain protobuf request classes), '
          'the requests seen by loopback gRPC/HTTP servers across programs of calls (literal instance/dict/kwargs/no request, two clients, the same '
          'object twice, paginated and LRO methods) on four paths vs the model, the statement order and import gate of the emitted client modules, '
          '(the emitted unit tests of the feature are run for information only); a model-independent oracle restating AIP-4235.'),
    technique='Lean 4 theorems (loop invariants over the settings list and over the macro loop) + differential T2/T3 against the real validation and the emitted clients',
    design='7.18',
    note=('One departure of the code from the statement is proved as a _counterexample theorem and recorded as a known finding: a request INSTANCE '
          "that is passed twice re-sends the first id because the emitted code populates the caller's object in place. (A bare KeyError for every "
          'entry listing fields of a request message declared in a file that is not generated was repaired in /repo by f83c180; corpus entries = '
          'regression inputs, valid_entry_on_hidden_request_accepted = regression theorem.) (A VALID settings entry '
          'being rejected with "Method was not found." when another service of the API lives in a proto sub-package was repaired in /repo by '
          'cb5c413: every view now validates against the whole API; corpus entry = regression input, generation_accepts_valid = regression theorem.) '
          'The emitted unit tests of the '
          'feature are run for information only (a field listed twice in one entry makes them fail; the library is right: C13 excluded shape). (A `repeated string` '
          'UUID4 field passing the validation was repaired in /repo by 239cd3d; corpus entry = regression input, `repeated_string_rejected` = '
          "regression theorem.) uuid.uuid4 is an external parameter (injective, non-empty). macro_on_all_paths is structural on the model's "
          'statement lists and is tied to the templates only through the emitted method bodies and T3. Jinja, proto-plus presence semantics and the '
          'REST transcoding of the populated request are not modelled.'),
)
