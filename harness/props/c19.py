"""C19 — resource path helpers build and parse names as mutual inverses (DESIGN §7.19)."""
from __future__ import annotations
import json, re, string
import apigen, genrun, libhost, translate

NAMES = ["Alpha", "Bravo", "Charlie", "Delta", "Echo", "Foxtrot", "Golf", "Hotel", "India", "Juliet",
         "Kilo", "Lima", "Mike", "November", "Oscar", "Papa", "Quebec", "Romeo", "Sierra", "Tango"]
SEPS = ["-", "_", "~", "."]
VALUE_ALPHABET = string.ascii_letters + string.digits + "-_~.@:+%= é"
COMMON = ["billing_account", "folder", "organization", "project", "location"]


def gen_pattern(r: apigen.Rng, allow_dot=True):
    """tokenised pattern per the property's quantifier: 1..6 variables, literal collection ids,
    optional trailing {v=**}, non-slash separators between variables of one segment, singleton
    suffixes, or the wildcard `*`."""
    if r.maybe(0.04):
        return [["lit", "*"]]
    nvars = r.randint(1, 6)
    segs, lit = [], ""
    used = set()
    i = 0
    while i < nvars:
        coll = r.pick(["shelves", "books", "as", "cs", "projects", "locations", "items", "k", "v1"]) + "/"
        lit += coll
        segs.append(["lit", lit]); lit = ""
        # one path segment: 1..6 variables joined by non-slash separators (the quantifier allows up to six in one segment)
        k = min(nvars - i, 1 if r.maybe(0.6) else r.randint(2, 6))
        for j in range(k):
            name = f"v{i}" if r.maybe(0.3) else r.pick(["shelf", "book", "a", "b", "c", "d", "e", "project", "location", "item_id"])
            while name in used:
                name += "x"
            used.add(name)
            last = (i == nvars - 1)
            segs.append(["var", name, bool(last and j == k - 1 and r.maybe(0.35))])
            i += 1
            if j < k - 1:
                seps = SEPS if allow_dot else [s for s in SEPS if s != "."]
                segs.append(["lit", r.pick(seps)])
        if i < nvars:
            lit = "/"
    if segs[-1][0] == "var" and not segs[-1][2] and r.maybe(0.2):
        segs.append(["lit", "/" + r.pick(["settings", "config", "cmekConfig"])])   # singleton suffix
    # merge adjacent literals
    out = []
    for s in segs:
        if out and s[0] == "lit" and out[-1][0] == "lit":
            out[-1][1] += s[1]
        else:
            out.append(list(s))
    return out


def render(segs):
    return "".join(s[1] if s[0] == "lit" else "{" + s[1] + ("=**}" if s[2] else "}") for s in segs)


def delimiters(segs):
    d = {"/"}
    for a, b in zip(segs, segs[1:]):
        if a[0] == "var" and b[0] == "lit" and b[1]:
            d.add(b[1][0])
    return d


def gen_values(r: apigen.Rng, segs):
    d = delimiters(segs)
    alpha = [c for c in VALUE_ALPHABET if c not in d]
    vals = []
    nv = sum(1 for s in segs if s[0] == "var")
    k = 0
    for idx, s in enumerate(segs):
        if s[0] != "var":
            continue
        k += 1
        n = r.randint(1, 6)
        v = "".join(r.pick(alpha) for _ in range(n))
        if r.maybe(0.5):                       # every character family in one value: letters of both cases and digits
            v += "".join(c for c in "aZ7" if c in alpha)
        if s[2] and idx == len(segs) - 1 and r.maybe(0.7):    # trailing ** may contain '/'
            v += "/" + "".join(r.pick(alpha) for _ in range(r.randint(1, 4)))
        vals.append(v)
    return vals


def classify(segs, vals):
    """signature key of an input w.r.t. the theorem's hypotheses (None = inside `Good`)"""
    if any(v == "" for v in vals):
        return "empty-segment-value"
    if any("\n" in v for v in vals):
        return "newline-in-segment-value"
    return None


def build_api(patterns, file_level=()):
    """one API whose service sees a resource per pattern (message resources) + file-level ones"""
    f = apigen.File("acme/lib/v1/lib.proto", "acme.lib.v1")
    svc = f.service("Library")
    for k, (name, pat) in enumerate(patterns):
        m = f.msg(name)
        m.field("name", "string")
        m.resource(f"lib.example.com/{name}", pat)
        if k % 4 == 3:
            # visible ONLY through the response type of a long-running operation (no request refers to it, no method returns it)
            rq = f.msg(f"Export{name}Request"); rq.field("parent", "string")
            svc.method(f"Export{name}", rq, ".google.longrunning.Operation", lro=(f"acme.lib.v1.{name}", "google.protobuf.Empty"))
            continue
        rq = f.msg(f"Get{name}Request")
        rq.field("name", "string", ref=f"lib.example.com/{name}")
        svc.method(f"Get{name}", rq, m)
    for k, (name, pat) in enumerate(file_level):
        f.resource_definition(f"other.example.com/{name}", pat)
        if k % 2 == 1:
            # referenced only from a field of an LRO response message
            out = f.msg(f"Moved{name}"); out.field("target", "string", ref=f"other.example.com/{name}")
            rq = f.msg(f"Move{name}Request"); rq.field("parent", "string")
            svc.method(f"Move{name}", rq, ".google.longrunning.Operation", lro=(f"acme.lib.v1.Moved{name}", "google.protobuf.Empty"))
            continue
        rq = f.msg(f"Ref{name}Request")
        rq.field("target", "string", ref=f"other.example.com/{name}")
        svc.method(f"Ref{name}", rq, ".google.protobuf.Empty")
    return f


def snake(name):
    return re.sub(r"(?<!^)([A-Z])", r"_\1", name).lower()


def oracle_and_diff(ctx, cases, results, model, source):
    """cases[i] = {name, segs, values, nonmatching, kind}; results/model aligned"""
    for c, r, mo in zip(cases, results, model):
        segs, vals = c["segs"], c["values"]
        args = [s[1] for s in segs if s[0] == "var"]
        key = classify(segs, vals)
        payload = {"segs": segs, "values": vals, "pattern": render(segs), "kind": c.get("kind", "message")}
        ctx.count("variables", len(args))
        ctx.count("shape", "wildcard" if render(segs) == "*" else ("multi-var-segment" if any(
            a[0] == "var" and b[0] == "lit" and b[1] and b[1][0] != "/" for a, b in zip(segs, segs[1:])) else "plain"))
        # ---- oracle (model-independent restatement of the property)
        built = r["built"]
        if "raised" in built:
            ctx.fail(key or "build-raised", f"{c['name']}_path raised {built['raised']}", payload)
            continue
        path = built["value"]
        expect_path = "".join(s[1] if s[0] == "lit" else vals[args.index(s[1])] for s in segs)
        if path != expect_path:
            ctx.fail(key or "build-wrong", f"built path {path!r} != pattern instantiated {expect_path!r}", payload)
        parsed = r["parsed"]
        if "raised" in parsed:
            ctx.fail(key or "parse-raised", f"parse_{c['name']}_path raised {parsed['raised']}", payload)
            continue
        want = dict(zip(args, vals))
        if parsed["value"] != want:
            ctx.fail(key or "roundtrip", f"parse(build({vals})) = {parsed['value']} for pattern {render(segs)!r}",
                     {**payload, "path": path, "observed": parsed["value"]})
        for s, pr in zip(c["nonmatching"], r["nonmatching"]):
            if pr.get("value") != {}:
                ctx.fail(key or "nonmatch-not-empty", f"parse of non-matching {s!r} gave {pr}", {**payload, "path": s})
        # ---- correspondence with the Lean model
        if mo.get("unsupported") or mo.get("regex") is None and render(segs) != "*":
            ctx.unsupported += 1
            continue
        ctx.traces += 1
        m_built = mo["built"]
        m_parsed = None if mo["parsed_built"] is None else dict(mo["parsed_built"])
        if m_built != path or (m_parsed is not None and m_parsed != parsed["value"]):
            ctx.disagree("T3:c19.path-helpers", f"model built/parsed {m_built!r}/{m_parsed} vs impl {path!r}/{parsed['value']}", payload)
        for s, pr, mp in zip(c["nonmatching"], r["nonmatching"], mo["parsed"]):
            if mp is not None and dict(mp) != pr.get("value"):
                ctx.disagree("T3:c19.nonmatching", f"model {dict(mp)} vs impl {pr} on {s!r}", {**payload, "path": s})


def run_batch(ctx, batch, label):
    """batch: list of cases; generate one API, T2 on schema attributes, T3 on the imported client"""
    patterns = [(c["name"], render(c["segs"])) for c in batch if c.get("kind", "message") == "message"]
    flevel = [(c["name"], render(c["segs"])) for c in batch if c.get("kind") == "file"]
    f = build_api(patterns, flevel)
    req = apigen.request([f], "transport=grpc,autogen-snippets=false")
    # ---- T2: generator-side attributes vs model (regex compared as CPython-parsed AST)
    api, _ = genrun.build_api(req)
    svc = next(iter(api.services.values()))
    by_type = {m.resource_type: m for m in svc.resource_messages}
    model = ctx.driver.ask([{"op": "c19", "segs": c["segs"], "values": c["values"], "paths": c["nonmatching"]} for c in batch])
    for c, mo in zip(batch, model):
        msg = by_type.get(c["name"])
        if msg is None:
            ctx.fail("helper-missing", f"resource {c['name']} not visible to the service", {"pattern": render(c["segs"])})
            continue
        if mo.get("regex") is None:
            continue
        try:
            real = translate.regex_to_json(msg.path_regex_str)
        except Exception as e:
            real = {"error": str(e)}
        impl = {"args": list(msg.resource_path_args), "formatted": msg.resource_path_formatted,
                "re": real.get("re"), "names": real.get("names")}
        mod = {"args": mo["args"], "formatted": mo["formatted"], "re": mo["regex"]["re"], "names": mo["regex"]["names"]}
        if impl != mod:
            diff = [k for k in impl if impl[k] != mod[k]]
            ctx.disagree("T2:c19.path_regex_str", f"{diff} differ for pattern {render(c['segs'])!r}: impl regex {msg.path_regex_str!r}",
                         {"segs": c["segs"], "values": c["values"], "pattern": render(c["segs"])})
    # ---- T3: emitted client
    res = genrun.generate_inproc(req)
    root = genrun.materialise(res)
    try:
        ops = [{"op": "dir", "module": "acme.lib_v1", "attr": "LibraryClient"}]
        for c in batch:
            sn = snake(c["name"])
            ops.append({"op": "call", "module": "acme.lib_v1", "attr": f"LibraryClient.{sn}_path", "args": c["values"]})
        out = libhost.run(root, ops)
        if "child_error" in out[0]:
            ctx.fail("import-failed", "emitted library failed: " + out[0]["child_error"][-300:], {"patterns": patterns})
            return
        names = set(out[0].get("names", []))
        for rname in COMMON:
            for fn in (f"common_{rname}_path", f"parse_common_{rname}_path"):
                if fn not in names:
                    ctx.fail("helper-missing", f"{fn} missing from client", {"patterns": patterns})
        for c in batch:
            sn = snake(c["name"])
            for fn in (f"{sn}_path", f"parse_{sn}_path"):
                if fn not in names:
                    ctx.fail("helper-missing", f"{fn} missing from client", {"pattern": render(c["segs"]), "kind": c.get("kind")})
        ops2, idx = [], []
        for c, b in zip(batch, out[1:]):
            sn = snake(c["name"])
            start = len(ops2)
            if "value" in b:
                ops2.append({"op": "call", "module": "acme.lib_v1", "attr": f"LibraryClient.parse_{sn}_path", "args": [b["value"]]})
            for s in c["nonmatching"]:
                ops2.append({"op": "call", "module": "acme.lib_v1", "attr": f"LibraryClient.parse_{sn}_path", "args": [s]})
            idx.append(start)
        out2 = libhost.run(root, ops2)
        results = []
        for c, b, st in zip(batch, out[1:], idx):
            k = st
            parsed = {"raised": "n/a"}
            if "value" in b:
                parsed = out2[k]; k += 1
            results.append({"built": b, "parsed": parsed, "nonmatching": out2[k:k + len(c["nonmatching"])]})
        oracle_and_diff(ctx, batch, results, model, label)
    finally:
        genrun.cleanup(root)


def nonmatching_for(r, segs):
    pat = render(segs)
    if pat == "*":
        return ["anything/at all", ""]
    outs = ["", "zz-no-match"]
    first = segs[0][1] if segs[0][0] == "lit" else None
    if first:
        outs.append("X" + first + "tail")       # wrong literal prefix
    return outs


def make_cases(ctx, r, n, excluded=False):
    cases = []
    for i in range(n):
        segs = gen_pattern(r, allow_dot=True)
        vals = gen_values(r, segs)
        cases.append({"segs": segs, "values": vals, "nonmatching": nonmatching_for(r, segs)})
    return cases


EXCLUDED_POINTS = [
    # (segs, values, inside the property's own quantifier?)
    ([["lit", "as/"], ["var", "a", False], ["lit", "."], ["var", "b", False]], ["xy", "z"], True),
    ([["lit", "p/"], ["var", "a", False]], ["x\ny"], True),
    ([["lit", "p/"], ["var", "a", False], ["lit", "/q/"], ["var", "b", False]], ["", "k"], True),
]


def check_name_shapes(ctx, which=("same-short-name", "keyword-variable")):
    """two legal but unusual shapes of resource NAMES (not of patterns): both are open findings (known_findings.json)"""
    import subprocess, sys as _sys
    for shape in which:
        f = apigen.File("acme/lib/v1/lib.proto", "acme.lib.v1")
        svc = f.service("Library")
        if shape == "same-short-name":
            specs = [("Thing", "foo.example.com/Thing", "foos/{foo}/things/{thing}"), ("OtherThing", "bar.example.com/Thing", "bars/{bar}/things/{thing}")]
        else:
            specs = [("Klass", "lib.example.com/Klass", "classes/{class}/imports/{import}")]
        for mname, rtype, pat in specs:
            m = f.msg(mname); m.field("name", "string"); m.resource(rtype, pat)
            rq = f.msg(f"Get{mname}Request"); rq.field("name", "string", ref=rtype)
            svc.method(f"Get{mname}", rq, m)
        payload = {"name_shape": shape}
        ctx.count("shape", "names:" + shape)
        ctx.case({"name_shape": shape}, distinct_key=["name-shape", shape])
        res, err = genrun.try_generate(apigen.request([f], "transport=grpc,autogen-snippets=false"))
        if err:
            ctx.fail(f"name-shape:{shape}:generation", f"generator raised {err[0]}: {err[1]}", payload)
            continue
        client = next(fl for fl in res.file if fl.name.endswith("services/library/client.py"))
        try:
            compile(client.content, client.name, "exec")
        except SyntaxError as e:
            line = client.content.splitlines()[(e.lineno or 1) - 1].strip()
            key = "helper-syntax-error:keyword-variable" if (shape == "keyword-variable" and re.match(r"def \w+_path\(", line)) else f"name-shape:{shape}:syntax-error"
            ctx.fail(key, f"pattern {specs[0][2]!r}: emitted client does not parse: {line[:100]}", payload)
            continue
        root = genrun.materialise(res)
        try:
            probe = ("import json\nfrom acme.lib_v1.services.library import LibraryClient as C\nout = {}\n"
                     "for pat, vals in %r:\n"
                     "    built = pat.format(**vals)\n"
                     "    out[pat] = [sorted(n for n in dir(C) if n.endswith('_path') and 'common' not in n), [getattr(C, n)(built) for n in dir(C) if n.startswith('parse_') and 'common' not in n]]\n"
                     "print(json.dumps(out))\n") % ([(pat, {v: "x" + v for v in re.findall(r"{(\w+)}", pat)}) for _, _, pat in specs],)
            p_ = subprocess.run([_sys.executable, "-c", probe], cwd=root, capture_output=True, text=True, env={"PYTHONPATH": root, "PATH": "/usr/bin:/bin"}, timeout=120)
        finally:
            genrun.cleanup(root)
        if p_.returncode:
            ctx.fail(f"name-shape:{shape}:import", f"emitted client failed: {p_.stderr[-300:]}", payload)
            continue
        out = json.loads(p_.stdout.strip().splitlines()[-1])
        for mname, rtype, pat in specs:
            helpers, parses = out[pat]
            vals = {v: "x" + v for v in re.findall(r"{(\w+)}", pat)}
            if vals not in parses:       # no helper of the client parses a path built from THIS pattern
                key = "helper-name-collision:same-short-name" if shape == "same-short-name" else f"name-shape:{shape}:roundtrip"
                ctx.fail(key, f"resource {rtype} ({pat}): no parse_*_path of the client recovers {vals} (helpers: {helpers})", payload)


def run(ctx):
    ctx.rule = ("structured patterns per the quantifier (1..6 variables, collection ids, separators - _ ~ ., "
                "trailing **, singleton suffix, wildcard) x values over non-delimiter characters; a case is "
                "distinct by (pattern, values); non-trivial = at least one variable and a successful build")
    ctx.assume("segment values are generated non-empty and newline-free except in the excluded-point stream")
    ctx.assume("resource patterns have distinct variable names (re.compile rejects duplicates)")
    check_name_shapes(ctx)
    r = ctx.rng("patterns")
    napis = ctx.n(3, 40)
    per_api = 16
    # corpus / excluded-point stream first
    batch = []
    for k, (segs, vals, inside) in enumerate(EXCLUDED_POINTS):
        batch.append({"name": NAMES[k], "segs": segs, "values": vals, "nonmatching": nonmatching_for(r, segs)})
    run_batch(ctx, batch, "excluded-points")
    for c in batch:
        ctx.case({"pattern": render(c["segs"]), "values": c["values"], "stream": "excluded-point"},
                 distinct_key=[render(c["segs"]), c["values"]])
    for a in range(napis):
        cases = make_cases(ctx, r, per_api)
        for k, c in enumerate(cases):
            c["name"] = NAMES[k]
            c["kind"] = "file" if (k % 5 == 4 and render(c["segs"]) != "*") else "message"
        run_batch(ctx, cases, f"api{a}")
        for c in cases:
            ctx.case({"pattern": render(c["segs"]), "values": c["values"]},
                     distinct_key=[render(c["segs"]), c["values"]],
                     nontrivial=any(s[0] == "var" for s in c["segs"]))
    # value sweep on the last API's patterns through the function-level path (regex only, no regeneration)
    sweep(ctx, r, ctx.n(40, 400), ctx.n(25, 100))


def sweep(ctx, r, npat, nval):
    """T2-only sweep: real `path_regex_str`/format string evaluated with Python's `re` in-process vs model;
    the oracle is applied to the same observables."""
    from gapic.schema import wrappers
    from google.protobuf import descriptor_pb2
    from google.api import resource_pb2
    ops, metas = [], []
    for i in range(npat):
        segs = gen_pattern(r)
        pat = render(segs)
        opts = descriptor_pb2.MessageOptions()
        opts.Extensions[resource_pb2.resource].type = "lib.example.com/Thing"
        opts.Extensions[resource_pb2.resource].pattern.append(pat)
        mt = wrappers.MessageType(message_pb=descriptor_pb2.DescriptorProto(name="Thing", options=opts),
                                  fields={}, nested_enums={}, nested_messages={})
        args, fmt, rx = list(mt.resource_path_args), mt.resource_path_formatted, mt.path_regex_str
        for j in range(nval):
            vals = gen_values(r, segs)
            ops.append({"op": "c19", "segs": segs, "values": vals, "paths": []})
            metas.append((segs, vals, args, fmt, rx))
    model = ctx.driver.ask(ops)
    for (segs, vals, args, fmt, rx), mo in zip(metas, model):
        ctx.case(distinct_key=[render(segs), vals], nontrivial=bool(args))
        key = classify(segs, vals)
        payload = {"segs": segs, "values": vals, "pattern": render(segs), "via": "function-level"}
        try:
            path = fmt.format(**dict(zip(args, vals)))
            m = re.match(rx, path)
            parsed = m.groupdict() if m else {}
        except Exception as e:
            ctx.fail(key or "raised", f"{type(e).__name__}: {e}", payload)
            continue
        if render(segs) != "*" and parsed != dict(zip(args, vals)):
            ctx.fail(key or "roundtrip", f"parse(build({vals})) = {parsed} for {render(segs)!r}", {**payload, "path": path})
        if mo.get("regex") is None and render(segs) != "*":
            ctx.unsupported += 1
            continue
        ctx.traces += 1
        if mo["built"] != path or (mo["parsed_built"] is not None and dict(mo["parsed_built"]) != parsed):
            ctx.disagree("T2:c19.sweep", f"model {mo['built']!r}/{mo['parsed_built']} vs impl {path!r}/{parsed}", payload)


def search(ctx):
    """failing-input search after a broken obligation/correspondence: a larger sweep"""
    sweep(ctx, ctx.rng("search"), 300, 60)
    r = ctx.rng("search-api")
    for a in range(6):
        cases = make_cases(ctx, r, 16)
        for k, c in enumerate(cases):
            c["name"] = NAMES[k]
        run_batch(ctx, cases, f"search{a}")


def replay(ctx, payload):
    if "name_shape" in payload:
        check_name_shapes(ctx, (payload["name_shape"],))
        for f in ctx.failures:
            print("  failure:", f["key"], "-", f["what"])
        return not ctx.failures
    segs, vals = payload["segs"], payload["values"]
    c = {"name": "Alpha", "segs": segs, "values": vals, "nonmatching": [payload["path"]] if "path" in payload and payload.get("observed") is None and False else [], "kind": payload.get("kind", "message")}
    ctx.driver = __import__("leanio").Driver()
    run_batch(ctx, [c], "replay")
    for f in ctx.failures:
        print("  failure:", f["key"], "-", f["what"])
    return not ctx.failures


CLAIM = dict(
    text="Lean 4 proof (all patterns, all values, no size bound) on a regex-engine model of the emitted re.match that parse_<r>_path(<r>_path(vals)) returns exactly the segments and rebuilding returns the path, under an explicit decidable hypothesis `Good` (values non-empty, newline-free, not containing the first character of the literal that follows); wildcard and non-match theorems; counterexample theorems for what `Good` excludes. Tie: T1 bridge of PATH_ARG_RE/common resources, T2 AST equality between the model regex and CPython's parse of the real path_regex_str, T3 the static helpers of the imported emitted client vs the model, plus a model-independent oracle.",
    technique='Lean 4 theorem (induction on pattern segments over a CPS backtracking-regex model) + translator bridge + differential T2/T3',
    design='7.19',
    note='Hypotheses of parse_build_partial exclude empty and newline-containing values: both fail on the real code and are listed in known_findings.json.',
)
